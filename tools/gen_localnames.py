#!/usr/bin/env python3
"""Regenerate mstatic/localnames.json - the reference spelling of the local
variables of every function of /repo (see mstatic/localnames.py).  Run after
a change of /repo that is meant to stay (a fix: commit):

  /venv/bin/python tools/gen_localnames.py
"""
import json
import os
import sys

HERE = os.path.dirname(os.path.dirname(os.path.abspath(__file__)))
sys.path.insert(0, HERE)

from mstatic import localnames  # noqa: E402
from mstatic.core import Program  # noqa: E402

REPO = os.environ.get('MSTATIC_REPO', '/repo')


def main():
    prog = Program(REPO, normalise=False)
    table = {}
    for q, f in sorted(prog.funcs.items()):
        if f.parent is not None or '.tests.' in q:
            continue
        sig = localnames.signatures(f.node)
        table[q] = {'locals': sig,
                    'eq': sorted(localnames.eq_texts(f.node))}
    with open(localnames.TABLE, 'w') as fh:
        json.dump(table, fh, indent=0, sort_keys=True)
    print('%d functions, %d locals' % (
        len(table), sum(len(v['locals']) for v in table.values())))


if __name__ == '__main__':
    main()
