#!/usr/bin/env python3
"""Run pytest and kill it as soon as it printed its summary line (engine
test processes hang for minutes at interpreter exit on non-daemon threads).
usage: pytest_kill.py <logfile> <timeout_s> <pytest args...>"""
import os
import re
import signal
import subprocess
import sys
import time

log, tmo = sys.argv[1], int(sys.argv[2])
args = ['/venv/bin/python', '-m', 'pytest'] + sys.argv[3:]
with open(log, 'w') as fh:
    p = subprocess.Popen(args, stdout=fh, stderr=subprocess.STDOUT,
                         start_new_session=True)
    t0 = time.time()
    pat = re.compile(r'(passed|failed|error|no tests ran).* in [\d.]+s')
    while p.poll() is None and time.time() - t0 < tmo:
        time.sleep(2)
        try:
            with open(log) as rd:
                tail = rd.read()[-2000:]
        except OSError:
            tail = ''
        last = tail.strip().splitlines()[-1] if tail.strip() else ''
        if pat.search(last):
            time.sleep(2)
            break
    if p.poll() is None:
        try:
            os.killpg(p.pid, signal.SIGKILL)
        except ProcessLookupError:
            pass
