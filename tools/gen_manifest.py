#!/usr/bin/env python3
"""Regenerate /verif/MANIFEST.json from the table below.

A property is listed under `checks` as soon as mstatic/rules/cNN.py exists,
otherwise under `not_applicable`.
"""
import json
import os
import sys

HERE = os.path.dirname(os.path.dirname(os.path.abspath(__file__)))
sys.path.insert(0, HERE)
from mstatic.rules import args, effects  # noqa: E402

# id -> (decided (what the check establishes), not decided, technique)
P = {
    'C01': (
        'post-commit queue discipline over the whole call graph (no entry '
        'point can reach register_operation outside @post_tx_queue.run), '
        'decorator order, error conversion at the task/workflow handler '
        'layer and in the expression evaluators, registration of wake-ups '
        '(_check_affected_tasks, completion check) on every normal exit, '
        'exhaustiveness of join logical states / workflow commands / '
        'completion verdicts, the task-state -> on-clause routing table, '
        'hop integrity (scheduler job paths and RPC signatures), no nested '
        'transactions, and termination devices of task-graph walks',
        'termination of every run, equality of the final state/tasks/output '
        'with the language semantics, join arithmetic',
        'call-graph reachability with hop edges + CFG dominance / '
        'must-pass-through + exhaustiveness tables'),
    'C02': (
        'compare-and-swap losers skip completion logic (everything after '
        'the CAS is dominated by its success edge), commands are sorted by '
        'unique key before they are executed, spec objects are immutable '
        'outside mistral/lang, execution specs are rebuilt from the stored '
        'dict, and the version merge overwrites only towards the higher '
        'version',
        'equality of two runs under different schedules / cache eviction; '
        'commutativity of the merge on values',
        'CFG dominance on CAS results + who-may-write over spec objects + '
        'dataflow on the command list'),
    'C03': (
        'single writers of the state columns, transition-table validation '
        'dominating the workflow CAS, the folded transition table restricted '
        'to targets actually requested is inside the documented relation, '
        'who may re-enter RUNNING, results accepted once, completed tasks '
        'and finished workflows left alone (every set_state site enumerated '
        'with its abstract current-state set and classified)',
        'legality of every committed sequence under interleaved operator '
        'commands',
        'who-may-write + finite state-domain abstract interpretation over '
        'the CFG of every set_state call site'),
    'C04': (
        'unique constraint on unique_key, every command passes through '
        '_configure_if_join, join execution created once under the named '
        'lock after a lookup, joins start only through the locked refresh '
        'with re-check, backlog round trip of command attributes, reverse '
        'controller only emits satisfied tasks',
        'cardinality arithmetic of join states, overlapping transactions, '
        'reverse-workflow phantom reads',
        'CFG dominance (lock / lookup / re-check) + writer/reader table '
        'agreement'),
    'C05': (
        'expression evaluation is pure (deep copy before any store; '
        'ContextView mutators raise), the set of functions that mutate a '
        'persisted context field equals a frozen table, published data '
        'overrides inherited data, writer and reader use one version-key '
        'function, ContextView lookup priority at every construction site, '
        'merge results are not discarded when the left side may be None',
        'which value survives a join for given version maps; causal-path '
        'semantics over all graphs',
        'alias/mutation-effect analysis + argument-order agreement + '
        'nullable-origin must-use analysis'),
    'C06': (
        'second result rejected before any write, duplicate start returns '
        'the existing execution, actions scheduled only for an IDLE task '
        'after the CAS, redelivered non-safe actions are not run and at most '
        'one result is sent per path, RPC client/server/engine signatures '
        'agree, every delivery consults the delivered execution before '
        'mutating task accounting',
        'effect of a duplicate at each point of a run; heartbeat/result '
        'race',
        'CFG dominance + path counting + signature agreement across the RPC '
        'hop'),
    'C07': (
        'capacity changes, completion and scheduling are inside the '
        'with-items named lock after a refresh and completed-task return; '
        'with-items completions are decoupled through a keyed job; '
        'schedule/decrease and increase pairing; results sorted by index and '
        'filtered on accepted; final-state precedence',
        'counts, numeric concurrency bound, completion orders',
        'CFG dominance + must-pass-through pairing + key agreement'),
    'C08': (
        'retry continuation dominated by the retries-remain/break/continue '
        'test with a +1 increment, timeout only fails incomplete tasks, '
        'before-start hooks precede scheduling with a state re-check, policy '
        'keys agree across schemas, getters and factories, delays are the '
        'evaluated policy delay',
        'attempt counts, elapsed delays, timer/result races',
        'CFG dominance + table agreement'),
    'C09': (
        'each terminal setter hands the result to the parent exactly on the '
        'successful-CAS path and post-commit, wf_action completions rebuild '
        'the result from the stored output, root id / namespace / index / '
        'undeclared input keys are propagated with agreeing keys, '
        'environment lookups delegate to the root execution',
        'parent continues exactly once under all orders; name resolution',
        'must-pass-through on the CAS success path + writer/reader key '
        'agreement'),
    'C10': (
        'task executions are created only through one chain that is '
        'dominated by the paused-workflow test in the dispatcher, '
        'Task.complete stops before dispatch when paused, resume drains the '
        'backlog and reprocesses unprocessed tasks, pause/resume propagate '
        'to sub-workflows and parent tasks, backlog round trip',
        'equality of the resumed run with the unpaused run; pause/branch '
        'races',
        'who-may-call reachability + CFG dominance + round-trip agreement'),
    'C11': (
        'every engine continuation point is dominated by a test that '
        'excludes completed workflow states, stop recurses into unfinished '
        'sub-workflows exactly for CANCELLED, terminal states map to the '
        'three setters, cancellation is tested first in check_and_complete',
        'where the stop lands relative to in-flight events',
        'state-domain guard dominance over the frozen list of continuation '
        'points'),
    'C12': (
        'the REST layer admits rerun/skip only from ERROR to RUNNING/SKIPPED '
        'with the reset rule, succeeded tasks are refused, rerun order '
        '(recursive rerun before commands), skip completes with SKIPPED and '
        'routes through on-skip',
        'the run after rerun equals the run with the new result; leftover '
        'jobs',
        'state-domain abstract interpretation of the controller + '
        'must-pass-through ordering'),
    'C13': (
        'capture is a CAS on the value read and its result gates the '
        'invocation, delete follows invoke, the dispatcher never pops before '
        'the delay elapsed, store queries carry the time / captured filters, '
        'schedule() never commits on its own, job descriptors resolve to '
        'functions with matching parameters decorated with post_tx_queue.run',
        'at-least/exactly-once over interleavings and crash points; elapsed '
        'time as a quantity',
        'CFG dominance + query-shape + call-graph reachability + descriptor '
        'agreement'),
    'C14': (
        'only safe_yaml touches the YAML loader, every raise in the language '
        'layer is a DSLParsingException (HTTP 400) subclass, conversion '
        'boundaries around yaml / jsonschema / json / YAQL / Jinja, schema '
        'validation precedes use of raw nodes (shape-before-use), stored '
        'form re-validates, regular expressions on definition text have no '
        'exponential-backtracking shape',
        'totality over all documents (complete exception-escape analysis); '
        'text slicing of workbook members; behavioural equality after '
        'restart',
        'who-may-call + raise-discipline + shape-before-use typestate + '
        'regex AST analysis'),
    'C15': (
        'every query construction in the DB API is scoped through '
        '_secure_query, admin-gated insecure, or in the frozen raw-query '
        'table; nothing unscoped is reachable in-process from REST or '
        'expression functions; mutations of public/shareable rows are '
        'dominated by an ownership check; the forced-ownership listener is '
        'attached to every secure model',
        'the outcome of each cell of the actor x operation matrix',
        'query-shape classification + call-graph reachability + CFG '
        'dominance of ownership checks'),
    'C16': (
        'every exposed controller method enforces a registered rule of the '
        'right resource/verb that dominates every effectful call, '
        'cross-project listing passes an admin-only rule, publicize is '
        'enforced before any effect when scope is public, Mistral errors map '
        'to their http_code, and the state-changing requests reach the '
        'engine only for the documented (current, requested) states',
        'HTTP status codes and row contents as runtime outcomes',
        'controller-tree enumeration + CFG dominance over call-graph '
        'effects + finite state-domain abstract interpretation + policy '
        'registry folding'),
    'C17': (
        'only the processor whose conditional update succeeded starts the '
        'workflow, the update is a CAS on the next_execution_time that was '
        'read (or a counted delete), next time is computed from max(now, '
        'previous), remaining executions are decremented and deletion '
        'happens at zero, the workflow is started with the trigger\'s input '
        'under its security context, creation validates first',
        'one execution per due time under concurrent processors; croniter '
        'arithmetic',
        'CFG dominance on the CAS result + dataflow of the read value into '
        'the filter'),
    'C18': (
        'both deletion queries derive from the completed-root query '
        '(no parent task, terminal minus ignored states), superfluous '
        'ordering is descending with an offset, only ids from those queries '
        'are deleted, the batch loop stops on an empty fetch, foreign keys '
        'cascade, a criterion is applied only when configured',
        'the exact set deleted for a population/config',
        'query-shape analysis + nullable-option guard dominance'),
    'C19': (
        'every outbound HTTP call is dominated by validate_url on the same '
        'URL expression, the validator tests scheme, host, allow-list and '
        'every resolved address against every denied network without early '
        'exits, addresses are compared in canonical (IPv4-unwrapped) form, '
        'and the folded default deny-list covers loopback, link-local and '
        'the metadata address',
        'DNS answers; redirects; resolution results',
        'CFG dominance + typestate on address values + constant folding of '
        'the default deny-list'),
    'C20': (
        'the expiry query filters heartbeat age, sync and RUNNING on every '
        'path, per-action failures are isolated in the batch loops, expired '
        'actions complete through the normal error path, the integrity '
        'check is guarded (delay, completed workflow) and rescheduled, and '
        'it is scheduled from start/rerun',
        'clock positions, subsets of silent actions, checker/result races',
        'query-shape + CFG dominance (try/except/continue isolation)'),
}


# round three: decision tables and the machinery rules (decided, technique)
DT = 'decision tables evaluated over a finite domain by the state-domain ' \
     'interpreter (rules/dt.py)'
X3 = {
    'C01': ('the join verdict / induced state / route search tables give '
            'the prescribed answer for every combination of counts 0..3 and '
            'inbound states, the controllers turn start / resume / a '
            'completed task into the prescribed commands, transaction() '
            'commits exactly after a normal body and the post-commit queue '
            'runs exactly what was queued after a normal return', DT),
    'C02': ('publishing and routing use the inbound context refreshed from '
            'all upstream tasks, the spec caches are keyed by (definition '
            'id, updated_at) of one row / by execution id', None),
    'C04': ('the join verdict, induced-state and route-search decision '
            'tables (counts 0..3), the named-lock primitives (immediate '
            'insert of a uniquely named row, deleted after the body), the '
            'one-shot refresh acts for every unfinished workflow state', DT),
    'C05': ('the upstream tasks are all recorded triggers, the inbound '
            'context is refreshed before publish', None),
    'C07': ('the tail of next indexes holds exactly the never-started '
            'items, truth tables of the item predicates (started / in '
            'flight / done / to re-run) over state x accepted, every '
            'configured policy (concurrency) gets its hook, lock '
            'primitives', DT),
    'C08': ('the retry decision table over (count, attempt, state, '
            'continue-on, break-on, join) with attempt + 1 persisted, every '
            'configured policy gets its hooks', DT),
    'C09': ('sub-workflow name resolution table (workbook-relative, then '
            'global, in the caller\'s namespace), delegation to the root '
            'environment under exactly {has a root}, the post-commit queue '
            'that carries the hand-off', DT),
    'C10': ('resume recomputes the commands of every completed unprocessed '
            'task and restarts IDLE tasks, a join refresh that fires while '
            'PAUSED still acts', DT),
    'C12': ('a partial rerun selects exactly the completed, unaccepted '
            'items', DT),
    'C13': ('a job row written inside transaction() is committed exactly '
            'when the body returned normally', None),
    'C17': ('creation / validation decision tables of cron triggers '
            '(first-time-only fires once, count > 1 needs a pattern, one '
            'minute ahead), trust and input validation before the insert',
            DT),
    'C18': ('the ignored states are the configured option on every way '
            'into the base query, thresholds come from a UTC clock', None),
}
# clauses added in rounds six and seven (rule ids in DESIGN Appendix B)
X67 = {
    'C01': 'collections a cached spec hands out and the caller edits are '
           'built per call and kept nowhere',
    'C02': 'the stored failure / cancel texts list tasks in an order the '
           'definition fixes; the batches of completed tasks partition all '
           'rows',
    'C05': 'filters passed to the DB layer are never dropped; the '
           'publishing on-clause is the one of the completion state; the '
           'batches of completed tasks partition all rows; a re-run task '
           'keeps its triggered_by while its policy context is cleared',
    'C06': 'the redelivered flag survives the context round trip; the '
           'duplicate-entry conversion is unconditional; results are sent '
           'back without waiting',
    'C08': 'a before-start policy that holds the task runs before those '
           'that test for IDLE',
    'C09': 'the direct and the RPC start of a sub-workflow agree and create '
           'a fresh child; RPC clients send the arguments as given',
    'C10': 'control attributes of backlogged commands are saved as they '
           'are; an admin context lists sub-workflows of any project',
    'C11': 'late completion of a delayed task is not conditioned on the '
           'workflow state; post-commit operations are isolated one by one; '
           'an admin context lists sub-workflows of any project; size limits '
           'are applied in their unit',
    'C12': 'a re-run task keeps its triggered_by while its policy context '
           'is cleared; the rerun flags are forwarded unchanged',
    'C13': 'every due job of the store is tried; the stored context is '
           'always deserialisable and complete',
    'C14': 'get_schema receivers never memoise a parent schema; conversions '
           'of definition values fail as definition errors',
    'C16': 'scope validation admits the literal values only',
    'C17': 'one send per RPC request; only the compare-and-swap updates a '
           'trigger',
    'C19': 'the deny-list is re-iterable and its default covers the whole '
           'loopback / link-local ranges',
    'C20': 'the integrity check recovers with the latest child and is '
           'scheduled for every non-negative delay; a truncated batch is not '
           'combined with skipped rows',
}

NOT3 = {
    'C08': 'elapsed delays as quantities, timer/result races; the attempt '
           'bound is decided only as the shape "another attempt iff '
           'stored attempt < count" over counts 0..5, not as a count of '
           'executions observed',
    'C07': 'counts of executions per index and the numeric concurrency '
           'bound as observed quantities, completion orders (the item '
           'predicates and the index computation are decided as truth '
           'tables / finite-domain tables)',
    'C17': 'one execution per due time under concurrent processors; '
           'croniter arithmetic; the one-minute margin as a clock value',
    'C01': 'termination of every run, equality of the final state/tasks/'
           'output with the language semantics beyond the decision tables '
           '(join counts above 3, graph shapes)',
    'C04': 'join cardinalities above the evaluated domain (0..3), '
           'overlapping transactions, reverse-workflow phantom reads',
}


def main():
    with open(os.path.join(HERE, 'properties.jsonl')) as fh:
        props = [json.loads(x) for x in fh if x.strip()]
    checks, na = [], []
    for p in props:
        pid = p['id']
        mod = os.path.join(HERE, 'mstatic', 'rules', pid.lower() + '.py')
        decided, undecided, technique = P[pid]
        if pid in X3:
            decided += '; ' + X3[pid][0]
            if X3[pid][1]:
                technique += ' + ' + X3[pid][1]
        if pid in X67:
            decided += '; ' + X67[pid]
        undecided = NOT3.get(pid, undecided)
        n_re = len([t for t in effects.TABLE if pid in t[0]])
        n_ra = len([t for t in args.TABLE if pid in t[0]])
        if n_re:
            technique += (' + exact enabling conditions of %d required '
                          'effects (guard-atom whitelist, rules/effects.py)'
                          % n_re)
            decided += ('; the %d effects this property depends on '
                        '(wake-ups, hand-offs, continuations, recursions, '
                        're-arms) are not conditioned on any non-state fact '
                        'beyond their listed enabling facts, and are '
                        'reached for every state the property needs '
                        '(coverage sets of the state-domain evaluator)'
                        % n_re)
        if n_ra:
            technique += (' + explicit-argument table (%d call sites, '
                          'rules/args.py)' % n_ra)
            decided += ('; %d optional arguments whose default would break '
                        'the property are still passed at their call sites'
                        % n_ra)
        if os.path.exists(mod):
            checks.append({
                'property_id': pid,
                'quick_cmd': './check %s quick' % pid,
                'thorough_cmd': './check %s thorough' % pid,
                'evidence_file': 'evidence/%s.json' % pid,
                'replay_cmd_template': './check %s --replay {path}' % pid,
                'engine': 'mstatic',
                'technique': 'static analysis: ' + technique,
                'level_claimed': {
                    'category': 'other',
                    'text': ('Static necessary-condition check on the '
                             'current source of /repo (ast + CFG + call '
                             'graph, nothing executed). Decides, for all '
                             'inputs/schedules at once because the argument '
                             'is about code shape: ' + decided + '. A pass '
                             'means these mechanisms are structurally intact '
                             'and agree with each other; it does not mean '
                             'the behaviour was observed.'),
                    'design_ref': 'DESIGN.md section 4 (%s), section 5' % pid,
                },
                'level_note': ('NOT decided by this technique: ' + undecided +
                               '. Trusted base: CPython ast, the mstatic '
                               'resolver/CFG/dominator/state-domain code '
                               '(receiver types are inferred, no type '
                               'checker is available offline), library '
                               'semantics taken from reading. Thorough tier '
                               'adds the mutant self-test of the rules.'),
            })
        else:
            na.append({'property_id': pid,
                       'reason': 'check under construction: static rules '
                                 'are designed in DESIGN.md section 4 but '
                                 'not built yet'})
    m = {
        'version': 1,
        'setup_cmd': 'true',
        'hooks': {
            'guard': 'MISTRAL_VERIF',
            'enable': 'no hooks: the checks parse /repo\'s working tree '
                      'with ast and execute nothing',
            'baseline_off_cmd': 'cd /repo && /venv/bin/python -m pytest -ra '
                                '-q -p no:cacheprovider --timeout=900 '
                                '--continue-on-collection-errors',
            'source_commits': [],
            'add_only': True,
        },
        'engines': [{
            'name': 'mstatic', 'path': 'mstatic',
            'serves_properties': [c['property_id'] for c in checks],
            'kind_free_text': 'repository-specific static analyser: ast '
            'loader + constant folding, resolver and call graph with '
            'asynchronous hop edges (post-commit queue, scheduler jobs, '
            'RPC, threads), per-function CFG with dominators, finite '
            'state-domain abstract interpreter folded from '
            'workflow/states.py (states, booleans, small integers), '
            'decision-table evaluation, query-shape and alias analyses; '
            'functions are alpha-normalised against a reference spelling '
            '(mstatic/localnames.json) before any rule runs, so a renamed '
            'local, a test value given a name or a mirrored == is not '
            'reported',
        }],
        'checks': checks,
        'notes': 'Static analysis only (see DESIGN.md). Exit 0 = all rule '
                 'instances discharged (KNOWN-FINDING lines for entries of '
                 'known_findings.json), exit 1 + VIOLATION line = new '
                 'violation, exit 2 + ANALYSIS-ERROR = anchor lost / floor '
                 'not met / internal error. Each property claims the '
                 'structural necessary conditions listed in its level text; '
                 'what is not decided is in DESIGN.md section 5. Known '
                 'findings: F5, F6, F9, F18, F22 (known_findings.json).',
        'not_applicable': na,
    }
    with open(os.path.join(HERE, 'MANIFEST.json'), 'w') as fh:
        json.dump(m, fh, indent=1)
    print('checks: %d, not_applicable: %d' % (len(checks), len(na)))


if __name__ == '__main__':
    main()
