#!/usr/bin/env python3
"""Evaluate properties on an in-memory overlay of /repo with a unified diff
applied (nothing is written to /repo).

  /venv/bin/python tools/try_patch.py <patch.diff> [C07,C15 | all]
"""
import multiprocessing
import os
import sys

HERE = os.path.dirname(os.path.dirname(os.path.abspath(__file__)))
sys.path.insert(0, HERE)

from mstatic import selftest  # noqa: E402
from mstatic.cli import PROPS  # noqa: E402

REPO = os.environ.get('MSTATIC_REPO', '/repo')


def work(job):
    prop, ov = job
    try:
        base = selftest._violations(prop, REPO, None)
        got = selftest._violations(prop, REPO, ov)
    except Exception as e:
        return prop, [('CRASH', repr(e)[:200])]
    return prop, sorted(got - base)


def main():
    patch = sys.argv[1]
    props = PROPS
    if len(sys.argv) > 2 and sys.argv[2] != 'all':
        props = sys.argv[2].split(',')
    with open(patch) as fh:
        ov = selftest.apply_unified_diff(
            lambda p: selftest._read(REPO, p), fh.read())
    if ov is None:
        print('patch does not apply')
        return 2
    with multiprocessing.Pool(min(16, len(props))) as pool:
        res = pool.map(work, [(p, ov) for p in props], chunksize=1)
    hit = False
    for prop, new in res:
        for rule, cons in new:
            hit = True
            print('%s.%s  %s' % (prop, rule, cons))
    if not hit:
        print('MISSED (no new violation in %s)' % ','.join(props))
    return 0


if __name__ == '__main__':
    sys.exit(main())
