#!/usr/bin/env python3
"""Mechanical mutation sweep of the checker (not part of any registered
check): for every function that some rule anchors on, generate small AST
mutants (guard deleted / negated, call statement removed, comparison
flipped, state constant replaced) and evaluate the properties whose rules
mention that function on an in-memory overlay.  Prints kill rate per
property and the survivors (candidates for new rules or equivalent mutants).

  /venv/bin/python tools/sweep.py [--props C03,C07] [--limit N] [--out FILE]
                              [--match substr,substr] [--union]
"""
import ast
import collections
import copy
import json
import multiprocessing
import os
import sys
import time

HERE = os.path.dirname(os.path.dirname(os.path.abspath(__file__)))
sys.path.insert(0, HERE)

from mstatic import report, selftest  # noqa: E402
from mstatic.cli import PROPS  # noqa: E402

REPO = os.environ.get('MSTATIC_REPO', '/repo')
STATES = ['IDLE', 'WAITING', 'RUNNING', 'RUNNING_DELAYED', 'PAUSED',
          'SUCCESS', 'CANCELLED', 'ERROR', 'SKIPPED']


def anchors(prop):
    """{function qname} mentioned by the rule instances of a property."""
    import importlib
    ctx = report.Ctx(prop, 'quick', REPO)
    from mstatic import rules
    rules.run(ctx)
    out = set()
    for r in ctx.rules:
        for (cons, verdict, note) in r.instances:
            q = cons.split(' :: ')[0]
            if q in ctx.prog.funcs:
                out.add(q)
            elif q.rsplit('.', 1)[0] in ctx.prog.funcs:
                out.add(q.rsplit('.', 1)[0])
    return ctx.prog, out


# a "nearby" predicate: looks plausible, differs on some states
PRED_SWAP = {
    'is_completed': 'is_paused_or_completed',
    'is_paused_or_completed': 'is_completed',
    'is_running': 'is_idle',
    'is_paused': 'is_paused_or_idle',
    'is_paused_or_idle': 'is_paused',
    'is_cancelled': 'is_cancelled_or_skipped',
    'is_cancelled_or_skipped': 'is_cancelled',
    'is_skipped': 'is_cancelled_or_skipped',
    'is_waiting': 'is_idle',
    'is_idle': 'is_waiting',
}
# `x == states.S` -> a predicate that holds for S and for more
EQ_TO_PRED = {
    'RUNNING': 'is_running',          # also DELAYED
    'PAUSED': 'is_paused_or_idle',
    'IDLE': 'is_paused_or_idle',
    'CANCELLED': 'is_cancelled_or_skipped',
    'SKIPPED': 'is_cancelled_or_skipped',
    'SUCCESS': 'is_completed',
    'ERROR': 'is_completed',
    'WAITING': 'is_waiting',
}


class Mut(ast.NodeTransformer):
    """Applies mutation number `target` (in traversal order) of kind
    `kind` inside one function."""

    def __init__(self, kind, target):
        self.kind = kind
        self.target = target
        self.count = 0
        self.desc = None

    def _hit(self):
        self.count += 1
        return self.count - 1 == self.target

    def visit_If(self, node):
        self.generic_visit(node)
        if self.kind == 'p-swap-else' and node.orelse and self._hit():
            # behaviour-preserving: negate the test, swap the branches
            self.desc = 'PRESERVING swap branches: if %s' % \
                ast.unparse(node.test)[:50]
            node.test = ast.UnaryOp(op=ast.Not(), operand=node.test)
            node.body, node.orelse = node.orelse, node.body
            return node
        if self.kind == 'p-hoist-test' and self._hit():
            # behaviour-preserving: name the value of the test first
            self.desc = 'PRESERVING hoist test: if %s' % \
                ast.unparse(node.test)[:50]
            tmp = 'test_value_%d' % self.count
            asg = ast.Assign(targets=[ast.Name(id=tmp, ctx=ast.Store())],
                             value=node.test)
            node.test = ast.Name(id=tmp, ctx=ast.Load())
            return [asg, node]
        if self.kind == 'narrow' and self._hit():
            # the code guarded by this `if` is reached in fewer situations
            exits = node.body and isinstance(
                node.body[-1], (ast.Return, ast.Raise, ast.Continue,
                                ast.Break)) and not node.orelse
            extra = ast.Name(id='narrowing_flag', ctx=ast.Load())
            self.desc = 'narrow: if %s %s narrowing_flag' % (
                ast.unparse(node.test)[:50], 'or' if exits else 'and')
            node.test = ast.BoolOp(op=ast.Or() if exits else ast.And(),
                                   values=[node.test, extra])
            return node
        if self.kind == 'widen' and self._hit():
            # the code guarded by this `if` is reached in MORE situations
            # (a check is skipped / a branch is taken without its reason)
            exits = node.body and isinstance(
                node.body[-1], (ast.Return, ast.Raise, ast.Continue,
                                ast.Break)) and not node.orelse
            extra = ast.Name(id='widening_flag', ctx=ast.Load())
            self.desc = 'widen: if %s %s widening_flag' % (
                ast.unparse(node.test)[:50], 'and' if exits else 'or')
            node.test = ast.BoolOp(op=ast.And() if exits else ast.Or(),
                                   values=[node.test, extra])
            return node
        if self.kind == 'negate-if' and self._hit():
            self.desc = 'negate: if %s' % ast.unparse(node.test)[:60]
            node.test = ast.UnaryOp(op=ast.Not(), operand=node.test)
            return node
        if self.kind == 'drop-guard' and node.body and isinstance(
                node.body[-1], (ast.Return, ast.Raise, ast.Continue,
                                ast.Break)) and not node.orelse:
            if self._hit():
                self.desc = 'drop guard: if %s' % ast.unparse(node.test)[:60]
                return ast.Pass()
        return node

    def visit_Expr(self, node):
        self.generic_visit(node)
        if self.kind == 'drop-call' and isinstance(node.value, ast.Call):
            fn = ast.unparse(node.value.func)
            if fn.split('.')[0] in ('LOG', 'wf_trace') or fn == 'print':
                return node
            if self._hit():
                self.desc = 'drop call: %s' % ast.unparse(node.value)[:60]
                return ast.Pass()
        return node

    def visit_Compare(self, node):
        self.generic_visit(node)
        if self.kind == 'p-mirror-eq' and len(node.ops) == 1 and \
                isinstance(node.ops[0], (ast.Eq, ast.NotEq)) and \
                not any(isinstance(x, (ast.Call, ast.Await))
                        for x in ast.walk(node)):
            if self._hit():
                self.desc = 'PRESERVING mirror: %s' % ast.unparse(node)[:50]
                node.left, node.comparators = node.comparators[0], \
                    [node.left]
            return node
        if self.kind == 'swap-pred' and len(node.ops) == 1 and \
                isinstance(node.ops[0], (ast.Eq, ast.NotEq)) and \
                isinstance(node.comparators[0], ast.Attribute) and \
                isinstance(node.comparators[0].value, ast.Name) and \
                node.comparators[0].value.id == 'states' and \
                node.comparators[0].attr in EQ_TO_PRED:
            if self._hit():
                pred = EQ_TO_PRED[node.comparators[0].attr]
                self.desc = '%s -> states.%s(...)' % (
                    ast.unparse(node)[:50], pred)
                call = ast.Call(
                    func=ast.Attribute(value=ast.Name(id='states',
                                                      ctx=ast.Load()),
                                       attr=pred, ctx=ast.Load()),
                    args=[node.left], keywords=[])
                if isinstance(node.ops[0], ast.NotEq):
                    return ast.UnaryOp(op=ast.Not(), operand=call)
                return call
        if self.kind == 'flip-compare' and len(node.ops) == 1:
            flip = {ast.Eq: ast.NotEq, ast.NotEq: ast.Eq, ast.Lt: ast.GtE,
                    ast.GtE: ast.Lt, ast.Gt: ast.LtE, ast.LtE: ast.Gt,
                    ast.In: ast.NotIn, ast.NotIn: ast.In, ast.Is: ast.IsNot,
                    ast.IsNot: ast.Is}
            t = type(node.ops[0])
            if t in flip and self._hit():
                self.desc = 'flip: %s' % ast.unparse(node)[:60]
                node.ops = [flip[t]()]
        return node

    def visit_Call(self, node):
        self.generic_visit(node)
        if self.kind == 'swap-pred' and isinstance(node.func, ast.Attribute) \
                and isinstance(node.func.value, ast.Name) and \
                node.func.value.id == 'states' and node.func.attr in PRED_SWAP:
            if self._hit():
                new = PRED_SWAP[node.func.attr]
                self.desc = 'states.%s -> states.%s' % (node.func.attr, new)
                node.func.attr = new
        return node

    def visit_Attribute(self, node):
        self.generic_visit(node)
        if self.kind == 'swap-state' and isinstance(node.value, ast.Name) \
                and node.value.id == 'states' and node.attr in STATES:
            if self._hit():
                new = STATES[(STATES.index(node.attr) + 3) % len(STATES)]
                self.desc = 'states.%s -> states.%s' % (node.attr, new)
                node.attr = new
        return node


KINDS = ('drop-guard', 'negate-if', 'drop-call', 'flip-compare',
         'swap-state', 'swap-pred', 'narrow', 'widen')


def mutants_of(prog, q):
    f = prog.funcs[q]
    if f.parent is not None:
        return
    path = prog.paths[f.module]
    src = prog.sources[f.module]
    lines = src.split('\n')
    start = f.node.lineno - 1
    if f.node.decorator_list:
        start = min(d.lineno for d in f.node.decorator_list) - 1
    end = f.node.end_lineno
    seg = '\n'.join(lines[start:end])
    indent = len(lines[start]) - len(lines[start].lstrip())
    import textwrap
    ded = textwrap.dedent(seg)
    try:
        tree = ast.parse(ded)
    except SyntaxError:
        return
    if 'p-rename-local' in KINDS:
        fn = tree.body[0]
        params = {a.arg for a in ast.walk(fn) if isinstance(a, ast.arg)}
        declared = set()
        for x in ast.walk(fn):
            if isinstance(x, (ast.Global, ast.Nonlocal)):
                declared |= set(x.names)
        allnames = {x.id for x in ast.walk(fn) if isinstance(x, ast.Name)}
        locs = []
        for x in ast.walk(fn):
            if isinstance(x, ast.Name) and isinstance(x.ctx, ast.Store) \
                    and x.id not in params and x.id not in declared and \
                    x.id not in locs and not x.id.startswith('_'):
                locs.append(x.id)
        for i, name in enumerate(locs):
            new = name + '_renamed'
            if new in allnames:
                continue
            t = copy.deepcopy(tree)
            for x in ast.walk(t):
                if isinstance(x, ast.Name) and x.id == name:
                    x.id = new
            new_seg = textwrap.indent(ast.unparse(t), ' ' * indent)
            new_src = '\n'.join(lines[:start] + [new_seg] + lines[end:])
            yield (path, new_src, '%s [p-rename-local #%d] PRESERVING rename '
                   '%s -> %s' % (q, i, name, new))
    if 'p-extract-arg' in KINDS:
        # "introduce explaining variable": the first call-valued argument of
        # a call statement / assignment / return gets a name first
        k = 0
        cands = []
        for x in ast.walk(tree):
            for fld in ('body', 'orelse', 'finalbody'):
                seq = getattr(x, fld, None)
                if isinstance(seq, list) and seq and \
                        isinstance(seq[0], ast.stmt):
                    for i, st in enumerate(seq):
                        v = getattr(st, 'value', None)
                        if isinstance(st, (ast.Expr, ast.Assign,
                                           ast.Return)) and \
                                isinstance(v, ast.Call):
                            for ai, a in enumerate(v.args):
                                if isinstance(a, ast.Call) and all(
                                        not any(isinstance(y, ast.Call)
                                                for y in ast.walk(b))
                                        for b in v.args[:ai]) and not any(
                                        isinstance(y, ast.Call)
                                        for y in ast.walk(v.func)):
                                    cands.append((x, fld, i, ai))
                                    break
        for (bn, fld, i, ai) in cands[:8]:
            idx = [id(y) for y in ast.walk(tree)].index(id(bn))
            t = copy.deepcopy(tree)
            tb = list(ast.walk(t))[idx]
            seq = getattr(tb, fld)
            st = seq[i]
            name = 'extracted_value_%d' % k
            asg = ast.Assign(targets=[ast.Name(id=name, ctx=ast.Store())],
                             value=st.value.args[ai])
            st.value.args[ai] = ast.Name(id=name, ctx=ast.Load())
            seq.insert(i, asg)
            ast.fix_missing_locations(t)
            new_seg = textwrap.indent(ast.unparse(t), ' ' * indent)
            new_src = '\n'.join(lines[:start] + [new_seg] + lines[end:])
            yield (path, new_src, '%s [p-extract-arg #%d] PRESERVING '
                   'argument named first: %s' % (
                       q, k, ast.unparse(asg.value)[:50]))
            k += 1
    if 'p-add-log' in KINDS:
        # a logging statement added before the i-th statement of a block
        def blocks(n):
            for fld in ('body', 'orelse', 'finalbody'):
                seq = getattr(n, fld, None)
                if isinstance(seq, list) and seq and \
                        isinstance(seq[0], ast.stmt):
                    yield seq
            for h in getattr(n, 'handlers', []) or []:
                yield h.body
        k = 0
        base_nodes = [x for x in ast.walk(tree)
                      if not isinstance(x, ast.Module)]
        for bi, bn in enumerate(base_nodes):
            for si, seq in enumerate(list(blocks(bn))):
                for pos in range(len(seq) + 1):
                    if pos == 0 and isinstance(seq[0], ast.Expr) and \
                            isinstance(seq[0].value, ast.Constant):
                        continue   # not before a docstring
                    t = copy.deepcopy(tree)
                    tn = [x for x in ast.walk(t)
                          if not isinstance(x, ast.Module)][bi]
                    tseq = list(blocks(tn))[si]
                    log = ast.parse("LOG.debug('checkpoint %d')" % k).body[0]
                    tseq.insert(pos, log)
                    ast.fix_missing_locations(t)
                    new_seg = textwrap.indent(ast.unparse(t), ' ' * indent)
                    new_src = '\n'.join(lines[:start] + [new_seg] +
                                        lines[end:])
                    yield (path, new_src, '%s [p-add-log #%d] PRESERVING log '
                           'statement added (block %d/%d, position %d)'
                           % (q, k, bi, si, pos))
                    k += 1
                    if k >= 4:
                        break
                if k >= 4:
                    break
            if k >= 4:
                break
    for kind in KINDS:
        if kind in ('p-rename-local', 'p-add-log', 'p-extract-arg'):
            continue
        i = 0
        while True:
            t = copy.deepcopy(tree)
            m = Mut(kind, i)
            t = m.visit(t)
            if m.desc is None:
                break
            ast.fix_missing_locations(t)
            try:
                new_seg = ast.unparse(t)
            except Exception:
                i += 1
                continue
            new_seg = textwrap.indent(new_seg, ' ' * indent)
            new_src = '\n'.join(lines[:start] + [new_seg] + lines[end:])
            yield (path, new_src, '%s [%s #%d] %s' % (q, kind, i, m.desc))
            i += 1


def work(job):
    prop, path, src, desc, base = job
    try:
        ast.parse(src)
    except SyntaxError:
        return prop, desc, 'unparsable', []
    try:
        got = selftest._violations(prop, REPO, {path: src})
    except Exception as e:
        return prop, desc, 'crash', [repr(e)[:100]]
    new = sorted(got - base)
    return prop, desc, 'killed' if new else 'survived', new[:2]


def work_union(job):
    props, path, src, desc, bases = job
    try:
        ast.parse(src)
    except SyntaxError:
        return desc, 'unparsable', []
    hits = []
    for prop in props:
        try:
            got = selftest._violations(prop, REPO, {path: src})
        except Exception as e:
            hits.append('%s.CRASH %r' % (prop, e))
            continue
        for rule, cons in sorted(got - bases[prop])[:1]:
            hits.append('%s.%s' % (prop, rule))
    return desc, 'killed' if hits else 'survived', hits


def main_union(props, only, out, force=()):
    """Every mutant of a function anchored by ANY property is evaluated
    against every property that anchors a function of the same module."""
    t0 = time.time()
    with multiprocessing.Pool(16) as pool:
        anc = pool.map(anchors_names, props)
        bases = dict(zip(props, pool.starmap(
            selftest._violations, [(p, REPO, None) for p in props])))
    from mstatic.core import Program
    prog = Program(REPO)
    by_mod = collections.defaultdict(set)
    allq = set()
    for p, qs in zip(props, anc):
        for q in qs:
            if q in prog.funcs:
                by_mod[prog.funcs[q].module].add(p)
                allq.add(q)
    jobs = []
    for q in force:
        # functions no rule is anchored in: evaluated against every property
        hit = [x for x in prog.funcs if x == q or x.endswith('.' + q)]
        for x in hit:
            allq.add(x)
            by_mod[prog.funcs[x].module] |= set(props)
    for q in sorted(allq):
        if only and not any(o in q for o in only):
            continue
        ps = sorted(by_mod[prog.funcs[q].module])
        for (path, src, desc) in mutants_of(prog, q):
            jobs.append((ps, path, src, desc, bases))
    print('union sweep: %d mutants of %d functions' % (len(jobs), len(allq)),
          flush=True)
    with multiprocessing.Pool(16) as pool:
        res = pool.map(work_union, jobs, chunksize=2)
    killed = [r for r in res if r[1] == 'killed']
    surv = [r for r in res if r[1] != 'killed']
    print('TOTAL: %d mutants, %d killed (%.0f%%), %.0fs' % (
        len(res), len(killed), 100.0 * len(killed) / max(len(res), 1),
        time.time() - t0))
    if out:
        with open(out, 'w') as fh:
            json.dump({'survived': [(d, v) for d, v, h in surv],
                       'killed': [(d, h) for d, v, h in killed]}, fh,
                      indent=1)
        print('written to', out)
    else:
        for d, v, h in surv:
            print(' ', v, d)


def main():
    args = sys.argv[1:]
    props = PROPS
    limit = None
    out = None
    if '--props' in args:
        props = args[args.index('--props') + 1].split(',')
    if '--limit' in args:
        limit = int(args[args.index('--limit') + 1])
    if '--out' in args:
        out = args[args.index('--out') + 1]
    global KINDS
    if '--kinds' in args:
        KINDS = tuple(args[args.index('--kinds') + 1].split(','))
    only = None
    if '--match' in args:
        only = args[args.index('--match') + 1].split(',')
    if '--union' in args:
        force = ()
        if '--force' in args:
            force = args[args.index('--force') + 1].split(',')
            only = (only or []) + list(force)
        return main_union(props, only, out, force)
    t0 = time.time()
    jobs = []
    with multiprocessing.Pool(16) as pool:
        anc = pool.map(anchors_names, props)
        bases = dict(zip(props, pool.starmap(
            selftest._violations, [(p, REPO, None) for p in props])))
    from mstatic.core import Program
    prog = Program(REPO)
    for p, qs in zip(props, anc):
        n = 0
        for q in sorted(qs):
            if q not in prog.funcs:
                continue
            if only and not any(o in q for o in only):
                continue
            for (path, src, desc) in mutants_of(prog, q):
                jobs.append((p, path, src, desc, bases[p]))
                n += 1
                if limit and n >= limit:
                    break
            if limit and n >= limit:
                break
    print('generated %d mutant evaluations for %d properties in %.1fs'
          % (len(jobs), len(props), time.time() - t0), flush=True)
    with multiprocessing.Pool(16) as pool:
        res = pool.map(work, jobs, chunksize=4)
    stat = collections.defaultdict(collections.Counter)
    surv = collections.defaultdict(list)
    for prop, desc, verdict, info in res:
        stat[prop][verdict] += 1
        if verdict != 'killed':
            surv[prop].append((verdict, desc))
    tot = collections.Counter()
    for p in props:
        c = stat[p]
        tot.update(c)
        n = sum(c.values())
        print('%s: %d mutants, %d killed (%.0f%%), %d survived, %d other'
              % (p, n, c['killed'], 100.0 * c['killed'] / max(n, 1),
                 c['survived'], n - c['killed'] - c['survived']))
    n = sum(tot.values())
    print('TOTAL: %d mutants, %d killed (%.0f%%), %.0fs'
          % (n, tot['killed'], 100.0 * tot['killed'] / max(n, 1),
             time.time() - t0))
    if only:
        for p in props:
            for v, d in surv[p]:
                print(' ', v, d)
    if out:
        with open(out, 'w') as fh:
            json.dump({p: surv[p] for p in props}, fh, indent=1)
        print('survivors written to', out)


def anchors_names(prop):
    _prog, out = anchors(prop)
    return sorted(out)


if __name__ == '__main__':
    main()
