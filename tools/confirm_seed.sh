#!/bin/bash
# usage: confirm_seed.sh <outdir> <n> <seed-id>
# Confirms a seeded change in a scratch worktree of /repo HEAD:
#  demo passes without patch, fails with patch; existing tests named in
#  meta pass with the patch.  Stores it under /verif/seeded/<seed-id>/.
set -u
OUT=$1; N=$2; ID=$3
WT=/tmp/cs_$ID
git -C /repo worktree remove --force $WT 2>/dev/null
git -C /repo worktree add -q $WT HEAD || exit 2
mkdir -p $WT/mistral/tests/unit/seeded && touch $WT/mistral/tests/unit/seeded/__init__.py
cp $OUT/test_demo$N.py $WT/mistral/tests/unit/seeded/test_demo$N.py
cd $WT
python3 /verif/tools/pytest_kill.py /tmp/cs_${ID}_clean.log 900 -q -p no:cacheprovider mistral/tests/unit/seeded/test_demo$N.py
CLEAN=$(tail -1 /tmp/cs_${ID}_clean.log)
git apply $OUT/patch$N.diff || { echo "PATCH DOES NOT APPLY"; exit 3; }
python3 /verif/tools/pytest_kill.py /tmp/cs_${ID}_patched.log 900 -q -p no:cacheprovider mistral/tests/unit/seeded/test_demo$N.py
PATCHED=$(tail -1 /tmp/cs_${ID}_patched.log)
TESTS=$(python3 - <<PY
import json,re
m=json.load(open('$OUT/meta$N.json'))
txt=json.dumps(m)
paths=sorted(set(re.findall(r'mistral/tests/unit/[\w/]+\.py', txt)))
paths=[p for p in paths if 'seeded' not in p]
dirs=sorted(set(re.findall(r'mistral/tests/unit/(?:api|utils|actions|workflow|lang|services|db|executors|rpc|scheduler|policies)(?=[\s"\'\\,;]|$)', txt)))
paths = paths[:8] + [d for d in dirs if not any(p.startswith(d) for p in paths)][:3]
# a module that imports cleanly must be collected first (some modules hit a
# circular import when collected first, on the unmodified tree as well)
print(' '.join(['mistral/tests/unit/engine/test_noop_task.py'] + paths) if paths else '')
PY
)
EXIST="(none named)"
if [ -n "$TESTS" ]; then
  python3 /verif/tools/pytest_kill.py /tmp/cs_${ID}_exist.log 2400 -q -p no:cacheprovider --timeout=600 $TESTS
  EXIST=$(tail -1 /tmp/cs_${ID}_exist.log)
fi
/venv/bin/python -m compileall -q $(git diff --name-only | grep '\.py$') > /dev/null 2>&1; COMP=$?
echo "SEED $ID clean: $CLEAN"
echo "SEED $ID patched: $PATCHED"
echo "SEED $ID existing [$TESTS]: $EXIST"
echo "SEED $ID compile rc=$COMP"
cd /verif
mkdir -p /verif/seeded/$ID
cp $OUT/patch$N.diff /verif/seeded/$ID/patch.diff
cp $OUT/test_demo$N.py /verif/seeded/$ID/test_demo.py
python3 - <<PY
import json
m=json.load(open('$OUT/meta$N.json'))
m['confirmed']={'demo_clean':"""$CLEAN""",'demo_patched':"""$PATCHED""",'existing_tests':"""$TESTS""",'existing_result':"""$EXIST""",'compile_rc':$COMP,
 'ran':'tools/confirm_seed.sh in scratch worktree of /repo HEAD'}
json.dump(m,open('/verif/seeded/$ID/meta.json','w'),indent=1)
PY
git -C /repo worktree remove --force $WT
