#!/usr/bin/env python3
"""Copy seeded/MATRIX.md (written by tools/seed_matrix.py) into DESIGN.md
between the seed-matrix markers of Appendix C."""
import os
HERE = os.path.dirname(os.path.dirname(os.path.abspath(__file__)))
m = open(os.path.join(HERE, 'seeded', 'MATRIX.md')).read().split('\n')
rows = [l for l in m if l.startswith('|')]
p = os.path.join(HERE, 'DESIGN.md')
s = open(p).read()
a = s.index('<!-- seed-matrix-begin -->') + len('<!-- seed-matrix-begin -->')
b = s.index('<!-- seed-matrix-end -->')
s = s[:a] + '\n' + '\n'.join(rows) + '\n' + s[b:]
open(p, 'w').write(s)
print('%d rows' % (len(rows) - 2))
