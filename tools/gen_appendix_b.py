#!/usr/bin/env python3
"""Regenerate Appendix B of DESIGN.md (rules as built) from the evidence
files of the last run of every check."""
import json
import os
import re

HERE = os.path.dirname(os.path.dirname(os.path.abspath(__file__)))


def main():
    rows = []
    total_r = total_i = 0
    for i in range(1, 21):
        pid = 'C%02d' % i
        with open(os.path.join(HERE, 'evidence', pid + '.json')) as fh:
            ev = json.load(fh)
        for r in ev['coverage']['rules']:
            rows.append('| %s.%s | %s | %s | %d |' % (
                pid, r['id'], r['template'], r['title'].replace('|', '/'),
                r['instances']))
            total_r += 1
            total_i += r['instances']
    table = ['| rule | template | statement | instances |',
             '|---|---|---|---|'] + rows + [
        '', 'Total: %d rules, %d rule instances.' % (total_r, total_i)]
    p = os.path.join(HERE, 'DESIGN.md')
    s = open(p).read()
    a = s.index('## Appendix B')
    b = s.index('## Appendix C')
    head = s[a:].split('\n', 1)[0]
    s = s[:a] + head + '\n\n' + '\n'.join(table) + '\n\n' + s[b:]
    open(p, 'w').write(s)
    print('%d rules, %d instances' % (total_r, total_i))


if __name__ == '__main__':
    main()
