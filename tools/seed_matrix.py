#!/usr/bin/env python3
"""For every seeded change under /verif/seeded/<id>/ evaluate ALL twenty
properties on an in-memory overlay of /repo with the patch applied, record
which rules report a new violation (`caught_by` in meta.json) and print the
matrix (also written to /verif/seeded/MATRIX.md).

Run with /venv/bin/python from /verif:  python tools/seed_matrix.py
"""
import json
import multiprocessing
import os
import sys

HERE = os.path.dirname(os.path.dirname(os.path.abspath(__file__)))
sys.path.insert(0, HERE)

from mstatic import selftest  # noqa: E402
from mstatic.cli import PROPS  # noqa: E402

REPO = os.environ.get('MSTATIC_REPO', '/repo')


def work(job):
    sid, prop, overlay, base = job
    try:
        got = selftest._violations(prop, REPO, overlay)
    except Exception as e:
        return sid, prop, [('CRASH', repr(e)[:100])]
    return sid, prop, sorted(got - base)


def main():
    sdir = os.path.join(HERE, 'seeded')
    seeds = sorted(d for d in os.listdir(sdir)
                   if os.path.exists(os.path.join(sdir, d, 'patch.diff')))
    all_seeds = list(seeds)
    if '--new' in sys.argv:
        # only seeds that have no verdict yet; the others keep theirs
        def has(d):
            mf = os.path.join(sdir, d, 'meta.json')
            try:
                return bool(json.load(open(mf)).get('caught_by'))
            except Exception:
                return False
        seeds = [d for d in seeds if not has(d)]
    with multiprocessing.Pool(16) as pool:
        bases = dict(zip(PROPS, pool.starmap(
            selftest._violations, [(p, REPO, None) for p in PROPS])))
        jobs = []
        skipped = []
        for sid in seeds:
            with open(os.path.join(sdir, sid, 'patch.diff')) as fh:
                ov = selftest.apply_unified_diff(
                    lambda p: selftest._read(REPO, p), fh.read())
            if ov is None:
                skipped.append(sid)
                continue
            for p in PROPS:
                jobs.append((sid, p, ov, bases[p]))
        res = pool.map(work, jobs, chunksize=1)
    by = {}
    for sid, prop, new in res:
        for rule, cons in new:
            by.setdefault(sid, []).append('%s.%s' % (prop, rule))
    lines = ['# Seeded changes x checks', '',
             '| seeded change | property | reported by |', '|---|---|---|']
    for sid in all_seeds:
        mf = os.path.join(sdir, sid, 'meta.json')
        meta = json.load(open(mf)) if os.path.exists(mf) else {}
        if sid in seeds:
            caught = sorted(set(by.get(sid, [])))
            meta['caught_by'] = caught
            with open(mf, 'w') as fh:
                json.dump(meta, fh, indent=1)
        else:
            caught = meta.get('caught_by', [])
        lines.append('| %s | %s | %s |' % (
            sid, sid.split('-')[0],
            ', '.join(caught) if caught else '**missed**'))
        print('%-45s %s' % (sid, ', '.join(caught) or 'MISSED'))
    for s in skipped:
        print('%-45s patch does not apply to the current tree' % s)
        lines.append('| %s | | patch does not apply to the current tree |'
                     % s)
    with open(os.path.join(sdir, 'MATRIX.md'), 'w') as fh:
        fh.write('\n'.join(lines) + '\n')


if __name__ == '__main__':
    main()
