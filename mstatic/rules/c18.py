"""C18 - the expiration policy deletes only what it is configured to
delete."""
import ast

from mstatic import qshape
from mstatic.core import AnalysisError, NotConst, dotted, norm, own_nodes
from mstatic.rules import util as U
from mstatic.statedom import OBJ

DB = 'mistral.db.v2.sqlalchemy.api'
EP = 'mistral.services.expiration_policy'
MODELS = 'mistral.db.v2.sqlalchemy.models'


def option_defaults(prog, names):
    """{option: (has_default, default)} for cfg.*Opt('<name>', ...) in
    config.py."""
    tree = prog.module('mistral.config')
    out = {}
    for n in ast.walk(tree):
        if isinstance(n, ast.Call) and n.args and \
                isinstance(n.args[0], ast.Constant) and \
                n.args[0].value in names and \
                (dotted(n.func) or '').startswith('cfg.'):
            d = [k for k in n.keywords if k.arg == 'default']
            if d:
                out[n.args[0].value] = (True, prog.try_const(
                    'mistral.config', d[0].value))
            else:
                out[n.args[0].value] = (False, None)
    return out


def _handler_leaves(h):
    """The exception handler cannot complete normally: its last statement
    raises, or it contains a call that is known to raise with the arguments
    it is given.  `traceback.format_exc(e)` with the caught exception as its
    first argument is such a call (the parameter is `limit`, an int or None:
    TypeError) - that accident is what ends the expiration pass today when a
    deletion fails."""
    if h.body and isinstance(h.body[-1], ast.Raise):
        return True
    for x in ast.walk(h):
        if isinstance(x, ast.Call) and dotted(x.func) in (
                'traceback.format_exc', 'traceback.print_exc') and \
                x.args and isinstance(x.args[0], ast.Name) and \
                h.name and x.args[0].id == h.name:
            return True
    return False


def run(ctx):
    prog, sd = ctx.prog, ctx.sd

    # ---- R1 query shapes ---------------------------------------------------
    r1 = ctx.rule('R1', 'only finished root executions are selected; '
                  'superfluous ones are the oldest beyond the limit',
                  'QSHAPE')
    bq = prog.func(DB + '._get_completed_root_executions_query')
    cfg = ctx.cfg(bq)
    ops, base, rets = qshape.query_ops(cfg, bq.node)
    flt = [o for o in ops if o.name == 'filter' and o.always]
    r1.check(any(U.phas(o.call, '___.task_execution_id == sa.null()') or
                 U.phas(o.call, '___.task_execution_id.is_(None)') or
                 U.phas(o.call, '___.task_execution_id == None')
                 for o in flt),
             ctx.construct(bq, extra='root executions only'),
             'the base query does not filter task_execution_id IS NULL on '
             'every path (sub-executions could be deleted on their own)',
             ctx.loc(bq))
    r1.check(any(U.phas(o.call, '___.state.in_(desired_states)')
                 for o in flt),
             ctx.construct(bq, extra='state filter'),
             'the base query does not filter the state on every path',
             ctx.loc(bq))
    ds = [x for x in own_nodes(bq.node) if isinstance(x, ast.Assign) and
          dotted(x.targets[0]) == 'desired_states']
    okd = len(ds) == 1 and isinstance(ds[0].value, ast.BinOp) and \
        isinstance(ds[0].value.op, ast.Sub) and \
        norm(ds[0].value.left) == 'states.TERMINAL_STATES' and \
        'ignored_states' in norm(ds[0].value.right)
    try:
        term = set(prog.const('mistral.workflow.states', 'TERMINAL_STATES'))
    except NotConst:
        term = set()
    S = sd.consts
    r1.check(okd and term == {S['SUCCESS'], S['ERROR'], S['CANCELLED']},
             ctx.construct(bq, extra='terminal minus ignored'),
             'desired states are not TERMINAL_STATES (SUCCESS/ERROR/'
             'CANCELLED) minus the ignored states', ctx.loc(bq))
    # the ignored states are the configured ones for BOTH criteria: either
    # the base query reads the option itself or every caller hands it over
    OPT = 'CONF.execution_expiration_policy.ignored_states'
    okopt = False
    why = ''
    if ds and isinstance(ds[0].value, ast.BinOp):
        right = U.canon_expr(bq.node, ds[0].value.right)
        if OPT in norm(right, 300):
            okopt = True
        else:
            pars = [p_ for p_ in bq.params if p_ in U.names_in(right)]
            callers = [(f2, c) for f2 in prog.funcs.values()
                       if f2.module == bq.module
                       for c in own_nodes(f2.node)
                       if isinstance(c, ast.Call) and
                       U.call_name(c) == bq.name]
            okopt = bool(pars) and bool(callers)
            for f2, c in callers:
                for p_ in pars:
                    a = U.kwarg(c, p_, bq.params.index(p_))
                    if a is None or OPT not in norm(
                            U.canon_expr(f2.node, a), 300):
                        okopt = False
                        why = '%s does not pass it' % f2.name
    r1.check(okopt, ctx.construct(bq, extra='configured ignored states for '
                                  'every criterion'),
             'the ignored states taken off the terminal states are not the '
             'configured option on every way into the query (%s): one '
             'criterion deletes executions in states the operator asked to '
             'keep' % why, ctx.loc(bq))
    ex = prog.func(DB + '.get_expired_executions')
    cfg = ctx.cfg(ex)
    ops, base, rets = qshape.query_ops(cfg, ex.node)
    r1.check(base is not None and
             '_get_completed_root_executions_query' in norm(base[0]),
             ctx.construct(ex, extra='derives from the base query'),
             'expired executions are not selected from the completed-root '
             'query', ctx.loc(ex))
    r1.check(any(o.name == 'filter' and o.always and
                 isinstance(o.call.args[0], ast.Compare) and
                 isinstance(o.call.args[0].ops[0], (ast.Lt, ast.LtE)) and
                 U.phas(U.inline_locals(ex.node, o.call.args[0].left),
                        '___.WorkflowExecution.updated_at') and
                 isinstance(U.inline_locals(ex.node, o.call.args[0].left),
                            ast.Attribute) and
                 dotted(o.call.args[0].comparators[0]) == 'expiration_time'
                 for o in ops if o.call.args),
             ctx.construct(ex, extra='older than'),
             'no "updated_at < expiration_time" filter on every path',
             ctx.loc(ex))
    su = prog.func(DB + '.get_superfluous_executions')
    cfg = ctx.cfg(su)
    ops, base, rets = qshape.query_ops(cfg, su.node)
    r1.check(base is not None and
             '_get_completed_root_executions_query' in norm(base[0]),
             ctx.construct(su, extra='derives from the base query'),
             'superfluous executions are not selected from the '
             'completed-root query', ctx.loc(su))
    ob = [o for o in ops if o.name == 'order_by' and o.always]
    r1.check(bool(ob) and len(ob[0].call.args) == 1 and U.pfind(
        U.inline_locals(su.node, ob[0].call.args[0]),
        '___.WorkflowExecution.updated_at.desc()') and
        U.call_name(ob[0].call.args[0]) == 'desc',
             ctx.construct(su, extra='newest first'),
             'not ordered by updated_at descending (the newest executions '
             'would be deleted and the oldest kept)', ctx.loc(su))
    off = [o for o in ops if o.name == 'offset' and o.always]
    r1.check(bool(off) and off[0].args_text() == 'max_finished_executions',
             ctx.construct(su, extra='offset'),
             'no offset(max_finished_executions) on every path', ctx.loc(su))
    if ob and off:
        r1.check(ob[0].node.lineno <= off[0].node.lineno,
                 ctx.construct(su, extra='order before offset'),
                 'offset applied before ordering', ctx.loc(su))
    IN, keys = sd.analyze(cfg, su, [('max_finished_executions',
                                     (None, 0, OBJ))])
    for r in rets:
        vals = sd.values_at(IN, keys, r, 'max_finished_executions')
        r1.check(vals == {OBJ}, ctx.construct(su, extra='unset => nothing'),
                 'the query runs although max_finished_executions is unset '
                 '(offset 0 would select everything)', ctx.loc(su))

    # ---- R2 only those ids are deleted ----------------------------------------
    r2 = ctx.rule('R2', 'only executions returned by the two queries are '
                  'deleted; the batch loop ends; ignored states validated',
                  'WMW')
    dl = prog.func(EP + '._delete')
    dc = [n for n in own_nodes(dl.node) if isinstance(n, ast.Call) and
          U.call_name(n) == 'delete_workflow_execution']
    loops = [n for n in own_nodes(dl.node) if isinstance(n, ast.For)]
    r2.check(len(dc) == 1 and norm(dc[0].args[0]) == 'execution.id' and
             bool(loops) and dotted(loops[0].iter) == 'executions' and
             dotted(loops[0].target) == 'execution',
             ctx.construct(dl), '_delete does not delete exactly the ids of '
             'the executions it was given', ctx.loc(dl))
    callers = ctx.cg.callers(EP + '._delete', kinds=('call',))
    r2.check(callers == {EP + '._delete_until_depleted'},
             EP + '._delete :: callers', '_delete called from %s'
             % sorted(callers), ctx.loc(dl))
    du = prog.func(EP + '._delete_until_depleted')
    cfg = ctx.cfg(du)
    brk = [x for x in cfg.nodes if x.kind == 'stmt' and
           isinstance(x.ast, ast.Break)]
    INb, kb = sd.analyze(cfg, du, [('execs', (None, OBJ))])
    okb = bool(brk) and all(
        sd.values_at(INb, kb, b, 'execs') == {None} for b in brk)
    dcall = U.calls_in(cfg, '_delete')
    okb = okb and bool(dcall) and \
        sd.values_at(INb, kb, dcall[0][0], 'execs') == {OBJ}
    r2.check(okb and bool(dcall) and norm(dcall[0][1].args[0]) == 'execs'
             and any(isinstance(x, ast.Assign) and
                     dotted(x.targets[0]) == 'execs' and
                     norm(x.value) == 'fetch_func()'
                     for x in own_nodes(du.node)),
             ctx.construct(du), 'the batch loop does not stop on an empty '
             'fetch / does not delete exactly what was fetched', ctx.loc(du))
    de = prog.func(EP + '._delete_executions')
    lam = [n for n in own_nodes(de.node) if isinstance(n, ast.Lambda)]
    srcs = {U.call_name(n.body) for n in lam
            if isinstance(n.body, ast.Call)}
    r2.check(srcs == {'get_expired_executions',
                      'get_superfluous_executions'},
             ctx.construct(de, extra='sources'),
             'deletion candidates come from %s' % sorted(srcs), ctx.loc(de))
    # progress of the depletion loop: every pass that comes back for more
    # has deleted what it fetched.  A deletion failure that is swallowed
    # leaves the row in place and the same batch is selected for ever.
    swallowed = []
    for t_ in own_nodes(dl.node):
        if not (isinstance(t_, ast.Try) and any(
                x is dc[0] for b in t_.body for x in ast.walk(b)) if dc
                else False):
            continue
        for h in t_.handlers:
            broad = h.type is None or any(
                x in ('Exception', 'BaseException')
                for x in U.handler_types(h))
            if broad and not _handler_leaves(h):
                swallowed.append(h)
    bounded = any(isinstance(x, (ast.For,)) for x in own_nodes(du.node)) or \
        not any(isinstance(x, ast.While) and
                isinstance(x.test, ast.Constant) and x.test.value is True
                for x in own_nodes(du.node))
    r2.check(not swallowed or bounded,
             ctx.construct(dl, extra='a failed deletion ends the pass'),
             'a failure of delete_workflow_execution is swallowed inside the '
             'unbounded "until depleted" loop: the execution stays, the next '
             'pass selects it again and the evaluation never terminates',
             ctx.loc(dl, swallowed[0] if swallowed else None))
    ck = prog.func(EP + '._check_ignored_states_config')
    kcfg = ctx.cfg(ck)
    okk = False
    # the value that is validated is the configured string itself - the
    # candidate query subtracts exactly these strings from the terminal
    # states, so a normalised spelling (upper(), strip()) that passes here
    # is an entry that silently does nothing there
    kloops = [x for x in own_nodes(ck.node) if isinstance(x, ast.For) and
              isinstance(x.target, ast.Name) and 'ignored_states' in norm(
                  U.canon_expr(ck.node, x.iter), 200)]
    for x in kcfg.nodes:
        if x.kind == 'stmt' and isinstance(x.ast, ast.Raise):
            okk = okk or any(U.guarded(
                kcfg, x, '%s in states.TERMINAL_STATES' % lp.target.id, False)
                for lp in kloops)
    r2.check(okk,
             ctx.construct(ck), 'non-terminal ignored states are not '
             'rejected', ctx.loc(ck))
    st = prog.func(EP + '.setup')
    r2.check(any(isinstance(n, ast.Call) and
                 U.call_name(n) == '_check_ignored_states_config'
                 for n in own_nodes(st.node)), ctx.construct(st),
             'ignored states are not validated at setup', ctx.loc(st))

    # ---- R3 cascade ----------------------------------------------------------------
    r3 = ctx.rule('R3', 'sub-executions, tasks and actions go with their '
                  'root through ON DELETE CASCADE', 'schema')
    tree = prog.module(MODELS)
    containment = {'TaskExecution.workflow_execution_id',
                   'ActionExecution.task_execution_id',
                   'WorkflowExecution.task_execution_id'}
    seen = set()
    for n in tree.body:
        if isinstance(n, ast.Assign) and len(n.targets) == 1 and \
                dotted(n.targets[0]) in containment:
            col = dotted(n.targets[0])
            seen.add(col)
            fks = [x for x in ast.walk(n.value) if isinstance(x, ast.Call)
                   and U.call_name(x) == 'ForeignKey']
            ok = bool(fks) and U.kwarg(fks[0], 'ondelete') is not None and \
                norm(U.kwarg(fks[0], 'ondelete')) == "'CASCADE'"
            r3.check(ok, MODELS + ' :: ' + col,
                     'containment foreign key %s is not ON DELETE CASCADE: '
                     'deleting a root execution would leave (or be blocked '
                     'by) its children' % col,
                     'mistral/db/v2/sqlalchemy/models.py:%d' % n.lineno)
    if seen != containment:
        raise AnalysisError('C18.R3: containment columns not found: %s'
                            % sorted(containment - seen))

    # ---- R4 a criterion is applied only when configured --------------------------------
    r4 = ctx.rule('R4', 'each deletion criterion is applied only when its '
                  'option is configured', 'nullable origin')
    opts = option_defaults(prog, {'older_than', 'max_finished_executions',
                                  'evaluation_interval'})
    nullable = {k for k, (has, d) in opts.items() if not has or d is None}
    if 'older_than' not in opts:
        raise AnalysisError('C18.R4: option older_than not found')
    rp = prog.func(EP + '.run_execution_expiration_policy')
    cfg = ctx.cfg(rp)
    variables = [('older_than', (None, 0, OBJ))]
    IN, keys = sd.analyze(cfg, rp, variables)
    uses = []
    for n, c in cfg.calls(lambda c: U.call_name(c) == 'timedelta'):
        if any('older_than' in norm(a) for a in
               list(c.args) + [k.value for k in c.keywords]):
            uses.append((n, c))
    if 'older_than' in nullable or True:
        if not uses:
            raise AnalysisError('C18.R4: use of older_than lost')
        for n, c in uses:
            vals = sd.values_at(IN, keys, n, 'older_than')
            r4.check(vals == {OBJ}, ctx.construct(rp, c),
                     'older_than is used although it may be unset / below 1 '
                     '(%s): TypeError on every run, or everything finished '
                     'is deleted when older_than is 0'
                     % sorted(map(str, vals - {OBJ})), ctx.loc(rp, c))
    # the age criterion is skipped when no expiration time was computed
    de_cfg = ctx.cfg(de)
    INd, kd = sd.analyze(de_cfg, de, [('expiration_time', (None, OBJ))])
    ge = [n for n in own_nodes(de.node) if isinstance(n, ast.Lambda) and
          isinstance(n.body, ast.Call) and
          U.call_name(n.body) == 'get_expired_executions']
    okg = False
    for lm in ge:
        cn = de_cfg.node_of(lm)
        if cn is not None:
            okg = sd.values_at(INd, kd, cn, 'expiration_time') == {OBJ}
    r4.check(okg, ctx.construct(de, extra='age criterion only with a time'),
             'expired executions are fetched although no expiration time '
             'is configured', ctx.loc(de))
    # enabling predicate treats both options alike
    init = prog.func(EP + '.ExecutionExpirationPolicy.__init__')
    r4.check(U.phas(init.node, '(__o and __o >= 1) or (__m and __m >= 1)'),
             ctx.construct(init, extra='enabling predicate'),
             'the policy is no longer enabled by "option >= 1" for either '
             'option', ctx.loc(init))

    # ---- R5 the age threshold is computed in UTC, like the stored times ----------
    r5 = ctx.rule('R5', 'thresholds compared with stored (UTC) timestamps are '
                  'computed from a UTC clock', 'WMW (time sources)')
    from mstatic.rules import shared
    shared.timestamp_columns_are_callables(ctx, r5)
    shared.utc_time_sources(
        ctx, r5, ['mistral.services.expiration_policy',
                  'mistral.db.v2.sqlalchemy.api',
                  'mistral.db.v2.sqlalchemy.models',
                  'mistral.db.sqlalchemy.model_base'], 2)
    rn = prog.func(EP + '.run_execution_expiration_policy')
    exp = [x for x in own_nodes(rn.node) if isinstance(x, ast.BinOp) and
           isinstance(x.op, ast.Sub) and any(
               isinstance(y, ast.Call) and U.call_name(y) == 'timedelta'
               for y in ast.walk(x.right))]
    r5.check(len(exp) == 1 and isinstance(exp[0].left, ast.Call) and
             (dotted(exp[0].left.func) or '') in shared.UTC_TIME and
             any(k.arg == 'minutes' for y in ast.walk(exp[0].right)
                 if isinstance(y, ast.Call) for k in y.keywords),
             ctx.construct(rn, extra='now(UTC) - older_than minutes'),
             'the expiration time is not "UTC now minus older_than minutes"',
             ctx.loc(rn))

    # ---- R6 the shared base query carries no ordering of its own ------------------
    r6 = ctx.rule('R6', 'ordering is applied by the two criteria only '
                  '(order_by is additive: an order in the shared base query '
                  'would take precedence over "newest first"); the '
                  'cascade-depth fallback recognises real driver messages',
                  'QSHAPE + const')
    ob = [c for c in own_nodes(bq.node) if isinstance(c, ast.Call) and
          U.call_name(c) == 'order_by']
    r6.check(not ob, ctx.construct(bq, extra='no order_by in the base query'),
             'the base query is ordered by %s: get_superfluous_executions '
             'adds its updated_at DESC after it, so the offset keeps the '
             'wrong executions' % [norm(c, 60) for c in ob], ctx.loc(bq))
    import re as _re
    FIX = {
        'is_mysql_max_depth_error':
            "(pymysql.err.OperationalError) (3008, 'Foreign key cascade "
            "delete/update exceeds max depth of 15.')\n[SQL: DELETE FROM "
            "workflow_executions_v2 WHERE workflow_executions_v2.id = "
            "%(id_1)s]\n[parameters: {'id_1': 'x'}]\n(Background on this "
            "error at: https://sqlalche.me/e/20/e3q8)",
        'is_mariadb_max_depth_error':
            "(pymysql.err.OperationalError) (1030, 'Got error 193 \"`mistral`."
            "`task_executions_v2`, CONSTRAINT `fk` FOREIGN KEY "
            "(`workflow_execution_id`) REFERENCES `workflow_executions_v2` "
            "(`id`) ON DELETE CASCADE\" from storage engine InnoDB')\n"
            "[SQL: DELETE FROM workflow_executions_v2 WHERE "
            "workflow_executions_v2.id = %(id_1)s]\n[parameters: "
            "{'id_1': 'x'}]",
    }
    for name, msg in sorted(FIX.items()):
        df = prog.func(DB + '.' + name)
        calls = [c for c in own_nodes(df.node) if isinstance(c, ast.Call) and
                 U.call_name(c) in ('match', 'search', 'fullmatch')]
        okm = False
        if len(calls) == 1:
            c = calls[0]
            meth = U.call_name(c)
            pat = None
            cands = list(c.args[:1])
            if isinstance(c.func, ast.Attribute) and \
                    dotted(c.func.value) != 're':
                cands = [c.func.value]
            for a in cands:
                try:
                    v = prog.eval_const(df.module, U.canon_expr(df.node, a))
                except NotConst:
                    v = None
                    node = prog.module_assigns.get(df.module, {}).get(
                        dotted(a) or '')
                    if isinstance(node, ast.Call) and node.args:
                        try:
                            v = prog.eval_const(df.module, node.args[0])
                        except NotConst:
                            v = None
                if isinstance(v, str):
                    pat = v
            if pat is not None:
                try:
                    okm = bool(getattr(_re.compile(pat), meth)(msg))
                except _re.error:
                    okm = False
        r6.check(okm, ctx.construct(df, extra='matches a wrapped multi-line '
                                    'driver message'),
                 'the detector does not recognise the error as the drivers '
                 'report it (wrapped by SQLAlchemy / oslo.db, several '
                 'lines): the cascade-depth fallback is never taken, the '
                 'delete fails and the expired deep tree is never removed',
                 ctx.loc(df))
