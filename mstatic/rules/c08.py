"""C08 - task policies bound and shape execution as documented."""
import ast

from mstatic.core import AnalysisError, dotted, norm, own_nodes
from mstatic.rules import util as U
from mstatic.statedom import OBJ, UNK, RAISES

POL = 'mistral.engine.policies'
RT = 'mistral.engine.tasks.RegularTask'


def schema_keys(prog, cls_q):
    """Constant keys of <cls>._schema['properties'] (keys only; the values
    may reference other classes and need not fold)."""
    k, node = prog.class_attr(cls_q, '_schema')
    if not isinstance(node, ast.Dict):
        raise AnalysisError('%s._schema is not a dict literal' % cls_q)
    for kk, vv in zip(node.keys, node.values):
        if isinstance(kk, ast.Constant) and kk.value == 'properties' and \
                isinstance(vv, ast.Dict):
            return {x.value for x in vv.keys if isinstance(x, ast.Constant)}
    raise AnalysisError('%s._schema has no properties' % cls_q)


def retry_table(ctx, rule, f):
    """Decision table of RetryPolicy.after_task_complete over (count, stored
    attempt number, task state, continue-on clause / value, break-on value,
    join or not): another attempt is scheduled exactly when the task ended
    SUCCESS or ERROR, attempts remain (stored number < count), break-on did
    not fire on an ERROR, and continue-on (when given) holds - a SUCCESS
    without continue-on stops.  The stored number becomes number + 1."""
    from mstatic.rules import dt
    from mstatic.pattern import match
    defs = U._single_defs(f.node)

    def one(pattern, what):
        got = sorted({n.targets[0].id for n in own_nodes(f.node)
                      if isinstance(n, ast.Assign) and
                      len(n.targets) == 1 and
                      isinstance(n.targets[0], ast.Name) and
                      match(U.P(pattern), n.value) is not None})
        if len(got) != 1:
            raise AnalysisError('retry table: %s not found (%s)'
                                % (what, got))
        return got[0]
    task = f.params[1]
    pctx = one('%s.get_policy_context(__k)' % task, 'policy context')
    cev = one('expressions.evaluate(self._continue_on_clause, __c)',
              'continue-on value')
    bev = one('expressions.evaluate(self._break_on_clause, __c)',
              'break-on value')
    k_in = "'retry_no' in %s" % pctx
    k_no = "%s['retry_no']" % pctx
    k_state = '%s.get_state()' % task
    k_has = "hasattr(%s.task_spec, 'get_join')" % task
    k_join = '%s.task_spec.get_join()' % task
    rng = tuple(range(0, 6 if ctx.tier == 'thorough' else 4))
    variables = [('self.count', rng), (k_in, (True, False)), (k_no, rng),
                 (k_state, ctx.sd.ALL),
                 ('self._continue_on_clause', (None, OBJ)),
                 (cev, (True, False)), (bev, (True, None)),
                 (k_has, (True, False)), (k_join, (None, OBJ))]
    # locals assigned more than once: the attempt number and boolean flags
    counts = {}
    for n in own_nodes(f.node):
        if isinstance(n, ast.Assign) and len(n.targets) == 1 and \
                isinstance(n.targets[0], ast.Name):
            counts.setdefault(n.targets[0].id, []).append(n.value)
    extra = []
    for name, vals in sorted(counts.items()):
        if len(vals) < 2:
            continue
        if any(norm(v) == k_no for v in vals):
            extra.append((name, rng + (rng[-1] + 1,)))
        else:
            extra.append((name, (True, False)))
    # SKIPPED never arrives: Task.complete does not run the after-complete
    # hooks of a skipped task (checked here, so that the table may rely on it)
    tc = ctx.prog.func('mistral.engine.tasks.Task.complete')
    tcfg = ctx.cfg(tc)
    hooks = tcfg.calls(lambda c: U.call_name(c) == '_after_task_complete')
    if not hooks:
        raise AnalysisError('retry table: Task.complete no longer runs the '
                            'after-complete hooks')
    for n, c in hooks:
        vals, _i, _k = U.guard_values(ctx, tc, n, [('state', ctx.sd.ALL)],
                                      'state')
        rule.check('SKIPPED' not in vals,
                   ctx.construct(tc, c, extra='not for skipped tasks'),
                   'the after-complete policies (retry, wait-after, '
                   'fail-on) run for a task that is being SKIPPED: the '
                   'retry policy would start it again', ctx.loc(tc, c))
    t = dt.Table(ctx, f, variables, extra_vars=extra,
                 constraint=lambda d: (d[k_has] or d[k_join] is None) and
                 d[k_state] != 'SKIPPED')

    def attempt(d):
        return d[k_no] if d[k_in] else 0

    def again(d):
        st = d[k_state]
        return (d['self.count'] > 0 and st in ('SUCCESS', 'ERROR') and
                attempt(d) < d['self.count'] and
                not (st == 'ERROR' and d[bev]) and
                not (st == 'SUCCESS' and d['self._continue_on_clause']
                     is None) and
                not (d['self._continue_on_clause'] is not None and
                     not d[cev]))

    def fmt(d):
        return ('count=%s attempt=%s state=%s continue-on=%s break-on=%s '
                'join=%s' % (d['self.count'], attempt(d), d[k_state],
                             'absent' if d['self._continue_on_clause'] is None
                             else d[cev], bool(d[bev]),
                             bool(d[k_has] and d[k_join])))
    stores = t.stmt_nodes(lambda a: isinstance(a, ast.Assign) and
                          isinstance(a.targets[0], ast.Subscript) and
                          isinstance(a.targets[0].slice, ast.Constant) and
                          a.targets[0].slice.value == 'retry_no')
    if len(stores) != 1:
        raise AnalysisError('retry table: store of the attempt number')
    t.check_exact(rule, stores[0], again, 'another attempt is scheduled',
                  'retry decision table', fmt)
    # the stored number is the number that was read + 1
    bad = []
    for v in t.full_at(stores[0]):
        d = dict(zip(t.keys, v[:t.n_in]))
        got = t.ev(stores[0].ast.value, v)
        if got is UNK or got is RAISES or got != attempt(d) + 1:
            bad.append((fmt(d), got))
    rule.check(not bad, ctx.construct(f, stores[0].ast,
                                      extra='attempt number + 1'),
               'the stored attempt number is not the stored number + 1 '
               '(%s)' % (bad[:1],), ctx.loc(f, stores[0].ast))
    inv = t.call_nodes('invalidate_result')
    for n in inv:
        t.check_exact(rule, n, again, 'the previous result is invalidated',
                      'retry decision table', fmt)
    # what happens next: a join waits for its refresh, others are delayed
    ss = [(n, c) for n, c in t.cfg.calls(lambda c: U.is_call(c, 'set_state'))]
    seen_targets = set()
    for n, c in ss:
        tgt = ctx.sd.ev(c.args[0], {}, dt.Frame(f.module)) if c.args else UNK
        seen_targets.add(tgt)
        if tgt == 'WAITING':
            t.check_exact(rule, n,
                          lambda d: again(d) and d[k_has] and
                          d[k_join] is not None,
                          'a join is put back to WAITING for another attempt',
                          'retry decision table (join)', fmt)
        elif tgt == 'DELAYED':
            t.check_exact(rule, n,
                          lambda d: again(d) and not (d[k_has] and
                                                      d[k_join] is not None),
                          'the task is delayed for another attempt',
                          'retry decision table (delayed)', fmt)
        else:
            rule.fail(ctx.construct(f, c, extra='retry target state'),
                      'the retry policy moves the task to %s: a task that '
                      'is retried is either DELAYED until its continuation '
                      'runs or, for a join, WAITING for its refresh'
                      % (tgt,), ctx.loc(f, c))
    if seen_targets != {'WAITING', 'DELAYED'}:
        raise AnalysisError('retry table: continuation states %s'
                            % sorted(map(str, seen_targets)))
    for n in t.call_nodes('_schedule_refresh_task_state'):
        t.check_exact(rule, n, lambda d: again(d) and d[k_has] and
                      d[k_join] is not None,
                      'the refresh of a retried join is scheduled',
                      'retry decision table (join)', fmt)
    for n in t.call_nodes('schedule'):
        t.check_exact(rule, n, lambda d: again(d) and not (
            d[k_has] and d[k_join] is not None),
            'the continuation of the retried task is scheduled',
            'retry decision table (delayed)', fmt)
    t.undecided(rule, 'count, stored attempt number, task state, '
                'continue-on, break-on and whether the task is a join')


MEMOIZERS = ('lru_cache', 'cache', 'cached', 'cachedmethod', 'memoize',
             'memoized', 'cached_property')


def _memoizing_decorators(fnode):
    out = []
    for d in fnode.decorator_list:
        x = d.func if isinstance(d, ast.Call) else d
        nm = dotted(x) or ''
        if nm.split('.')[-1] in MEMOIZERS:
            out.append(nm)
    return out


def _fresh_policies_rule(ctx):
    """A policy object evaluates its own fields against the context of the
    task it is applied to (TaskPolicy.before_task_start/after_task_complete
    -> evaluate_object_fields(self, ...)): an expression field is replaced
    by its value *in the object*.  The object is therefore good for one
    task start / completion only: everything between Task._before_task_start
    / _after_task_complete and the policy constructors must build new
    objects on every call."""
    prog = ctx.prog
    r = ctx.rule('R10', 'policy objects (whose fields are overwritten by '
                 'evaluated values) are built afresh for every task start '
                 'and completion', 'ownership (who may construct / keep)')
    POL = 'mistral.engine.policies'
    # classes whose instances evaluate their own fields in place
    mut = set()
    for c in prog.classes:
        for k in prog.mro(c):
            for q, f in prog.funcs.items():
                if f.cls == k and any(
                        isinstance(n, ast.Call) and
                        U.call_name(n) == 'evaluate_object_fields' and
                        n.args and norm(n.args[0]) == 'self'
                        for n in own_nodes(f.node)):
                    mut.add(c)
    mut = {c for c in mut if c.startswith(POL + '.')}
    if len(mut) < 7:
        raise AnalysisError('C08.R10: only %d self-evaluating policy '
                            'classes found' % len(mut))
    short = {c.split('.')[-1]: c for c in mut}
    # who constructs them
    builders = set()
    for q, f in sorted(prog.funcs.items()):
        if not q.startswith('mistral.') or '.tests.' in q:
            continue
        for n in own_nodes(f.node):
            if isinstance(n, ast.Call) and U.call_name(n) in short and \
                    prog.resolve_dotted(f.module, dotted(n.func) or '') \
                    == short[U.call_name(n)]:
                builders.add(q)
                r.check(q.startswith(POL + '.build_'),
                        ctx.construct(f, n),
                        'a policy object is constructed outside the policy '
                        'factories', ctx.loc(f, n))
    if len(builders) < 7:
        raise AnalysisError('C08.R10: only %d policy factories found'
                            % len(builders))
    chain = sorted(builders) + [POL + '.build_policies',
                                POL + '.construct_policies_list',
                                POL + '.get_policy_factories']
    for q in chain:
        f = prog.func(q)
        memo = _memoizing_decorators(f.node)
        r.check(not memo, ctx.construct(f, extra='not memoized'),
                'the function is memoized (%s): the policy objects it '
                'returns are shared between tasks, and the values one task '
                'evaluated into their fields replace the expressions for '
                'every later task' % ', '.join(memo), ctx.loc(f))
        # ... and keeps nothing at module level / on a default argument
        for n in own_nodes(f.node):
            if isinstance(n, ast.Global):
                r.fail(ctx.construct(f, n),
                       'a policy factory keeps state in a module global',
                       ctx.loc(f, n))
    # the two users take the list from build_policies on every call and do
    # not keep it
    n_use = 0
    for q in ('mistral.engine.tasks.Task._before_task_start',
              'mistral.engine.tasks.Task._after_task_complete'):
        f = prog.func(q)
        cs = [n for n in own_nodes(f.node) if isinstance(n, ast.Call) and
              U.call_name(n) == 'build_policies']
        r.check(len(cs) == 1, ctx.construct(f, extra='builds its policies'),
                'the hook does not build its policy list', ctx.loc(f))
        for n in own_nodes(f.node):
            if isinstance(n, (ast.Assign, ast.AnnAssign)) and any(
                    isinstance(x, ast.Call) and
                    U.call_name(x) == 'build_policies'
                    for x in ast.walk(n)):
                tg = n.targets if isinstance(n, ast.Assign) else [n.target]
                r.check(all(isinstance(t, ast.Name) for t in tg),
                        ctx.construct(f, n),
                        'the built policy list is stored beyond the call',
                        ctx.loc(f, n))
        n_use += len(cs)
    if n_use < 2:
        raise AnalysisError('C08.R10: build_policies call sites lost')


def _snake(name):
    import re
    return re.sub(r'(?<!^)(?=[A-Z])', '_', name).lower()


def _policy_order_rule(ctx):
    """All before-start hooks of a task run in the order of
    get_policy_factories().  A hook that holds the task before it starts
    (sets it IDLE: pause-before) has to run before every hook that asks
    whether the task is being held (compares the state with IDLE before it
    delays the task and arms the timer that starts it: wait-before) -
    otherwise the timer is armed first and starts the task although the
    workflow was paused for it."""
    prog = ctx.prog
    r = ctx.rule('R12', 'a before-start policy that holds the task (IDLE) '
                 'runs before the policies that test for IDLE', 'PAIR (order)')
    POL = 'mistral.engine.policies'
    gf = prog.func(POL + '.get_policy_factories')
    rets = [x for x in own_nodes(gf.node) if isinstance(x, ast.Return)]
    if len(rets) != 1 or not isinstance(rets[0].value, (ast.List, ast.Tuple)) \
            or not all(isinstance(e, ast.Name) for e in rets[0].value.elts):
        raise AnalysisError('get_policy_factories: not a literal list of '
                            'factories')
    order = [e.id for e in rets[0].value.elts]
    writers, readers = [], []
    for i, fac in enumerate(order):
        f = prog.func(POL + '.' + fac)
        classes = set()
        for x in ast.walk(f.node):
            if isinstance(x, ast.Call) and isinstance(x.func, ast.Name) and \
                    (POL + '.' + x.func.id + '.__init__') in prog.funcs:
                classes.add(x.func.id)
        if len(classes) != 1:
            raise AnalysisError('%s: policy class not identified (%s)'
                                % (fac, sorted(classes)))
        cls = classes.pop()
        h = prog.funcs.get('%s.%s.before_task_start' % (POL, cls))
        if h is None:
            continue
        for x in own_nodes(h.node):
            if isinstance(x, ast.Call) and U.call_name(x) == 'set_state' \
                    and x.args and norm(x.args[0]) == 'states.IDLE':
                writers.append((i, fac, h))
            if isinstance(x, ast.Compare) and any(
                    norm(o) == 'states.IDLE'
                    for o in [x.left] + x.comparators):
                readers.append((i, fac, h))
    if not writers or not readers:
        raise AnalysisError('policy order: no hook sets / tests IDLE '
                            '(writers %s, readers %s)' % (writers, readers))
    for wi, wf, wh in writers:
        for ri, rf, rh in readers:
            r.check(wi < ri, ctx.construct(gf, extra='%s before %s'
                                           % (wf, rf)),
                    '%s (tests whether the task is held IDLE) runs before '
                    '%s (holds it): the task is delayed and its timer armed '
                    'before the pause, and the timer starts it while the '
                    'workflow is paused' % (rf, wf), ctx.loc(gf))


def _policy_factories_rule(ctx):
    """Which policies a task gets: each factory builds its policy exactly
    when the task (or task-defaults) spec configures it - a number above
    zero or an expression for wait-before / wait-after / timeout, any
    truthy value for pause-before / concurrency / fail-on / retry - from the
    value of its own getter."""
    from mstatic.rules import dt
    prog, sd = ctx.prog, ctx.sd
    r = ctx.rule('R11', 'each policy factory builds its policy exactly when '
                 'the spec configures it, from its own getter', 'DT')
    POL = 'mistral.engine.policies'
    EXPR = '<% $.x %>'
    n_f = 0
    for q in sorted(prog.funcs):
        if not (q.startswith(POL + '.build_') and q.endswith('_policy')):
            continue
        f = prog.func(q)
        key = q[len(POL + '.build_'):-len('_policy')]
        getter = 'policies_spec.get_%s()' % key
        numeric = key in ('wait_before', 'wait_after', 'timeout')
        dom = (0, 1, 3, EXPR) if numeric else (None, False, 0, 2, EXPR, 'OBJ')
        t = dt.Table(ctx, f, [('policies_spec', (None, 'OBJ')),
                              (getter, dom)],
                     types={getter: None})
        n_f += 1
        built, absent = set(), set()
        ctor = []
        for n in t.cfg.nodes:
            if not (n.kind == 'stmt' and isinstance(n.ast, ast.Return)):
                continue
            for v in t.full_at(n):
                e = n.ast.value
                while isinstance(e, ast.IfExp):
                    tr = sd.truth(t.ev(e.test, v))
                    if tr is UNK or tr is RAISES:
                        e = None
                        break
                    e = e.body if tr else e.orelse
                iv = v[:t.n_in]
                if e is None:
                    built.add(iv)
                    absent.add(iv)
                elif isinstance(e, ast.Call):
                    built.add(iv)
                    if e not in ctor:
                        ctor.append(e)
                else:
                    absent.add(iv)

        def want(d):
            if d['policies_spec'] is None:
                return False
            g = d[getter]
            if numeric:
                return isinstance(g, str) or g > 0
            return bool(g)
        exp = {v for v in t.init_inputs if want(dict(zip(t.keys, v)))}
        extra = sorted(built - exp, key=repr)
        missing = sorted((exp - built) | (absent & exp), key=repr)
        msg = ''
        if extra:
            msg += 'the policy is built although nothing configures it, ' \
                   'e.g. %s. ' % dict(zip(t.keys, extra[0]))
        if missing:
            msg += 'the configured policy is not built, e.g. %s' % dict(
                zip(t.keys, missing[0]))
        r.check(not extra and not missing,
                ctx.construct(f, extra='built exactly when configured'), msg,
                ctx.loc(f))
        # the right class, fed from the right getter
        okc = bool(ctor)
        for c in ctor:
            cls = U.call_name(c)
            okc = okc and _snake(cls[:-len('Policy')]) == key
            if key == 'retry':
                init = prog.func(POL + '.RetryPolicy.__init__')
                okc = okc and [norm(U.canon_expr(f.node, a), 200)
                               for a in c.args] == [
                    'policies_spec.get_retry().get_%s()' % p_
                    for p_ in init.params[1:]] and not c.keywords
            else:
                okc = okc and len(c.args) == 1 and norm(U.canon_expr(
                    f.node, c.args[0]), 200) == getter
        r.check(okc, ctx.construct(f, extra='class and getter agree'),
                'the factory does not build %sPolicy from %s' % (
                    ''.join(x.capitalize() for x in key.split('_')), getter),
                ctx.loc(f))
    if n_f < 7:
        raise AnalysisError('C08.R11: only %d policy factories' % n_f)
    # the list of factories names all of them
    gf = prog.func(POL + '.get_policy_factories')
    names = {x.id for x in ast.walk(gf.node) if isinstance(x, ast.Name)
             and x.id.startswith('build_')}
    allf = {q.rsplit('.', 1)[1] for q in prog.funcs
            if q.startswith(POL + '.build_') and q.endswith('_policy')}
    r.check(names == allf, ctx.construct(gf, extra='lists every factory'),
            'get_policy_factories does not list %s' % sorted(allf - names),
            ctx.loc(gf))
    # task-level policy first, workflow default only when absent
    cl = prog.func(POL + '.construct_policies_list')
    # names of the locals are read off the code (a rename is not a change)
    loops = [x for x in own_nodes(cl.node) if isinstance(x, ast.For) and
             isinstance(x.target, ast.Name) and
             U.phas(x.iter, 'get_policy_factories()')]
    if len(loops) != 1:
        raise AnalysisError('C08.R11: construct_policies_list does not loop '
                            'over get_policy_factories()')
    fac = loops[0].target.id
    p0, p1 = cl.params[0], cl.params[1]
    pol = [x.targets[0].id for x in own_nodes(cl.node)
           if isinstance(x, ast.Assign) and
           isinstance(x.targets[0], ast.Name) and
           norm(x.value) == '%s(%s)' % (fac, p0)]
    if len(pol) != 1:
        raise AnalysisError('C08.R11: the task-level factory call is lost')
    tc = dt.Table(ctx, cl, [('%s(%s)' % (fac, p0), (None, 'OBJ')),
                            (p1, (None, 'OBJ'))],
                  extra_vars=[(pol[0], (None, 'OBJ'))])
    dflt = [n for n, c in tc.cfg.calls(
        lambda c: U.call_name(c) == fac and c.args and
        norm(c.args[0]) == p1)]
    r.check(len(dflt) == 1 and tc.inputs_at(dflt[0]) == {(None, 'OBJ')},
            ctx.construct(cl, extra='defaults only when absent'),
            'the task-defaults policy is consulted in other situations than '
            '"the task itself configures none and defaults exist"',
            ctx.loc(cl))
    tc.undecided(r, 'the task-level policy and the task-defaults')
    bp = prog.func(POL + '.build_policies')
    td = [x.targets[0].id for x in own_nodes(bp.node)
          if isinstance(x, ast.Assign) and
          isinstance(x.targets[0], ast.Name) and
          norm(x.value) == '%s.get_task_defaults()' % bp.params[1]]
    if len(td) != 1:
        raise AnalysisError('C08.R11: build_policies no longer reads the '
                            'task defaults')
    DP = '%s.get_policies()' % td[0]
    GD = '%s.get_task_defaults()' % bp.params[1]
    tb = dt.Table(ctx, bp, [(bp.params[0], (None, 'OBJ')),
                            (GD, (None, 'OBJ')),
                            (DP, (None, 'OBJ'))],
                  extra_vars=[(td[0], (None, 'OBJ'))],
                  inline_exclude=(td[0],))
    cons = tb.call_nodes('construct_policies_list')
    if len(cons) != 1:
        raise AnalysisError('C08.R11: build_policies structure lost')
    tb.check_exact(
        r, cons[0],
        lambda d: d[bp.params[0]] is not None or (
            d[GD] is not None and d[DP] is not None),
        'the policy list is built', 'built when the task or the defaults '
        'configure policies')
    tb.undecided(r, 'the task policies and the task-defaults policies')
    c = [x for x in tb.cfg.own_nodes(cons[0]) if isinstance(x, ast.Call) and
         U.call_name(x) == 'construct_policies_list'][0]
    r.check([norm(U.canon_expr(bp.node, a), 200) for a in c.args][0] ==
            bp.params[0] and 'get_policies()' in norm(
                U.canon_expr(bp.node, c.args[1]), 200),
            ctx.construct(bp, c, extra='task policies, then defaults'),
            'the task policies and the task-defaults policies are not passed '
            'in this order', ctx.loc(bp, c))


def run(ctx):
    _run(ctx)
    _hooks_rule(ctx)
    _policy_factories_rule(ctx)
    _policy_order_rule(ctx)
    _fresh_policies_rule(ctx)
    _callbacks_rule(ctx)
    from mstatic.rules import shared
    r8 = ctx.rule('R8', 'continue-on / break-on see what the attempt has '
                  'just published', 'AGREE (lookup order)')
    shared.expression_context_order(ctx, r8)
    from mstatic.rules import completion
    r9 = ctx.rule('R9', 'a task held DELAYED by retry / wait-after does not '
                  'start its follow-up tasks (shared with C01.R17)', 'GD')
    completion.task_complete_followup(ctx, r9)


def _run(ctx):
    prog, sd = ctx.prog, ctx.sd
    S = sd.consts
    completed = sd.pred_set('is_completed')

    # ---- R1 retry continuation ---------------------------------------------
    r1 = ctx.rule('R1', 'retry continues only while retries remain, no '
                  'break, no stop; counter +1; result invalidated first',
                  'GD')
    f = prog.func(POL + '.RetryPolicy.after_task_complete')
    cfg = ctx.cfg(f)
    IN, keys = sd.analyze(
        cfg, f, [('retries_remain', (False, True)),
                 ('break_triggered', (False, True, None, OBJ)),
                 ('stop_continue_flag', (False, True, None, OBJ)),
                 ('state', sd.state_domain)], kill=lambda c: ())
    cont = cfg.calls(lambda c: U.call_name(c) in (
        'invalidate_result', 'set_state', 'schedule',
        '_schedule_refresh_task_state'))
    if len(cont) < 5:
        raise AnalysisError('C08.R1: retry continuation calls lost')
    for n, c in cont:
        bad = [v for v in IN[n.id]
               if not v[0] or v[1] in (True, OBJ) or v[2] in (True, OBJ)]
        r1.check(not bad, ctx.construct(f, extra=U.call_name(c) + ' guarded'),
                 'retry continuation (%s) reachable with retries_remain=%s '
                 'break_triggered=%s stop_continue_flag=%s'
                 % ((U.call_name(c),) + tuple(bad[0][:3]) if bad
                    else (U.call_name(c), '', '', '')), ctx.loc(f, c))
        st = {v[3] for v in IN[n.id]}
        r1.check(st <= (completed - {S['CANCELLED']}),
                 ctx.construct(f, extra=U.call_name(c) + ' state'),
                 'retry continuation reachable for task states %s'
                 % sorted(map(str, st - (completed - {S['CANCELLED']}))),
                 ctx.loc(f, c))
    inc = [n for n in own_nodes(f.node) if isinstance(n, ast.Assign) and
           isinstance(n.targets[0], ast.Subscript) and
           isinstance(n.targets[0].slice, ast.Constant) and
           n.targets[0].slice.value == 'retry_no']
    sn = cfg.stmt_node(inc[0]) if len(inc) == 1 else None
    sets = [n for n, c in cont if U.call_name(c) in (
        'set_state', 'schedule', '_schedule_refresh_task_state')]
    r1.check(sn is not None and all(cfg.dominates(sn, x) for x in sets),
             ctx.construct(f, extra='counter +1 on every continuing path'),
             'the retry counter is not stored before every continuation',
             ctx.loc(f))
    inv = [n for n, c in cont if U.call_name(c) == 'invalidate_result']
    r1.check(bool(inv) and all(cfg.dominates(inv[0], x) for x in sets),
             ctx.construct(f, extra='invalidate before continue'),
             'results of the failed attempt are not invalidated before the '
             'next attempt', ctx.loc(f))
    # the attempt number lives inside a nested dict of runtime_context:
    # the ORM only sees the change if the column is touched afterwards
    touch = [n for n, c in cfg.calls(
        lambda c: U.call_name(c) == 'touch_runtime_context')]
    r1.check(sn is not None and bool(touch) and cfg.must_pass(sn, touch),
             ctx.construct(f, extra='attempt number persisted'),
             'the incremented attempt number is stored inside the nested '
             'policy context without touching runtime_context afterwards: '
             'the ORM does not write it and the task is retried for ever',
             ctx.loc(f))
    retry_table(ctx, r1, f)

    # ---- R2 timeout ----------------------------------------------------------
    r2 = ctx.rule('R2', 'the timeout only fails tasks that are still '
                  'incomplete, with a timeout message', 'GD')
    ft = prog.func(POL + '._fail_task_if_incomplete')
    cfg = ctx.cfg(ft)
    IN, keys = sd.analyze(cfg, ft, [('task_ex.state', sd.state_domain)])
    got = U.calls_in(cfg, 'complete_task')
    if not got:
        raise AnalysisError('C08.R2: complete_task call lost')
    for n, c in got:
        vals = sd.values_at(IN, keys, n, 'task_ex.state')
        r2.check(not (vals & completed), ctx.construct(ft, c),
                 'timeout fails a task that already completed (%s)'
                 % sorted(vals & completed), ctx.loc(ft, c))
        missing = set(sd.ALL) - completed - vals
        r2.check(not missing, ctx.construct(ft, extra='every incomplete '
                                            'state'),
                 'the timeout is silently dropped for tasks in %s (delayed, '
                 'paused or waiting tasks would outlive their deadline: the '
                 'job fires once)' % sorted(missing), ctx.loc(ft, c))
        r2.check(len(c.args) >= 3 and norm(c.args[1]) == 'states.ERROR' and
                 dotted(c.args[2]) == 'msg', ctx.construct(ft, extra='ERROR '
                                                           'with message'),
                 'timeout does not complete the task with ERROR and the '
                 'message', ctx.loc(ft, c))
    msg = [n for n in own_nodes(ft.node) if isinstance(n, ast.Assign) and
           dotted(n.targets[0]) == 'msg']
    r2.check(bool(msg) and 'timeout' in {x.id for x in ast.walk(msg[0].value)
                                         if isinstance(x, ast.Name)} and
             'timed out' in norm(msg[0].value).lower(),
             ctx.construct(ft, extra='message'),
             'the timeout message does not mention the timeout', ctx.loc(ft))
    tp = prog.func(POL + '.TimeoutPolicy.before_task_start')
    jobs = [n for n in own_nodes(tp.node) if isinstance(n, ast.Call) and
            U.call_name(n) == 'SchedulerJob']
    r2.check(bool(jobs) and dotted(U.kwarg(jobs[0], 'func_name')) ==
             '_FAIL_IF_INCOMPLETE_TASK_PATH' and
             norm(U.kwarg(jobs[0], 'run_after')) == 'self.delay',
             ctx.construct(tp), 'timeout job does not target '
             '_fail_task_if_incomplete after self.delay', ctx.loc(tp))

    # ---- R3 before-start hooks ----------------------------------------------------
    r3 = ctx.rule('R3', 'before-start policies take effect before the '
                  'action is scheduled', 'GD')
    for name in ('_run_new', '_run_existing'):
        g = prog.func(RT + '.' + name)
        cfg = ctx.cfg(g)
        bts = U.calls_in(cfg, '_before_task_start')
        sch = U.calls_in(cfg, '_schedule_actions')
        if not bts or not sch:
            raise AnalysisError('C08.R3: %s structure lost' % name)
        # on every path from the hook to scheduling there is a re-check
        # that returns when the state is no longer RUNNING
        IN, keys = sd.analyze(cfg, g, [('self.task_ex.state',
                                        sd.state_domain)],
                              kill=lambda c: ('self.task_ex.state',)
                              if U.call_name(c) == '_before_task_start'
                              else ())
        for n, c in sch:
            vals = sd.values_at(IN, keys, n, 'self.task_ex.state')
            if name == '_run_new':
                r3.check(cfg.dominates(bts[0][0], n),
                         ctx.construct(g, extra='hooks before scheduling'),
                         'actions can be scheduled before the before-start '
                         'policies ran', ctx.loc(g, c))
                r3.check(vals <= {S['RUNNING']},
                         ctx.construct(g, extra='re-check after hooks'),
                         'actions are scheduled although a policy moved the '
                         'task to %s' % sorted(map(str, vals -
                                                   {S['RUNNING']})),
                         ctx.loc(g, c))
            else:
                # hooks run only on rerun; after them the state is
                # re-checked
                hookn = bts[0][0]
                r3.check(cfg.paths_between(hookn, n) and
                         _recheck_between(cfg, hookn, n),
                         ctx.construct(g, extra='re-check after hooks'),
                         'rerun schedules actions without re-checking the '
                         'state after the before-start policies',
                         ctx.loc(g, c))
                # ... and that re-check lets only RUNNING through (a task a
                # policy has just DELAYED or put back to IDLE must not start)
                IN2, k2 = sd.analyze(
                    cfg, g, [('self.task_ex.state', sd.state_domain),
                             ('self.rerun', (False, True))],
                    kill=lambda c: ('self.task_ex.state',)
                    if U.call_name(c) == '_before_task_start' else ())
                hooked = {v[0] for v in IN2[n.id] if v[1] is True}
                r3.check(hooked <= {S['RUNNING']},
                         ctx.construct(g, extra='only RUNNING after hooks'),
                         'a rerun schedules actions although a before-start '
                         'policy moved the task to %s'
                         % sorted(map(str, hooked - {S['RUNNING']})),
                         ctx.loc(g, c))
                hk = {v[1] for v in IN2[hookn.id]}
                r3.check(hk == {True}, ctx.construct(g, extra='hooks on '
                                                     'rerun'),
                         'before-start policies are not applied exactly on '
                         'rerun', ctx.loc(g))
    pb = prog.func(POL + '.PauseBeforePolicy.before_task_start')
    cfg = ctx.cfg(pb)
    a = U.calls_in(cfg, 'set_state')
    b = U.calls_in(cfg, 'pause_workflow')
    r3.check(bool(a) and bool(b) and norm(a[0][1].args[0]) == 'states.IDLE'
             and cfg.dominates(a[0][0], b[0][0]),
             ctx.construct(pb), 'pause-before does not put the task back to '
             'IDLE and then pause the workflow', ctx.loc(pb))
    fo = prog.func(POL + '.FailOnPolicy.after_task_complete')
    cfg = ctx.cfg(fo)
    a = U.calls_in(cfg, 'set_state')
    ok = False
    for n, c in a:
        ok = U.guarded(cfg, n, 'task.get_state() == states.SUCCESS',
                       True) and \
            U.guarded(cfg, n, 'self.fail_on', True) and \
            norm(c.args[0]) == 'states.ERROR'
    r3.check(ok, ctx.construct(fo), 'fail-on does not turn exactly a '
             'SUCCESS task into ERROR when its condition holds',
             ctx.loc(fo))
    wa = prog.func(POL + '.WaitAfterPolicy.after_task_complete')
    jobs = [n for n in own_nodes(wa.node) if isinstance(n, ast.Call) and
            U.call_name(n) == 'SchedulerJob']
    es = [n for n in own_nodes(wa.node) if isinstance(n, ast.Assign) and
          dotted(n.targets[0]) == 'end_state']
    cfg = ctx.cfg(wa)
    ss = U.calls_in(cfg, 'set_state')
    okw = bool(jobs) and bool(es) and bool(ss) and \
        norm(es[0].value) == 'task.get_state()' and \
        cfg.dominates(cfg.stmt_node(es[0]), ss[0][0])
    if okw:
        fa = U.kwarg(jobs[0], 'func_args')
        okw = isinstance(fa, ast.Dict) and any(
            isinstance(k, ast.Constant) and k.value == 'state' and
            dotted(v) == 'end_state' for k, v in zip(fa.keys, fa.values)) \
            and dotted(U.kwarg(jobs[0], 'func_name')) == '_COMPLETE_TASK_PATH'
    r3.check(okw, ctx.construct(wa), 'wait-after does not record the end '
             'state before delaying and complete the task with it later',
             ctx.loc(wa))
    # everything the completion job carries about the outcome was read
    # before the task was put into DELAYED (set_state overwrites both)
    if jobs and ss:
        fa = U.kwarg(jobs[0], 'func_args')
        stale = []
        if isinstance(fa, ast.Dict):
            for k, v in zip(fa.keys, fa.values):
                if not (isinstance(k, ast.Constant) and
                        k.value in ('state', 'state_info')):
                    continue
                srcs = [v]
                if isinstance(v, ast.Name):
                    srcs = [d for d in U.reaching_defs(
                        cfg, v.id)[cfg.node_of(jobs[0]).id]
                        if not isinstance(d, str)]
                    okd = bool(srcs) and all(
                        cfg.dominates(cfg.node_of(d), ss[0][0]) and
                        cfg.node_of(d) is not ss[0][0] for d in srcs)
                else:
                    okd = not any(isinstance(x, ast.Call)
                                  for x in ast.walk(v))
                want = 'task.get_%s()' % k.value
                if not okd or not all(norm(d) == want for d in srcs):
                    stale.append(k.value)
        r3.check(not stale, ctx.construct(wa, extra='outcome read before '
                                          'the delay'),
                 'the completion job of wait-after takes the task\'s %s '
                 'after the task was set RUNNING_DELAYED: the job completes '
                 'the task with the "delayed" message / state instead of its '
                 'outcome (a timeout or error message is lost)'
                 % ' and '.join(stale), ctx.loc(wa))
    wb = prog.func(POL + '.WaitBeforePolicy.before_task_start')
    jobs = [n for n in own_nodes(wb.node) if isinstance(n, ast.Call) and
            U.call_name(n) == 'SchedulerJob']
    r3.check(bool(jobs) and dotted(U.kwarg(jobs[0], 'func_name')) ==
             '_CONTINUE_TASK_PATH', ctx.construct(wb),
             'wait-before does not schedule _continue_task', ctx.loc(wb))

    # delay policies: DELAYED implies a scheduled continuation, once
    for fpol, resume_state in ((wb, 'states.RUNNING'), (wa, None)):
        pcfg = ctx.cfg(fpol)
        SK = "policy_ctx.get('skip')"
        dly = [(n, c) for n, c in U.calls_in(pcfg, 'set_state')
               if c.args and norm(c.args[0]) == 'states.RUNNING_DELAYED']
        sch = [n for n, c in pcfg.calls(
            lambda c: U.call_name(c) == 'schedule' and
            isinstance(c.func, ast.Attribute))]
        mark = [n for n, c in pcfg.calls(
            lambda c: U.call_name(c) == 'update' and
            dotted(c.func.value) == 'policy_ctx' and c.args and
            norm(c.args[0]) == "{'skip': True}")]
        if dly and mark and not sch:
            # the job exists but is not handed to the scheduler here: the
            # row that moves the task on must be written in the transaction
            # that makes the task DELAYED (a crash in between loses the task)
            r3.fail(ctx.construct(fpol, extra='DELAYED => continuation '
                                  'scheduled'),
                    'the task is set RUNNING_DELAYED but its continuation '
                    'job is not scheduled by a direct scheduler call in the '
                    'same transaction (deferred to a post-commit operation '
                    'or dropped): a crash after the commit leaves the task '
                    'DELAYED for ever', ctx.loc(fpol))
            continue
        if not dly or not sch or not mark:
            raise AnalysisError('C08.R3: %s lost its delay structure'
                                % fpol.qname)
        for n, c in dly:
            r3.check(U.guarded(pcfg, n, SK, False),
                     ctx.construct(fpol, extra='delays once'),
                     'the task is delayed although it already was (skip '
                     'mark set)', ctx.loc(fpol, c))
            r3.check(pcfg.must_pass(n, sch),
                     ctx.construct(fpol, extra='DELAYED => continuation '
                                   'scheduled'),
                     'the task can be left RUNNING_DELAYED without a '
                     'scheduled job that moves it on (it would be lost)',
                     ctx.loc(fpol, c))
            r3.check(pcfg.must_pass(pcfg.entry, mark, exits=[n]),
                     ctx.construct(fpol, extra='skip mark before delaying'),
                     'the skip mark is not set before delaying (the '
                     'continuation would delay again, for ever)',
                     ctx.loc(fpol, c))
        jobs = [x for x in own_nodes(fpol.node) if isinstance(x, ast.Call)
                and U.call_name(x) == 'SchedulerJob']
        r3.check(bool(jobs) and norm(U.kwarg(jobs[0], 'run_after')) ==
                 'self.delay' and U.phas(U.kwarg(jobs[0], 'func_args'),
                                         'task.get_id()'),
                 ctx.construct(fpol, extra='job after self.delay for this '
                               'task'),
                 'the continuation is not scheduled after self.delay for '
                 'this task', ctx.loc(fpol))
        if resume_state:
            back = [(n, c) for n, c in U.calls_in(pcfg, 'set_state')
                    if c.args and norm(c.args[0]) == resume_state]
            r3.check(bool(back) and all(U.guarded(pcfg, n, SK, True)
                                        for n, c in back) and any(
                x.kind == 'stmt' and isinstance(x.ast, ast.Return) and
                U.guarded(pcfg, x, SK, True) for x in pcfg.nodes),
                ctx.construct(fpol, extra='continuation un-delays'),
                'the continuation does not put the task back to RUNNING '
                '(and stop) exactly when the skip mark is set',
                ctx.loc(fpol))
            r3.check(all(U.guarded(pcfg, n, 'task.get_state() == '
                                   'states.IDLE', False) for n, c in dly),
                     ctx.construct(fpol, extra='not for IDLE tasks'),
                     'an IDLE (pause-before) task is delayed',
                     ctx.loc(fpol))
        else:
            r3.check(any(x.kind == 'stmt' and isinstance(x.ast, ast.Return)
                         and U.guarded(pcfg, x, SK, True)
                         for x in pcfg.nodes),
                     ctx.construct(fpol, extra='second round returns'),
                     'the completion scheduled by wait-after is delayed '
                     'again', ctx.loc(fpol))

    # a configured policy takes effect: the only fact about its parameter
    # that may stand between entry and the effect is "parameter is set"
    active = (
        ('WaitBeforePolicy.before_task_start', 'self.delay', 'schedule'),
        ('WaitAfterPolicy.after_task_complete', 'self.delay', 'schedule'),
        ('TimeoutPolicy.before_task_start', 'self.delay', 'schedule'),
        ('PauseBeforePolicy.before_task_start', 'self.expr',
         'pause_workflow'),
        ('ConcurrencyPolicy.before_task_start', 'self.concurrency',
         'set_runtime_context_value'),
        ('RetryPolicy.after_task_complete', 'self.count', 'schedule'),
    )
    for meth, param, effect in active:
        pf = prog.func(POL + '.' + meth)
        pcfg = ctx.cfg(pf)
        effs = [n for n, c in pcfg.calls(
            lambda c: U.call_name(c) == effect and
            isinstance(c.func, ast.Attribute))]
        if not effs:
            raise AnalysisError('C08.R3: %s lost its effect %s'
                                % (meth, effect))
        for n in effs:
            bad = []
            for a_, t_ in U.guard_atoms(pcfg, n):
                if norm(a_) == param:
                    if t_ is not True:
                        bad.append((norm(a_), t_))
                elif isinstance(a_, ast.Compare) and \
                        norm(a_.left) == param and \
                        norm(a_.comparators[0]) == '0':
                    if (isinstance(a_.ops[0], ast.Eq) and t_ is not False):
                        bad.append((norm(a_), t_))
            if meth.startswith('PauseBefore'):
                r3.check(U.guarded(pcfg, n, param, True),
                         ctx.construct(pf, extra='only when the expression '
                                       'holds'),
                         'pause-before pauses although its (evaluated) '
                         'expression is false', ctx.loc(pf))
            if meth.startswith('Timeout'):
                r3.check(U.guarded(pcfg, n, param + ' == 0', False) or
                         U.guarded(pcfg, n, param, True),
                         ctx.construct(pf, extra='no timer for timeout 0'),
                         'a timeout evaluated to 0 (= no timeout) arms a '
                         'timer that fails the task at once', ctx.loc(pf))
            r3.check(not bad, ctx.construct(pf, extra='active when '
                                            'configured'),
                     'the policy effect (%s) is skipped when the policy IS '
                     'configured: %s' % (effect, bad), ctx.loc(pf))

    # ---- R4 policy keys agree ----------------------------------------------------------
    r4 = ctx.rule('R4', 'policy keys agree across schemas, grouping, getters '
                  'and factories', 'AGREE/EXH')
    PS = 'mistral.lang.v2.policies.PoliciesSpec'
    TS = 'mistral.lang.v2.tasks.TaskSpec'
    TD = 'mistral.lang.v2.task_defaults.TaskDefaultsSpec'
    pkeys = schema_keys(prog, PS)
    if len(pkeys) < 7:
        raise AnalysisError('C08.R4: policy keys %s' % pkeys)
    for cls in (TS, TD):
        sk = schema_keys(prog, cls)
        r4.check(pkeys <= sk, cls + ' :: schema has policy keys',
                 'schema lacks policy keys %s' % sorted(pkeys - sk),
                 prog.loc(cls))
        init = prog.func(cls + '.__init__')
        grp = [n for n in own_nodes(init.node) if isinstance(n, ast.Call)
               and U.call_name(n) == '_group_spec']
        got = {a.value for c in grp for a in c.args
               if isinstance(a, ast.Constant)}
        r4.check(bool(grp) and got == pkeys, cls + ' :: _group_spec keys',
                 '_group_spec forwards %s, PoliciesSpec knows %s'
                 % (sorted(got), sorted(pkeys)), ctx.loc(init))
    init = prog.func(PS + '.__init__')
    read = set()
    for n in own_nodes(init.node):
        if isinstance(n, ast.Call) and U.call_name(n) in ('get',
                                                          '_spec_property') \
                and n.args and isinstance(n.args[0], ast.Constant):
            read.add(n.args[0].value)
    r4.check(read == pkeys, PS + ' :: constructor reads every key',
             'constructor reads %s, schema has %s'
             % (sorted(read), sorted(pkeys)), ctx.loc(init))
    facs = prog.func(POL + '.get_policy_factories')
    names = []
    for n in own_nodes(facs.node):
        if isinstance(n, ast.List):
            names = [dotted(e) for e in n.elts]
    getters = set()
    for nm in names:
        ff = prog.func(POL + '.' + nm)
        for x in own_nodes(ff.node):
            if isinstance(x, ast.Call) and isinstance(x.func, ast.Attribute) \
                    and dotted(x.func.value) == 'policies_spec' and \
                    x.func.attr.startswith('get_'):
                getters.add(x.func.attr[4:].replace('_', '-'))
    r4.check(getters == pkeys, POL + '.get_policy_factories :: coverage',
             'factories cover %s, language has %s'
             % (sorted(getters), sorted(pkeys)), ctx.loc(facs))
    # (the task-defaults fall-back is decided by the table of R11)

    # ---- R5 delays and validation -----------------------------------------------------------
    r5 = ctx.rule('R5', 'jobs are delayed by the evaluated policy delay; '
                  'hooks evaluate and validate their fields', 'AGREE')
    n_jobs = 0
    for q, f2 in sorted(prog.funcs.items()):
        if not q.startswith(POL + '.') or f2.cls is None:
            continue
        for n in own_nodes(f2.node):
            if isinstance(n, ast.Call) and U.call_name(n) == 'SchedulerJob':
                n_jobs += 1
                ra = U.kwarg(n, 'run_after')
                r5.check(ra is not None and norm(ra) == 'self.delay',
                         ctx.construct(f2, extra='run_after'),
                         'job delay is %s, expected the policy delay'
                         % (norm(ra) if ra is not None else None),
                         ctx.loc(f2, n))
    if n_jobs < 4:
        raise AnalysisError('C08.R5: only %d policy jobs' % n_jobs)
    base = 'mistral.engine.base.TaskPolicy'
    for hook in ('before_task_start', 'after_task_complete'):
        bf = prog.func(base + '.' + hook)
        cfgb = ctx.cfg(bf)
        a = U.calls_in(cfgb, 'evaluate_object_fields')
        b = U.calls_in(cfgb, '_validate')
        r5.check(bool(a) and bool(b) and cfgb.dominates(a[0][0], b[0][0]),
                 ctx.construct(bf), 'base hook does not evaluate fields '
                 'and then validate them', ctx.loc(bf))
        for sub in sorted(prog.all_subclasses(base)):
            sf = prog.funcs.get(sub + '.' + hook)
            if sf is None:
                continue
            body = [s for s in sf.node.body
                    if not (isinstance(s, ast.Expr) and
                            isinstance(s.value, ast.Constant)) and
                    not U.is_log_stmt(s)]
            if len(body) == 1 and isinstance(body[0], ast.Pass):
                r5.ok(ctx.construct(sf, extra='no-op'), 'no-op hook')
                continue
            first = body[0] if body else None
            ok = isinstance(first, ast.Expr) and \
                isinstance(first.value, ast.Call) and \
                'super(' in norm(first.value) and \
                U.call_name(first.value) == hook
            r5.check(ok, ctx.construct(sf, extra='calls super first'),
                     'policy hook does not start with super().%s(task): '
                     'its fields are used unevaluated / unvalidated' % hook,
                     ctx.loc(sf))


def _callbacks_rule(ctx):
    """The scheduler callbacks of the delay policies run once: resume only
    re-dispatches IDLE tasks and completed-unprocessed tasks, never a
    DELAYED one.  A callback that returns without acting (e.g. because the
    workflow is paused at that moment) loses the task and everything
    behind it."""
    prog = ctx.prog
    r7 = ctx.rule('R7', 'the one-shot callbacks of wait-before / wait-after '
                  '/ retry act unconditionally (a postponed task is never '
                  'dropped)', 'GD-exact')
    for fn, call in (('_continue_task', 'continue_task'),
                     ('_complete_task', 'complete_task')):
        f = prog.func(POL + '.' + fn)
        cfg = ctx.cfg(f)
        sites = U.calls_in(cfg, call)
        if len(sites) != 1:
            raise AnalysisError('C08.R7: %s no longer calls %s' % (fn, call))
        n, c = sites[0]
        facts = [(norm(a), t) for a, t in U.guard_atoms(cfg, n)]
        inside = bool(U.inside_with(cfg, n, 'db_api.transaction',
                                    'transaction'))
        r7.check(not facts and inside, ctx.construct(f, c),
                 'the callback acts only under %s: when the condition does '
                 'not hold at the moment the job fires nothing ever '
                 'continues / completes the postponed task again'
                 % facts, ctx.loc(f, c))
        arg = norm(c.args[0]) if c.args else None
        ld = [x for x in own_nodes(f.node) if isinstance(x, ast.Assign) and
              dotted(x.targets[0]) == arg]
        r7.check(len(ld) == 1 and U.phas(
            ld[0].value, 'db_api.load_task_execution(%s)' % f.params[0]),
            ctx.construct(f, extra='the task named by the job'),
            'the callback does not act on the task execution the job was '
            'scheduled for', ctx.loc(f))


def _hooks_rule(ctx):
    from mstatic.rules import shared
    r6 = ctx.rule('R6', 'every configured policy gets its before-start / '
                  'after-complete hook', 'EXH')
    shared.policy_hooks_total(ctx, r6)
    r6.floor(4)


def _recheck_between(cfg, a, b):
    """Some test node mentioning the task state lies on every path a->b."""
    tests = [x for x in cfg.nodes if x.kind == 'test' and
             'self.task_ex.state' in norm(x.ast)]
    if not tests:
        return False
    starts = [s for s, k in a.succ if k != 'exc']
    r = cfg.reach(starts, avoid=tests, follow_exc=False)
    return not any(x is b for x in r)
