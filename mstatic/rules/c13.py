"""C13 - scheduled jobs run once, not early, survive crashes, only if
committed."""
import ast

from mstatic import qshape
from mstatic.core import AnalysisError, dotted, norm, own_nodes
from mstatic.rules import util as U
from mstatic.rules.c06 import sig

DS = 'mistral.scheduler.default_scheduler.DefaultScheduler'
LS = 'mistral.services.legacy_scheduler.LegacyScheduler'
DB = 'mistral.db.v2.sqlalchemy.api'


def job_descriptors(ctx, rule, need_post_tx=True):
    """Every SchedulerJob(...) names an importable module-level function
    whose parameters match func_args."""
    prog, cg = ctx.prog, ctx.cg
    if len(cg.sched_sites) < 8:
        raise AnalysisError('only %d SchedulerJob sites found'
                            % len(cg.sched_sites))
    for (q, path, args, call) in cg.sched_sites:
        f = prog.funcs[q]
        cons = ctx.construct(f, extra='SchedulerJob(%s)' % path)
        if not path:
            rule.fail(cons, 'func_name does not fold to a constant dotted '
                      'path', ctx.loc(f, call))
            continue
        tf = prog.funcs.get(path)
        if tf is None or tf.cls is not None or tf.parent is not None:
            rule.fail(cons, 'func_name %r does not resolve to a module-level '
                      'function: the scheduler thread would fail to import '
                      'it and the continuation is lost' % path,
                      ctx.loc(f, call))
            continue
        s = sig(tf)
        probs = []
        keys = args or []
        for k in keys:
            if k not in s['pos'] and k not in s['kwonly'] and not s['varkw']:
                probs.append('argument %r is not a parameter of %s'
                             % (k, tf.name))
        for r in s['required']:
            if r not in keys:
                probs.append('required parameter %r is not in func_args' % r)
        if need_post_tx:
            if not tf.has_decorator('run'):
                probs.append('target is not decorated with '
                             '@post_tx_queue.run')
            if not any(isinstance(n, ast.With) and
                       'transaction' in ast.unparse(n.items[0].context_expr)
                       for n in ast.walk(tf.node)):
                probs.append('target does not open its own transaction')
        rule.check(not probs, cons, '; '.join(probs), ctx.loc(f, call),
                   'target %s%s' % (path, tuple(keys)))


def run(ctx):
    prog, sd = ctx.prog, ctx.sd

    # ---- R1 capture is a CAS -------------------------------------------------
    r1 = ctx.rule('R1', 'capturing a job is a compare-and-swap on the value '
                  'that was read', 'GD')
    from mstatic.rules import shared as _shc
    _shc.cas_primitive_reports_loss(ctx, r1)
    _shc.facade_forwards_parameters(ctx, r1, names={
        'update_scheduled_job', 'get_scheduled_jobs_to_start',
        'delete_scheduled_job', 'get_scheduled_jobs_count'})
    cj = prog.func(DS + '._capture_scheduled_job')
    cfg = ctx.cfg(cj)
    up = U.calls_in(cfg, 'update_scheduled_job')
    if len(up) != 1:
        raise AnalysisError('C13.R1: update_scheduled_job call lost')
    n, c = up[0]
    qf = U.kwarg(c, 'query_filter')
    ok = isinstance(qf, ast.Dict) and len(qf.keys) == 1 and \
        isinstance(qf.keys[0], ast.Constant) and \
        qf.keys[0].value == 'captured_at' and \
        norm(qf.values[0]) == 'scheduled_job.captured_at'
    r1.check(ok, ctx.construct(cj, extra='query_filter'),
             'capture does not filter on the captured_at value that was '
             'read from the job', ctx.loc(cj, c))
    vals = U.kwarg(c, 'values')
    r1.check(isinstance(vals, ast.Dict) and any(
        isinstance(k, ast.Constant) and k.value == 'captured_at'
        for k in vals.keys), ctx.construct(cj, extra='sets captured_at'),
        'capture does not set captured_at', ctx.loc(cj, c))
    rets = [x for x in own_nodes(cj.node) if isinstance(x, ast.Return)]
    r1.check(len(rets) == 1 and norm(rets[0].value) in (
        'updated_cnt == 1', '1 == updated_cnt'),
        ctx.construct(cj, extra='returns CAS result'),
        'capture result is not "exactly one row updated"', ctx.loc(cj))
    mem = [st for t, st in U.attr_stores(cj.node)
           if t.attr == 'captured_at']
    r1.check(all(U.guarded(cfg, cfg.stmt_node(st), 'updated_cnt == 1', True)
                 for st in mem), ctx.construct(cj, extra='in-memory mark '
                                               'only when captured'),
             'the in-memory job is marked captured although the CAS was '
             'lost (has_scheduled_jobs would report it as being processed)',
             ctx.loc(cj))
    # assignment of updated_cnt from the CAS call
    r1.check(any(isinstance(x, ast.Assign) and x.value is c and
                 isinstance(x.targets[0], ast.Tuple) and
                 dotted(x.targets[0].elts[-1]) == 'updated_cnt'
                 for x in own_nodes(cj.node)),
             ctx.construct(cj, extra='count from the CAS'),
             'updated_cnt is not the count returned by the CAS',
             ctx.loc(cj))
    us = prog.func(DB + '.update_scheduled_job')
    cfg = ctx.cfg(us)
    uom = U.calls_in(cfg, 'update_on_match')
    ok = False
    for n, c in uom:
        ok = U.guarded(cfg, n, 'query_filter', True)
    ok = ok and U.plain_update_only_without_filter(cfg)
    spec = [x for x in own_nodes(us.node) if isinstance(x, ast.Call) and
            U.call_name(x) == 'ScheduledJob' and
            any(k.arg is None and dotted(k.value) == 'query_filter'
                for k in x.keywords)]
    r1.check(ok and bool(spec), ctx.construct(us, extra='filter => '
                                              'update_on_match'),
             'a non-empty query_filter does not become an update_on_match '
             'with the filter in the specimen', ctx.loc(us))
    # NoRowsMatched => count 0
    ok = False
    for t in ast.walk(us.node):
        if isinstance(t, ast.Try):
            for h in t.handlers:
                if any('NoRowsMatched' in x for x in U.handler_types(h)):
                    ok = any(isinstance(x, ast.Return) and
                             norm(x.value) == '(None, 0)'
                             for x in ast.walk(h))
    r1.check(ok, ctx.construct(us, extra='lost CAS => 0'),
             'a lost CAS does not return count 0', ctx.loc(us))
    lc = prog.func(LS + '._capture_calls')
    cfg = ctx.cfg(lc)
    up = U.calls_in(cfg, 'update_delayed_call')
    ok = False
    for n, c in up:
        qf = U.kwarg(c, 'query_filter')
        vals = U.kwarg(c, 'values')
        ok = qf is not None and norm(qf) == "{'processing': False}" and \
            vals is not None and norm(vals) == "{'processing': True}"
    app = [(n, c) for n, c in U.calls_in(cfg, 'append')]
    okg = False
    for n, c in app:
        okg = okg or U.guarded(cfg, n, 'updated_cnt == 1', True)
    r1.check(ok and okg, ctx.construct(lc, extra='legacy capture'),
             'legacy capture is not a CAS on processing=False whose result '
             'gates the call', ctx.loc(lc))

    # ---- R2 order: capture -> invoke -> delete ---------------------------------
    r2 = ctx.rule('R2', 'invoke only after a successful capture; delete '
                  'follows invoke', 'GD/PAIR')
    pm = prog.func(DS + '._process_memory_job')
    cfg = ctx.cfg(pm)
    inv = U.calls_in(cfg, '_invoke_job')
    dele = U.calls_in(cfg, '_delete_scheduled_job')
    if not inv or not dele:
        raise AnalysisError('C13.R2: _process_memory_job structure lost')
    for n, c in inv:
        ok = U.guarded(cfg, n, 'self._capture_scheduled_job(__j)', True)
        r2.check(ok, ctx.construct(pm, c),
                 'the job is invoked without a successful capture',
                 ctx.loc(pm, c))
        r2.check(cfg.must_pass(n, [d for d, _c in dele]),
                 ctx.construct(pm, extra='delete after invoke'),
                 'a normal path after the invocation does not delete the '
                 'job (it would run again after the capture timeout)',
                 ctx.loc(pm, c))
        r2.check(not any(cfg.paths_between(d, n) for d, _c in dele),
                 ctx.construct(pm, extra='no delete before invoke'),
                 'the job is deleted before it is invoked (lost on a crash '
                 'in between)', ctx.loc(pm, c))
    ps = prog.func(DS + '._process_store_jobs')
    cfg = ctx.cfg(ps)
    inv = U.calls_in(cfg, '_invoke_job')
    dele = U.calls_in(cfg, '_delete_scheduled_job')
    comp = [x for x in own_nodes(ps.node) if isinstance(x, ast.ListComp) and
            any(isinstance(i, ast.Call) and
                U.call_name(i) == '_capture_scheduled_job'
                for g in x.generators for cnd in g.ifs
                for i in ast.walk(cnd))]
    loops = [x for x in own_nodes(ps.node) if isinstance(x, ast.For) and
             dotted(x.iter) == 'captured_jobs']
    ok = bool(comp) and bool(loops) and any(
        isinstance(x, ast.Assign) and dotted(x.targets[0]) == 'captured_jobs'
        and x.value is comp[0] for x in own_nodes(ps.node))
    r2.check(ok and inv and dele and all(
        any(x is c for x in ast.walk(loops[0])) for _n, c in inv + dele),
        ctx.construct(ps, extra='only captured jobs'),
        'store jobs are invoked without passing the capture filter',
        ctx.loc(ps))
    # every due job of the store is tried: the capture is the only filter
    # and it is applied to everything the query returned (a job this
    # instance also holds in memory is not skipped - if its dispatcher never
    # gets to it, nobody else would run it)
    okall = False
    if comp:
        g = comp[0].generators[0]
        cands = [x for x in own_nodes(ps.node) if isinstance(x, ast.Assign)
                 and dotted(x.targets[0]) == dotted(g.iter) and
                 isinstance(x.value, ast.Call) and
                 U.call_name(x.value) == 'get_scheduled_jobs_to_start']
        okall = len(comp[0].generators) == 1 and len(g.ifs) == 1 and \
            isinstance(g.ifs[0], ast.Call) and \
            U.call_name(g.ifs[0]) == '_capture_scheduled_job' and \
            [norm(a) for a in g.ifs[0].args] == [norm(g.target)] and \
            norm(comp[0].elt) == norm(g.target) and len(cands) == 1
    r2.check(okall, ctx.construct(ps, extra='every due job is tried'),
             'the jobs returned by the store query are filtered by something '
             'other than the capture itself: a committed, due, uncaptured '
             'job can be skipped on every poll', ctx.loc(ps))
    if inv and dele:
        r2.check(cfg.must_pass(inv[0][0], [d for d, _c in dele],
                               exits=[cfg.exit] + [x for x in cfg.nodes
                                                   if x.kind == 'for']),
                 ctx.construct(ps, extra='delete after invoke'),
                 'store job not deleted after invocation', ctx.loc(ps))
    lp = prog.func(LS + '._process_delayed_calls')
    cfg = ctx.cfg(lp)
    seq = []
    for nm in ('_capture_calls', '_prepare_calls', '_invoke_calls',
               'delete_calls'):
        got = U.calls_in(cfg, nm)
        if not got:
            raise AnalysisError('C13.R2: legacy %s lost' % nm)
        seq.append(got[0][0])
    ok = all(cfg.dominates(a, b) for a, b in zip(seq, seq[1:]))
    r2.check(ok, ctx.construct(lp, extra='capture, prepare, invoke, delete'),
             'legacy scheduler does not process calls in the order capture '
             '-> prepare -> invoke -> delete', ctx.loc(lp))

    # ---- R3 not early --------------------------------------------------------------
    r3 = ctx.rule('R3', 'a job is never taken before its time', 'GD/QSHAPE')
    dp = prog.func(DS + '._dispatcher')
    cfg = ctx.cfg(dp)
    pops = [(n, c) for n, c in cfg.calls(
        lambda c: U.call_name(c) in ('heappop', 'submit'))]
    if len(pops) < 2:
        raise AnalysisError('C13.R3: heappop/submit lost in _dispatcher')
    for n, c in pops:
        ok = U.guarded(cfg, n, 'delay > 0', False)
        r3.check(ok, ctx.construct(dp, c),
                 '%s is not dominated by "delay > 0 is false"'
                 % U.call_name(c), ctx.loc(dp, c))
    dl = [x for x in own_nodes(dp.node) if isinstance(x, ast.Assign) and
          dotted(x.targets[0]) == 'delay']
    r3.check(len(dl) == 1 and norm(dl[0].value).startswith(
        '(execute_at - utils.utc_now_sec())'),
        ctx.construct(dp, extra='delay = execute_at - now'),
        'delay is not execute_at - now', ctx.loc(dp))
    ea = [x for x in own_nodes(dp.node) if isinstance(x, ast.Assign) and
          dotted(x.targets[0]) == 'execute_at']
    r3.check(len(ea) == 1 and norm(ea[0].value) == 'self._heap[0][0]',
             ctx.construct(dp, extra='head of the heap'),
             'execute_at is not taken from the head of the heap', ctx.loc(dp))
    sm = prog.func(DS + '._schedule_in_memory')
    r3.check(any(isinstance(x, ast.Call) and U.call_name(x) == 'heappush' and
                 len(x.args) == 2 and isinstance(x.args[1], ast.Tuple) and
                 norm(x.args[1].elts[0]) == 'scheduled_job.execute_at'
                 for x in own_nodes(sm.node)),
             ctx.construct(sm, extra='heap ordered by execute_at'),
             'heap entries are not ordered by execute_at', ctx.loc(sm))
    pj = prog.func(DS + '._persist_job')
    r3.check(any(isinstance(x, ast.Assign) and
                 dotted(x.targets[0]) == 'execute_at' and
                 'utc_now_sec()' in norm(x.value) and
                 'seconds=job.run_after' in norm(x.value) and
                 isinstance(x.value, ast.BinOp) and
                 isinstance(x.value.op, ast.Add)
                 for x in own_nodes(pj.node)),
             ctx.construct(pj, extra='execute_at = now + run_after'),
             'execute_at is not now + run_after', ctx.loc(pj))
    gs = prog.func(DB + '.get_scheduled_jobs_to_start')
    cfg = ctx.cfg(gs)
    ops, base, rets = qshape.query_ops(cfg, gs.node)
    flt = [o for o in ops if o.name == 'filter' and o.always]
    t_ok = any(isinstance(o.call.args[0], ast.Compare) and
               isinstance(o.call.args[0].ops[0], (ast.Lt, ast.LtE)) and
               U.phas(U.inline_locals(gs.node, o.call.args[0].left),
                      '___.ScheduledJob.execute_at') and
               norm(o.call.args[0].comparators[0]).startswith('time - ')
               for o in flt if o.call.args)
    r3.check(t_ok, ctx.construct(gs, extra='execute_at < time - pickup'),
             'store poll does not filter execute_at < time - pickup '
             'interval on every path', ctx.loc(gs))
    gd = prog.func(DB + '.get_delayed_calls_to_start')
    cfg = ctx.cfg(gd)
    ops, base, rets = qshape.query_ops(cfg, gd.node)
    alw = [o.call for o in ops if o.always]
    r3.check(any(U.phas(c, '___.execution_time < time') for c in alw) and
             any(U.phas(c, '___.filter_by(processing=False)') or
                 U.phas(c, '___.processing == False') for c in alw),
             ctx.construct(gd, extra='legacy time/processing filters'),
             'legacy poll lacks execution_time < time or processing filter',
             ctx.loc(gd))

    # ---- R4 recovery ------------------------------------------------------------------
    r4 = ctx.rule('R4', 'jobs captured longer than the timeout ago are '
                  'picked up again', 'QSHAPE')
    cfg = ctx.cfg(gs)
    ops, base, rets = qshape.query_ops(cfg, gs.node)
    ok = False
    for o in ops:
        if o.name == 'filter' and o.always and o.call.args and \
                isinstance(o.call.args[0], ast.Call) and \
                U.call_name(o.call.args[0]) == 'or_':
            parts = [U.inline_locals(gs.node, a)
                     for a in o.call.args[0].args]
            ok = len(parts) == 2 and any(
                U.phas(p, '___.ScheduledJob.captured_at == sa.null()') or
                U.phas(p, '___.ScheduledJob.captured_at.is_(None)')
                for p in parts) and any(
                U.phas(p, '___.ScheduledJob.captured_at <= min_captured_at')
                or U.phas(p, '___.ScheduledJob.captured_at < min_captured_at')
                for p in parts)
    r4.check(ok, ctx.construct(gs, extra='uncaptured OR timed out'),
             'poll does not select "captured_at IS NULL OR captured_at <= '
             'now - captured_job_timeout"', ctx.loc(gs))
    mc = [x for x in own_nodes(gs.node) if isinstance(x, ast.Assign) and
          dotted(x.targets[0]) == 'min_captured_at']
    r4.check(len(mc) == 1 and isinstance(mc[0].value, ast.BinOp) and
             isinstance(mc[0].value.op, ast.Sub) and
             'captured_job_timeout' in norm(mc[0].value),
             ctx.construct(gs, extra='min_captured_at'),
             'min_captured_at is not now - captured_job_timeout',
             ctx.loc(gs))

    # ---- R5 only if committed -------------------------------------------------------------
    r5 = ctx.rule('R5', 'schedule() never opens or commits a transaction; '
                  'it persists before enqueueing in memory', 'WMW-reach')
    cg = ctx.cg
    tx_funcs = set()
    for q, f in prog.funcs.items():
        for n in own_nodes(f.node):
            if isinstance(n, ast.Call) and U.call_name(n) in (
                    'transaction', 'commit_tx', 'start_tx', 'commit') and \
                    not q.startswith('mistral.db.'):
                tx_funcs.add(q)
    for cls in (DS, LS):
        root = cls + '.schedule'
        prog.func(root)
        parents = {}
        reach = cg.reach_forward({root}, kinds=('call', 'nested'),
                                 parents=parents)
        bad = sorted(reach & tx_funcs)
        r5.check(not bad, root + ' :: no transaction',
                 'schedule() reaches transaction control in %s: the job '
                 'would be committed (and run) even if the caller rolls '
                 'back' % bad[:3], prog.loc(root))
    sc = prog.func(DS + '.schedule')
    cfg = ctx.cfg(sc)
    a = U.calls_in(cfg, '_persist_job')
    b = U.calls_in(cfg, '_schedule_in_memory')
    r5.check(bool(a) and bool(b) and cfg.dominates(a[0][0], b[0][0]) and
             any(isinstance(x, ast.Name) and x.id == 'scheduled_job'
                 for x in b[0][1].args),
             ctx.construct(sc, extra='persist then enqueue'),
             'the job is enqueued in memory before / without being '
             'persisted in the caller transaction', ctx.loc(sc))
    r5.check(any(isinstance(x, ast.Return) and
                 'create_scheduled_job' in norm(x.value)
                 for x in own_nodes(pj.node)),
             ctx.construct(pj, extra='row written'),
             '_persist_job no longer writes the job row', ctx.loc(pj))

    # ---- R6 job descriptors -----------------------------------------------------------------
    r6 = ctx.rule('R6', 'every SchedulerJob resolves to a function with '
                  'matching parameters, post_tx_queue.run and its own '
                  'transaction', 'AGREE')
    r6.floor(8)
    job_descriptors(ctx, r6)

    # ---- R9 "only if committed" rests on the transaction demarcation ---------------------
    r9 = ctx.rule('R9', 'a job row written inside transaction() is '
                  'committed exactly when the body returned normally, and '
                  'rolled back with it otherwise', 'GD/PAIR')
    from mstatic.rules import txqueue
    txqueue.transaction_shape(ctx, r9)

    # ---- R10 what is invoked is what was stored -------------------------------------------
    r10 = ctx.rule('R10', 'a job invokes the function, arguments and '
                   'security context stored in its row, unconditionally',
                   'AGREE/GD')
    job_invocation(ctx, r10)

    # ---- R11 the retry decorator sees the errors it is there for ---------------------
    r11 = ctx.rule('R11', 'no broad exception handler swallows DB errors '
                   'inside a function decorated with retry_on_db_error '
                   '(e.g. the delete of a finished job)', 'GD (handlers)')
    from mstatic.rules import shared as _sh
    _sh.retry_not_defeated(ctx, r11)
    _sh.retried_functions_rerunnable(ctx, r11)

    # ---- R12 the polling threads and batches survive a failing item -------------------
    r12 = ctx.rule('R12', 'a failing iteration does not end a polling '
                   'thread; a failing call does not end its batch',
                   'GD (handlers)')
    from mstatic.rules import shared as _sh2
    _sh2.service_loops_survive(ctx, r12, which=('scheduler',))
    _sh2.batch_items_isolated(
        ctx, r12, 'mistral.services.legacy_scheduler.LegacyScheduler.'
        '_invoke_calls',
        lambda c: isinstance(c.func, ast.Name) and
        c.func.id == 'target_method', 'legacy delayed calls')

    # ---- R8 guarded-by -----------------------------------------------------------------------
    r8 = ctx.rule('R8', 'in-memory job structures are accessed only under '
                  'the scheduler condition lock', 'lock discipline')
    guarded_fields(ctx, r8)

    # ---- R7 pending jobs by key -----------------------------------------------------------------
    r7 = ctx.rule('R7', 'has_scheduled_jobs reports jobs with that key that '
                  'are not being processed', 'GD')
    hs = prog.func(DS + '.has_scheduled_jobs')
    txt = ' '.join(ast.unparse(hs.node).split())
    cfg = ctx.cfg(hs)
    loops = [x for x in own_nodes(hs.node) if isinstance(x, ast.For)]
    ok = bool(loops)
    conts = [x for x in cfg.nodes if x.kind == 'stmt' and
             isinstance(x.ast, ast.Continue)]
    key_ok = proc_ok = False
    for x in conts:
        if U.guarded(cfg, x, "filters['key'] == __j.key", False) and \
                U.guarded(cfg, x, "'key' in filters", True):
            key_ok = True
        if U.guarded(cfg, x, "filters['processing'] is "
                     "(__j.captured_at is None)", True) and \
                U.guarded(cfg, x, "'processing' in filters", True):
            proc_ok = True
    # ... and a job is reported as found only when it passed both filters:
    # every path from the loop head to the in-loop `return True` goes
    # through a branch edge that establishes "no such filter" or "matches"
    found = [x for x in cfg.nodes if x.kind == 'stmt' and
             isinstance(x.ast, ast.Return) and
             x.ast.value is not None and norm(x.ast.value) == 'True' and
             loops and any(y is x.ast for y in ast.walk(loops[0]))]
    heads = [x for x in cfg.nodes if x.kind == 'for']

    def established(*facts):
        out = []
        for pat, truth in facts:
            out += U.nodes_where(cfg, pat, truth)
        return out
    if found and heads:
        kfacts = established(
            ("filters and 'key' in filters and filters['key'] != __j.key",
             False), ("'key' in filters", False), ('filters', False),
            ("filters['key'] == __j.key", True))
        pfacts = established(
            ("filters and 'processing' in filters", False),
            ("'processing' in filters", False), ('filters', False),
            ("filters['processing'] is (__j.captured_at is None)", False))
        key_ok = key_ok and all(cfg.must_pass(heads[0], kfacts, exits=[x])
                                for x in found)
        proc_ok = proc_ok and all(cfg.must_pass(heads[0], pfacts, exits=[x])
                                  for x in found)
    else:
        key_ok = proc_ok = False
    r7.check(ok and key_ok, ctx.construct(hs, extra='key filter'),
             'in-memory jobs with another key are not skipped', ctx.loc(hs))
    r7.check(ok and proc_ok, ctx.construct(hs, extra='processing filter'),
             'in-memory jobs are not filtered on processing <=> captured',
             ctx.loc(hs))
    r7.check(U.phas(hs.node, "{('neq' if processing else 'eq'): None}") and
             U.phas(hs.node, '___.get_scheduled_jobs_count(**filters) > 0'),
             ctx.construct(hs, extra='store filter'),
             'store query does not translate processing into captured_at '
             'neq/eq None', ctx.loc(hs))
    # the translation happens exactly when the caller asked for it, and
    # the store is asked with what is left
    tr = [x for x in cfg.nodes if x.kind == 'stmt' and
          isinstance(x.ast, ast.Assign) and
          isinstance(x.ast.targets[0], ast.Subscript) and
          norm(x.ast.targets[0].slice) == "'captured_at'"]
    pops = [n_ for n_, c in cfg.calls(
        lambda c: U.call_name(c) == 'pop' and c.args and
        norm(c.args[0]) == "'processing'")]
    okt = len(tr) == 1 and len(pops) == 1
    for x in tr + pops:
        okt = okt and U.guarded(cfg, x, "'processing' in filters", True) \
            and U.only_guards(cfg, x, [('filters', True),
                                       ("'processing' in filters", True)])
    cnt = [n_ for n_, c in cfg.calls(
        lambda c: U.call_name(c) == 'get_scheduled_jobs_count')]
    okt = okt and len(cnt) == 1 and not [
        (a, t_) for a, t_ in U.guard_atoms(cfg, cnt[0])] and \
        all(cfg.reach([x], stop=()) and cnt[0] in cfg.reach([x])
            for x in tr)
    r7.check(okt, ctx.construct(hs, extra='translated when asked for'),
             'the processing filter is not turned into the captured_at '
             'criterion exactly when the caller passed it (or the store is '
             'not asked unconditionally afterwards)', ctx.loc(hs))


def guarded_fields(ctx, rule):
    """Guarded-by: the in-memory job structures of DefaultScheduler are
    touched only while holding self._cond (outside __init__)."""
    prog = ctx.prog
    fields = {'_heap', 'in_memory_jobs', '_seq'}
    n = 0
    for m in prog.methods_of(DS):
        if m.name == '__init__':
            continue
        cfg = ctx.cfg(m)
        for x in cfg.nodes:
            acc = [y for y in cfg.own_nodes(x)
                   if isinstance(y, ast.Attribute) and y.attr in fields and
                   dotted(y.value) == 'self']
            if not acc:
                continue
            n += 1
            held = any('self._cond' in norm(w.ast.items[0].context_expr)
                       for w in cfg.enclosing_withs(x)) or (
                x.kind == 'with' and
                'self._cond' in norm(x.ast.items[0].context_expr))
            rule.check(held, ctx.construct(m, acc[0], extra=x.text()[:40]),
                       'self.%s is accessed without holding self._cond (the '
                       'dispatcher thread, the pool workers and schedule() '
                       'callers share it)' % acc[0].attr, ctx.loc(m, acc[0]))
    if n < 8:
        raise AnalysisError('C13.R8: only %d accesses to the in-memory job '
                            'structures found' % n)


def job_invocation(ctx, rule):
    """What is invoked is what was stored: the function named by the job
    row (through its factory when one is named), with the row's arguments
    (deserialised with the row's serializers) under the row's security
    context; the call itself is unconditional, its failure is contained and
    the context removed afterwards."""
    prog = ctx.prog
    pj = prog.func(DS + '._prepare_job')
    J = pj.params[0]
    rets = [x for x in own_nodes(pj.node) if isinstance(x, ast.Return)]
    ok = len(rets) == 1 and isinstance(rets[0].value, ast.Tuple) and \
        len(rets[0].value.elts) == 3
    if not ok:
        raise AnalysisError('_prepare_job: return shape')
    a_, f_, g_ = [norm(e) for e in rets[0].value.elts]
    defs = {}
    for x in own_nodes(pj.node):
        if isinstance(x, ast.Assign) and isinstance(x.targets[0], ast.Name):
            defs.setdefault(x.targets[0].id, []).append(x)
    cfg = ctx.cfg(pj)
    okf = f_ in defs and len(defs[f_]) == 2
    if okf:
        for x in defs[f_]:
            n = cfg.stmt_node(x)
            facts = [(norm(a), t) for a, t in U.guard_atoms(cfg, n)]
            if U.phas(x.value, 'getattr(__f(), %s.func_name)' % J):
                fac = U.canon_expr(pj.node, x.value)
                okf = okf and facts == [
                    ('%s.target_factory_func_name' % J, True)] and \
                    U.phas(fac, 'importutils.import_class(%s.'
                           'target_factory_func_name)' % J)
            elif U.phas(x.value, 'importutils.import_class(%s.func_name)'
                        % J):
                okf = okf and facts == [
                    ('%s.target_factory_func_name' % J, False)]
            else:
                okf = False
    rule.check(okf, ctx.construct(pj, extra='function named by the row'),
               'the function invoked is not the one named by the job row '
               '(import of func_name, or that attribute of the row\'s '
               'factory when one is named)', ctx.loc(pj))
    oka = a_ in defs and len(defs[a_]) == 1 and U.phas(
        defs[a_][0].value, 'copy.deepcopy(%s.auth_ctx)' % J) and \
        g_ in defs and any(U.phas(x.value, 'copy.deepcopy(%s.func_args)' % J)
                           for x in defs[g_])
    rule.check(oka, ctx.construct(pj, extra='the row\'s context and '
                                  'arguments'),
               'the security context / arguments handed to the invocation '
               'are not (copies of) the ones stored with the job',
               ctx.loc(pj))
    # ... and what _persist_job stored as the context is always something
    # deserialize_context can take (it calls .pop on it): the serialised
    # context, or an empty dict when the caller had none
    sj = prog.func(DS + '._persist_job')
    vals = None
    for x in own_nodes(sj.node):
        if isinstance(x, ast.Assign) and isinstance(x.value, ast.Dict):
            for k, v in zip(x.value.keys, x.value.values):
                if isinstance(k, ast.Constant) and k.value == 'auth_ctx':
                    vals = v
                    ds = [y.value for y in own_nodes(sj.node)
                          if isinstance(y, ast.Assign) and
                          isinstance(v, ast.Name) and
                          dotted(y.targets[0]) == v.id]
                    if isinstance(v, ast.Name):
                        if len(ds) != 1:
                            raise AnalysisError('_persist_job: %s bound %d '
                                                'times' % (v.id, len(ds)))
                        vals = ds[0]
    if vals is None:
        raise AnalysisError('_persist_job: auth_ctx of the stored row')
    alts = [vals]
    while any(isinstance(a, ast.IfExp) for a in alts):
        alts = [b for a in alts for b in
                ((a.body, a.orelse) if isinstance(a, ast.IfExp) else (a,))]
    okc = all(isinstance(a, ast.Dict) or
              (isinstance(a, ast.Call) and
               U.call_name(a) == 'serialize_context') for a in alts)
    rule.check(okc, ctx.construct(sj, extra='stored context is a dict'),
               'the security context stored with a job can be something '
               'other than a serialised context / an empty dict: '
               'deserialize_context fails on it before the job function is '
               'called, on every attempt', ctx.loc(sj))
    # ... and every attribute of the context survives the round trip
    # through the job row
    from mstatic.rules import shared as _shx
    _shx.context_round_trip(ctx, rule)
    des = [c for c in own_nodes(pj.node) if isinstance(c, ast.Call) and
           U.call_name(c) == 'deserialize']
    stores = [x for x in own_nodes(pj.node) if isinstance(x, ast.Assign) and
              isinstance(x.targets[0], ast.Subscript) and
              norm(x.targets[0].value) == g_]
    okd = len(des) == 1 and len(stores) == 1 and \
        norm(des[0].args[0]) == norm(stores[0].targets[0]) and \
        U.phas(U.canon_expr(pj.node, stores[0].value),
               '___.deserialize(%s)' % norm(stores[0].targets[0]))
    rule.check(okd, ctx.construct(pj, extra='serialized arguments '
                                  'deserialised in place'),
               'an argument stored in serialised form is not replaced by '
               'its deserialised value under the same name', ctx.loc(pj))
    ij = prog.func(DS + '._invoke_job')
    icfg = ctx.cfg(ij)
    P = ij.params
    calls = [(n, c) for n, c in icfg.calls(
        lambda c: isinstance(c.func, ast.Name) and c.func.id == P[1])]
    des = U.calls_in(icfg, 'deserialize_context')
    clr = [(n, c) for n, c in U.calls_in(icfg, 'set_ctx')
           if c.args and isinstance(c.args[0], ast.Constant) and
           c.args[0].value is None]
    oki = len(calls) == 1 and len(des) == 1 and bool(clr)
    if oki:
        n, c = calls[0]
        kw = [k for k in c.keywords if k.arg is None]
        oki = not U.guard_atoms(icfg, n) and len(kw) == 1 and \
            norm(kw[0].value) == P[2] and not c.args and \
            icfg.dominates(des[0][0], n) and \
            [norm(a) for a in des[0][1].args] == [P[0]]
        trys = [t for t in own_nodes(ij.node) if isinstance(t, ast.Try) and
                any(x is c for b in t.body for x in ast.walk(b))]
        oki = oki and len(trys) == 1 and any(
            U.handler_types(h)[0].split('.')[-1] in ('Exception',
                                                     'BaseException')
            and not any(isinstance(x, ast.Raise) for s_ in h.body
                        for x in ast.walk(s_))
            for h in trys[0].handlers) and all(
            any(x is cc for s_ in trys[0].finalbody for x in ast.walk(s_))
            for _n, cc in clr)
    rule.check(oki, ctx.construct(ij, extra='call with the stored '
                                  'arguments, contained, context removed'),
               '_invoke_job does not call the function with **args under '
               'the deserialised context unconditionally, contain its '
               'failure and remove the context in a finally', ctx.loc(ij))
    # both processing paths hand _prepare_job's triple to _invoke_job
    n_p = 0
    for name in ('_process_memory_job', '_process_store_jobs'):
        g = prog.func(DS + '.' + name)
        gcfg = ctx.cfg(g)
        pr = [c for _n, c in U.calls_in(gcfg, '_prepare_job')]
        iv = [c for _n, c in U.calls_in(gcfg, '_invoke_job')]
        if not pr or not iv:
            raise AnalysisError('%s: prepare / invoke not found' % name)
        for c in iv:
            n_p += 1
            tgt = [x.targets[0] for x in own_nodes(g.node)
                   if isinstance(x, ast.Assign) and x.value in pr]
            okp = bool(tgt) and isinstance(tgt[0], ast.Tuple) and \
                [norm(e) for e in tgt[0].elts] == [norm(a) for a in c.args]
            rule.check(okp, ctx.construct(g, c, extra='prepared triple'),
                       'the invocation does not receive (context, function, '
                       'arguments) as prepared from the job row, in that '
                       'order', ctx.loc(g, c))
    return 4 + n_p
