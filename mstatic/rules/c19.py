"""C19 - outbound HTTP from workflows cannot reach denied networks."""
import ast
import ipaddress

from mstatic.core import AnalysisError, NotConst, dotted, norm, own_nodes
from mstatic.rules import util as U

EG = 'mistral.utils.egress'

HTTP_CALLS = {'request', 'get', 'post', 'put', 'delete', 'head', 'patch',
              'options', 'urlopen', 'send'}
# modules whose outbound HTTP is operator-configured, not workflow-controlled
EXEMPT_MODULES = {
    'mistral.auth.keycloak': 'OIDC endpoint configured by the operator',
    'mistral.utils.openstack.keystone': 'Keystone endpoint (service config)',
}


def http_client_calls(prog):
    out = []
    for q, f in sorted(prog.funcs.items()):
        imp = prog.imports.get(f.module, {})
        for n in own_nodes(f.node):
            if not isinstance(n, ast.Call) or \
                    not isinstance(n.func, ast.Attribute):
                continue
            d = dotted(n.func.value)
            if d is None:
                continue
            root = d.split('.')[0]
            full = imp.get(root, '')
            if n.func.attr in HTTP_CALLS and (
                    full == 'requests' or full.startswith('requests.') or
                    full.startswith('urllib.request') or
                    full.startswith('http.client') or
                    full.startswith('urllib3')):
                out.append((f, n))
    return out


def addresses_canonical(ctx, rule):
    """Typestate over every address object built in the egress module:
    between `ipaddress.ip_address(...)` and the first use of the value as a
    member of the candidate set (return / append / yield / `in <network>`)
    the IPv4-mapped form is looked at (`.ipv4_mapped`).  Holds wherever the
    construction lives (validate_url itself or a helper it delegates to),
    including "fast paths" for address literals."""
    prog = ctx.prog
    n = 0
    for f in prog.funcs_in_module(EG):
        cfg = ctx.cfg(f)
        for nd, c in cfg.calls(lambda c: U.call_name(c) == 'ip_address'):
            n += 1
            st = nd.ast
            var = None
            if isinstance(st, ast.Assign) and st.value is c and \
                    isinstance(st.targets[0], ast.Name):
                var = st.targets[0].id
            if var is None:
                rule.fail(ctx.construct(f, c, extra='address used without '
                                        'canonicalisation'),
                          'an address object is handed on as constructed '
                          '(%s): an IPv4-mapped IPv6 literal such as '
                          '[::ffff:169.254.169.254] is compared as an IPv6 '
                          'address and matches no denied IPv4 network'
                          % norm(st, 70), ctx.loc(f, c))
                continue
            looks = [x for x in cfg.nodes if x.ast is not None and any(
                (isinstance(y, ast.Attribute) and y.attr == 'ipv4_mapped' and
                 dotted(y.value) == var) or
                (isinstance(y, ast.Call) and U.call_name(y) == 'getattr' and
                 len(y.args) >= 2 and dotted(y.args[0]) == var and
                 isinstance(y.args[1], ast.Constant) and
                 y.args[1].value == 'ipv4_mapped')
                for y in cfg.own_nodes(x))]
            uses = []
            for x in cfg.reach([s_ for s_, k in nd.succ if k != 'exc'],
                               follow_exc=False):
                if x.ast is None or x in looks:
                    continue
                for y in cfg.own_nodes(x):
                    esc = (isinstance(y, ast.Return) and y.value is not None
                           and var in U.names_in(y.value)) or \
                          (isinstance(y, ast.Call) and
                           U.call_name(y) in ('append', 'add', 'extend')
                           and any(var in U.names_in(a) for a in y.args)) or \
                          (isinstance(y, ast.Compare) and
                           isinstance(y.ops[0], (ast.In, ast.NotIn)) and
                           dotted(y.left) == var) or \
                          (isinstance(y, (ast.Yield,)) and y.value is not None
                           and var in U.names_in(y.value))
                    if esc:
                        uses.append(x)
            bad = [u for u in uses
                   if not any(cfg.dominates(l_, u) for l_ in looks)]
            rule.check(not bad, ctx.construct(f, c, extra='unwrapped before '
                                              'use'),
                       'the address built here reaches %s without its '
                       'IPv4-mapped form having been looked at'
                       % (norm(bad[0].ast, 60) if bad else ''),
                       ctx.loc(f, c))
    if n < 1:
        raise AnalysisError('C19.R5: no ip_address construction found')
    return n


MUTATORS = ('remove', 'pop', 'clear', 'append', 'extend', 'insert', 'sort',
            'reverse', 'update', 'add', 'discard', 'popitem', 'setdefault',
            '__setitem__', '__delitem__')


def config_not_mutated(ctx, rule):
    """The verdict is a function of the URL and the operator's policy.
    oslo.config hands out the *same* list object for a ListOpt on every
    access, so a function of the egress module that removes / appends /
    reorders entries of `CONF.action_std_http.*` (directly or through a
    local alias) changes the policy for every later request - and a removal
    inside the loop over that list also skips the entry after the removed
    one on this very call."""
    prog = ctx.prog
    n = 0
    for q, f in sorted(prog.funcs.items()):
        if f.module != EG:
            continue
        aliases = set()
        for x in own_nodes(f.node):
            if isinstance(x, ast.Assign) and len(x.targets) == 1 and \
                    isinstance(x.targets[0], ast.Name) and \
                    (dotted(x.value) or '').startswith('CONF.'):
                aliases.add(x.targets[0].id)

        def is_conf(e):
            d = dotted(e) or ''
            return d.startswith('CONF.') or d.split('.')[0] in aliases
        for x in own_nodes(f.node):
            bad = None
            if isinstance(x, ast.Call) and isinstance(x.func, ast.Attribute) \
                    and x.func.attr in MUTATORS and is_conf(x.func.value):
                bad = x
            if isinstance(x, ast.Delete) and any(
                    isinstance(t, ast.Subscript) and is_conf(t.value)
                    for t in x.targets):
                bad = x
            if isinstance(x, (ast.Assign, ast.AugAssign)):
                tg = x.targets if isinstance(x, ast.Assign) else [x.target]
                if any(isinstance(t, ast.Subscript) and is_conf(t.value)
                       for t in tg) or (isinstance(x, ast.AugAssign) and
                                        is_conf(x.target)):
                    bad = x
            n += 1 if bad is None else 0
            if bad is not None:
                rule.fail(ctx.construct(f, bad),
                          'the configured egress policy is modified in place '
                          '(%s): later requests are judged by a different '
                          'list than the operator wrote' % norm(bad),
                          ctx.loc(f, bad))
    rule.ok(EG + ' :: configuration is only read', 'no in-place change of '
            'CONF.action_std_http.* in %d statements' % n)


def run(ctx):
    prog, sd = ctx.prog, ctx.sd

    r5 = ctx.rule('R5', 'every address object built in the egress module is '
                  'brought to its canonical (IPv4-unwrapped) form before it '
                  'is compared or handed on', 'typestate')
    addresses_canonical(ctx, r5)

    # ---- R1 validate before send ----------------------------------------
    r1 = ctx.rule('R1', 'every workflow-controlled HTTP request is '
                  'dominated by egress.validate_url on the same URL', 'GD')
    sites = http_client_calls(prog)
    n_checked = 0
    for f, c in sites:
        if f.module in EXEMPT_MODULES:
            r1.ok(ctx.construct(f, c), 'exempt: ' + EXEMPT_MODULES[f.module])
            continue
        n_checked += 1
        cfg = ctx.cfg(f)
        n = cfg.node_of(c)
        url = None
        if c.func.attr == 'request':
            url = c.args[1] if len(c.args) > 1 else U.kwarg(c, 'url')
        else:
            url = c.args[0] if c.args else U.kwarg(c, 'url')
        vals = []
        for d in cfg.dominators(n):
            for sub in cfg.own_nodes(d):
                if isinstance(sub, ast.Call) and \
                        U.call_name(sub) == 'validate_url' and sub.args:
                    vals.append(norm(sub.args[0]))
        ok = url is not None and norm(url) in vals
        # the URL expression must not be re-assigned between the check and
        # the request
        if ok and isinstance(url, ast.Name):
            stores = [x for x in cfg.nodes if x.kind == 'stmt' and
                      isinstance(x.ast, ast.Assign) and any(
                          dotted(t) == url.id for t in x.ast.targets)]
            vn = [d for d in cfg.dominators(n)
                  if U.node_has_call(cfg, d, 'validate_url')]
            for s in stores:
                if vn and cfg.paths_between(vn[0], s) and \
                        cfg.paths_between(s, n):
                    ok = False
        r1.check(ok, ctx.construct(f, extra='%s(%s)' % (
            U.call_dotted(c), norm(url) if url is not None else '?')),
            'HTTP request to %s is not dominated by '
            'egress.validate_url(<same expression>)'
            % (norm(url) if url is not None else '?'), ctx.loc(f, c))
    if n_checked < 2:
        raise AnalysisError('C19.R1: only %d workflow-controlled HTTP call '
                            'sites found' % n_checked)
    # the sub-class action does not bypass the validating run()
    for q, f in prog.funcs.items():
        if f.cls and f.name == 'run' and f.cls != \
                'mistral.actions.std_actions.HTTPAction' and \
                'mistral.actions.std_actions.HTTPAction' in prog.mro(f.cls):
            calls_super = any(isinstance(n, ast.Call) and
                              U.call_name(n) == 'run' and
                              'super(' in norm(n) for n in own_nodes(f.node))
            own_http = [c for (g, c) in sites if g is f]
            r1.check(calls_super and not own_http, ctx.construct(f),
                     'HTTP action subclass issues requests without going '
                     'through HTTPAction.run', ctx.loc(f))

    # ---- R2 shape of the validator -------------------------------------------
    r2 = ctx.rule('R2', 'validator: scheme, host, allow-list, every address '
                  'x every denied network, no early exit', 'GD')
    v = prog.func(EG + '.validate_url')
    cfg = ctx.cfg(v)
    config_not_mutated(ctx, r2)
    raises = [x for x in cfg.nodes if x.kind == 'stmt' and
              isinstance(x.ast, ast.Raise)]
    gai = U.calls_in(cfg, 'getaddrinfo')
    if not gai:
        raise AnalysisError('C19.R2: getaddrinfo call lost')
    gn = gai[0][0]

    def scheme_sets(node, truth):
        out = []
        for bnd in U.guard_match(cfg, node, '__p.scheme in __set', truth):
            try:
                out.append(set(prog.eval_const(v.module, bnd['__set'])))
            except NotConst:
                out.append(None)
        return out
    ok = False
    for x in raises:
        for allowed in scheme_sets(x, False):
            ok = ok or (allowed is not None and bool(allowed) and
                        allowed <= {'http', 'https'})
    r2.check(ok, ctx.construct(v, extra='scheme'),
             'scheme is not tested against a constant subset of '
             '{http, https} with a raise', ctx.loc(v))
    r2.check(any(a is not None and bool(a) and a <= {'http', 'https'}
                 for a in scheme_sets(gn, True)),
             ctx.construct(v, extra='scheme before resolution'),
             'name resolution is reachable for a scheme outside '
             '{http, https}', ctx.loc(v))
    host_raise = any(U.guarded(cfg, x, 'host', False) for x in raises) and \
        U.guarded(cfg, gn, 'host', True)
    r2.check(host_raise, ctx.construct(v, extra='host required'),
             'a URL without a host is not refused', ctx.loc(v))
    allow = any(U.guarded(cfg, x, 'allowed_hosts', True) and
                U.guarded(cfg, x, 'host in allowed_hosts', False) and
                not cfg.paths_between(gn, x)
                for x in raises) and \
        not U.guarded(cfg, gn, 'host in allowed_hosts', False)
    noacc = not any(x.kind == 'stmt' and isinstance(x.ast, ast.Return) and
                    U.guard_match(cfg, x, '___ in allowed_hosts', True)
                    for x in cfg.nodes)
    r2.check(allow and noacc, ctx.construct(v, extra='allow-list'),
             'a configured allow-list is not enforced as an additional '
             'restriction (unlisted host refused, listed host still checked)',
             ctx.loc(v))
    # loops: addr_infos x denied, only raise leaves early
    loops = [x for x in own_nodes(v.node) if isinstance(x, ast.For)]
    outer = [x for x in loops if dotted(x.iter) == 'addr_infos']
    inner = [y for x in outer for y in ast.walk(x)
             if isinstance(y, ast.For) and y is not x]
    ok = bool(outer) and bool(inner)
    early = [y for x in outer for y in ast.walk(x)
             if isinstance(y, (ast.Break, ast.Return, ast.Continue))]
    r2.check(ok and not early, ctx.construct(v, extra='all addresses x all '
                                             'networks'),
             'the address/network loops are missing or can be left early '
             '(break / return / continue): an address could go unchecked',
             ctx.loc(v))
    if inner:
        memb = [y for y in ast.walk(inner[0]) if isinstance(y, ast.Compare)
                and isinstance(y.ops[0], ast.In)]
        ivar = dotted(inner[0].target)
        r2.check(bool(memb) and any(
            U.guard_match(cfg, x, '__a in %s' % ivar, True)
            for x in raises if ivar),
                 ctx.construct(v, extra='membership => raise'),
                 'membership of an address in a denied network does not '
                 'raise', ctx.loc(v))
    # every address is compared with the WHOLE deny-list: the inner loop
    # runs over the value of _denied_networks() itself, not over a subset
    # chosen by something else (address family as reported by the resolver,
    # ...): the canonical address may belong to another family than the
    # socket address it was unwrapped from
    if inner:
        it = U.canon_expr(v.node, inner[0].iter)
        r2.check(isinstance(it, ast.Call) and
                 U.call_name(it) == '_denied_networks' and not it.args,
                 ctx.construct(v, extra='whole deny-list per address'),
                 'an address is compared with %s, not with every denied '
                 'network: a pre-selection made before the address is '
                 'brought to its canonical form lets e.g. '
                 '::ffff:169.254.169.254 through' % norm(inner[0].iter),
                 ctx.loc(v, inner[0]))
    # ... and the deny-list can be walked once per address: when its value
    # is computed once and kept in a local, it is a collection, not a
    # one-shot iterator (a generator is exhausted by the first address, so
    # the second A record of a host is compared with nothing)
    dnf0 = prog.func(EG + '._denied_networks')
    one_shot = [x for x in own_nodes(dnf0.node)
                if isinstance(x, (ast.Yield, ast.YieldFrom))] + \
               [x for x in own_nodes(dnf0.node) if isinstance(x, ast.Return)
                and (isinstance(x.value, ast.GeneratorExp) or
                     (isinstance(x.value, ast.Call) and
                      U.call_name(x.value) in ('iter', 'map', 'filter',
                                               'zip', 'chain')))]
    if inner:
        fresh = isinstance(inner[0].iter, ast.Call) and \
            U.call_name(inner[0].iter) == '_denied_networks'
        r2.check(fresh or not one_shot,
                 ctx.construct(v, extra='deny-list re-iterable'),
                 '_denied_networks() yields a one-shot iterator that is '
                 'kept across addresses: only the first resolved address is '
                 'compared with the denied networks', ctx.loc(dnf0))
    # every configured entry becomes a network: host bits are tolerated
    # (strict=False), otherwise "10.0.0.1/8" is silently dropped
    dnf = prog.func(EG + '._denied_networks')
    nets = [x for x in own_nodes(dnf.node) if isinstance(x, ast.Call) and
            U.call_name(x) == 'ip_network']
    r2.check(len(nets) == 1 and any(
        k.arg == 'strict' and isinstance(k.value, ast.Constant) and
        k.value.value is False for k in nets[0].keywords) or (
        len(nets) == 1 and len(nets[0].args) > 1 and
        isinstance(nets[0].args[1], ast.Constant) and
        nets[0].args[1].value is False),
        ctx.construct(dnf, extra='entries with host bits are kept'),
        'denied_cidrs entries are parsed strictly: an operator entry such '
        'as 10.0.0.1/8 or 169.254.169.254/16 raises ValueError, is logged '
        'and dropped, and that network is no longer denied', ctx.loc(dnf))
    # addr_infos comes from getaddrinfo(host, ...) of the parsed URL
    ai = [x for x in own_nodes(v.node) if isinstance(x, ast.Assign) and
          dotted(x.targets[0]) == 'addr_infos']
    r2.check(len(ai) == 1 and U.call_name(ai[0].value) == 'getaddrinfo' and
             norm(ai[0].value.args[0]) == 'host',
             ctx.construct(v, extra='resolves the host'),
             'addresses are not obtained from getaddrinfo(host)', ctx.loc(v))
    # fail-open only for unresolvable hosts
    rets = [x for x in cfg.nodes if x.kind == 'stmt' and
            isinstance(x.ast, ast.Return)]
    for x in rets:
        in_gai = any(any(y is x.ast for y in ast.walk(h))
                     for t in ast.walk(v.node) if isinstance(t, ast.Try)
                     for h in t.handlers
                     if any('gaierror' in z for z in U.handler_types(h)))
        r2.check(in_gai, ctx.construct(v, x.ast),
                 'validate_url returns early (accepts) on a path other '
                 'than "host cannot be resolved"', ctx.loc(v, x.ast))

    # ---- R3 canonical address before comparison ---------------------------------
    r3 = ctx.rule('R3', 'addresses are compared as ipaddress objects with '
                  'IPv4-mapped IPv6 unwrapped', 'typestate')
    if inner:
        lp = outer[0]
        addr_assign = [y for y in lp.body if isinstance(y, ast.Assign) and
                       isinstance(y.value, ast.Call) and
                       U.call_name(y.value) == 'ip_address']
        r3.check(bool(addr_assign), ctx.construct(v, extra='ip_address()'),
                 'resolved addresses are not parsed with '
                 'ipaddress.ip_address before the comparison', ctx.loc(v))
        var = dotted(addr_assign[0].targets[0]) if addr_assign else None
        unwrap = [y for y in ast.walk(lp) if isinstance(y, ast.Attribute)
                  and y.attr == 'ipv4_mapped']
        # the unwrapped value must be what is compared: an assignment
        # `<var> = <var>.ipv4_mapped` (or equivalent) before the inner loop
        rebind = [y for y in ast.walk(lp) if isinstance(y, ast.Assign) and
                  dotted(y.targets[0]) == var and any(
                      isinstance(z, ast.Attribute) and
                      z.attr == 'ipv4_mapped' for z in ast.walk(y.value))]
        okm = bool(unwrap) and bool(rebind) and \
            rebind[0].lineno < inner[0].lineno
        if okm:
            # the re-binding happens exactly when a mapped address exists
            pres = []
            for a_, t_ in U.guard_atoms(cfg, cfg.stmt_node(rebind[0])):
                if 'ipv4_mapped' not in norm(a_):
                    continue
                if isinstance(a_, ast.Compare) and \
                        isinstance(a_.ops[0], ast.Is) and \
                        norm(a_.comparators[0]) == 'None':
                    pres.append(not t_)
                else:
                    pres.append(t_)
            okm = bool(pres) and all(pres)
        memb = [y for y in ast.walk(inner[0]) if isinstance(y, ast.Compare)
                and isinstance(y.ops[0], ast.In)]
        okc = bool(memb) and dotted(memb[0].left) == var
        r3.check(okm and okc, ctx.construct(v, extra='ipv4_mapped unwrapped'),
                 'an IPv4-mapped IPv6 address (::ffff:a.b.c.d) is compared '
                 'without being unwrapped to its IPv4 form: it is in '
                 'neither the IPv4 nor the IPv6 denied networks',
                 ctx.loc(v))
    # no textual matching on the host decides denial
    txt_tests = [x for x in own_nodes(v.node) if isinstance(x, ast.Call) and
                 U.call_name(x) in ('startswith', 'endswith', 'match',
                                    'search', 'fullmatch')]
    r3.check(not txt_tests, ctx.construct(v, extra='no textual matching'),
             'denial depends on textual matching of the host (%s)'
             % [norm(x, 40) for x in txt_tests[:2]], ctx.loc(v))
    dn = prog.func(EG + '._denied_networks')
    r3.check(any(isinstance(x, ast.Call) and U.call_name(x) == 'ip_network'
                 for x in own_nodes(dn.node)) and
             'denied_cidrs' in ast.unparse(dn.node),
             ctx.construct(dn), 'denied networks are not built with '
             'ipaddress.ip_network from denied_cidrs', ctx.loc(dn))

    # ---- R4 default deny-list ------------------------------------------------------
    r4 = ctx.rule('R4', 'default deny-list covers loopback, link-local and '
                  'the metadata address', 'const')
    tree = prog.module('mistral.config')
    default = None
    for n in ast.walk(tree):
        if isinstance(n, ast.Call) and n.args and \
                isinstance(n.args[0], ast.Constant) and \
                n.args[0].value == 'denied_cidrs':
            for k in n.keywords:
                if k.arg == 'default':
                    default = prog.try_const('mistral.config', k.value)
    if default is None:
        raise AnalysisError('C19.R4: default of denied_cidrs does not fold')
    nets = []
    for cidr in default:
        try:
            nets.append(ipaddress.ip_network(cidr, strict=False))
        except ValueError:
            r4.fail('mistral.config :: denied_cidrs %r' % cidr,
                    'invalid CIDR in the default deny-list',
                    'mistral/config.py')
    # the whole loopback and link-local ranges (RFC 1122 / 3927 / 4291), not
    # sample addresses of them
    for req in ('127.0.0.0/8', '::1/128', '169.254.0.0/16', 'fe80::/10'):
        rn = ipaddress.ip_network(req)
        r4.check(any(rn.subnet_of(n) for n in nets
                     if n.version == rn.version),
                 'mistral.config :: denied_cidrs covers ' + req,
                 'default deny-list does not cover the whole of %s' % req,
                 'mistral/config.py')
    for addr in ('127.0.0.1', '127.255.255.254', '::1', '169.254.169.254',
                 '169.254.0.1', 'fe80::1'):
        a = ipaddress.ip_address(addr)
        r4.check(any(a in n for n in nets if n.version == a.version),
                 'mistral.config :: denied_cidrs covers ' + addr,
                 'default deny-list does not cover %s' % addr,
                 'mistral/config.py')
