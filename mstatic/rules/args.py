"""Explicit optional arguments that carry state between layers.

Many links between the layers of the engine are optional parameters whose
default means "not a join / first run / no filter / not a re-run".  Dropping
such an argument at a call site still compiles, keeps every test that does
not exercise that link green and silently selects the default behaviour.
The table below lists the call sites (caller, callee, parameter) where the
pinned tree passes the parameter explicitly AND the default would break a
property; the rule requires that the parameter is still supplied there (by
keyword or by position - the value is not compared, so renaming locals or
reordering keywords is not reported).  A call site that disappears is an
analysis error (the anchor moved), never a silent pass.

Each line: (properties, caller qname, callee call name, callee qname for the
signature, parameter, why the default is wrong there[, guard under which the
argument is legitimately absent]).
"""
import ast

from mstatic.core import AnalysisError, own_nodes
from mstatic.rules import util as U

E = 'mistral.engine.'
TH = E + 'task_handler.'
WH = E + 'workflow_handler.'
DE = E + 'default_engine.DefaultEngine.'

TABLE = [
    # --- scheduler job keys: jobs of one task/workflow are found again -----
    (('C04', 'C01', 'C13'), TH + '_schedule_refresh_task_state',
     'SchedulerJob', 'mistral.scheduler.base.SchedulerJob.__init__', 'key',
     'has_scheduled_jobs(key=...) would never find the pending refresh'),
    (('C07', 'C06'), TH + 'schedule_on_action_complete', 'SchedulerJob',
     'mistral.scheduler.base.SchedulerJob.__init__', 'key',
     'with-items completions of one task are serialised by this key'),
    (('C07',), TH + 'schedule_on_action_update', 'SchedulerJob',
     'mistral.scheduler.base.SchedulerJob.__init__', 'key',
     'with-items updates of one task are serialised by this key'),
    (('C20',), WH + '_schedule_check_and_fix_integrity', 'SchedulerJob',
     'mistral.scheduler.base.SchedulerJob.__init__', 'key',
     'one integrity-check chain per execution'),
    (('C13', 'C04'), 'mistral.services.legacy_scheduler.LegacyScheduler.'
     'schedule', '_schedule_call',
     'mistral.services.legacy_scheduler._schedule_call', 'key',
     'the legacy scheduler would store keyed jobs without their key'),
    # --- task construction: join identity, waiting state, causal parents ---
    (('C04',), TH + '_build_task_from_command', '_create_task',
     TH + '_create_task', 'unique_key',
     'a join command without its unique key creates one execution per '
     'inbound branch'),
    (('C04',), TH + '_build_task_from_command', '_create_task',
     TH + '_create_task', 'waiting',
     'a join would start at once instead of waiting for its refresh',
     # a SkipTask command completes the task, it is never started
     'isinstance(cmd, wf_cmds.SkipTask)'),
    (('C05', 'C04'), TH + '_build_task_from_command', '_create_task',
     TH + '_create_task', 'triggered_by',
     'the inbound context is computed from the tasks recorded here'),
    (('C12', 'C04'), TH + '_build_task_after_rpc', '_create_task',
     TH + '_create_task', 'waiting',
     'after the RPC hop a WAITING join would be run immediately'),
    (('C12',), TH + '_build_task_after_rpc', '_create_task',
     TH + '_create_task', 'rerun',
     'a rerun would not re-apply the before-start policies'),
    (('C05',), TH + '_build_task_after_rpc', '_create_task',
     TH + '_create_task', 'triggered_by',
     'causal parents are lost across the RPC hop'),
    (('C12', 'C03'), TH + 'run_task', 'run',
     'mistral.engine.tasks.RegularTask.run', 'first_run',
     'an existing task would be treated as new'),
    (('C12', 'C06'), DE + 'start_task', 'run_task', TH + 'run_task',
     'first_run', 'an existing task would be treated as new'),
    # --- rerun parameters down the whole chain ------------------------------
    (('C12',), DE + 'rerun_workflow', 'rerun_workflow',
     WH + 'rerun_workflow', 'reset', 'partial rerun becomes a full one'),
    (('C12',), DE + 'rerun_workflow', 'rerun_workflow',
     WH + 'rerun_workflow', 'skip', 'a skip request becomes a rerun'),
    (('C12',), WH + 'rerun_workflow', 'rerun',
     'mistral.engine.workflows.Workflow.rerun', 'reset',
     'partial rerun becomes a full one'),
    (('C12',), WH + 'rerun_workflow', 'rerun',
     'mistral.engine.workflows.Workflow.rerun', 'skip',
     'a skip request becomes a rerun'),
    (('C12',), 'mistral.engine.workflows.Workflow.rerun', 'rerun_tasks',
     'mistral.workflow.base.WorkflowController.rerun_tasks', 'reset',
     'partial rerun becomes a full one'),
    (('C12', 'C07'), 'mistral.workflow.base.WorkflowController.rerun_tasks',
     'RunExistingTask', 'mistral.workflow.commands.RunExistingTask.__init__',
     'reset', 'partial rerun becomes a full one'),
    # --- results go back to the engine without waiting for it -------------------
    (('C06',), 'mistral.executors.default_executor.DefaultExecutor.'
     '_do_run_action', 'on_action_complete',
     'mistral.rpc.clients.EngineClient.on_action_complete', 'async_',
     'the executor would block on (and, on a timeout, fail and re-send an '
     'error for) a result the engine has already received'),
    # --- routing ---------------------------------------------------------------
    (('C05', 'C01'), 'mistral.workflow.direct_workflow.'
     'DirectWorkflowController._find_next_commands_for_task',
     'create_command', 'mistral.workflow.commands.create_command',
     'triggered_by', 'the next task would not know its causal parent'),
    (('C01',), 'mistral.workflow.direct_workflow.'
     'DirectWorkflowController._find_next_commands_for_task',
     'create_command', 'mistral.workflow.commands.create_command',
     'handles_error', 'handled errors would fail the workflow'),
    (('C10', 'C04'), 'mistral.workflow.commands.restore_command_from_dict',
     'create_command', 'mistral.workflow.commands.create_command',
     'triggered_by', 'backlogged commands lose their causal parent'),
    # --- with-items ------------------------------------------------------------
    (('C07',), 'mistral.engine.tasks.WithItemsTask._schedule_actions',
     'schedule', 'mistral.engine.actions.RegularAction.schedule', 'index',
     'item executions without an index cannot be ordered or re-run'),
    (('C06',), 'mistral.engine.tasks.WithItemsTask._schedule_actions',
     'schedule', 'mistral.engine.actions.RegularAction.schedule',
     'safe_rerun', 'redelivered item actions would be failed/re-run '
     'against the task setting'),
    (('C06',), 'mistral.engine.tasks.RegularTask._schedule_actions',
     'schedule', 'mistral.engine.actions.RegularAction.schedule',
     'safe_rerun', 'redelivered actions would be failed/re-run against '
     'the task setting'),
    # --- sub-workflows and cron -----------------------------------------------
    (('C09',), 'mistral.engine.actions.WorkflowAction.schedule.<locals>.'
     '_start_subworkflow', 'start_workflow',
     'mistral.rpc.clients.EngineClient.start_workflow', 'wf_input',
     'the sub-workflow would start without its input'),
    (('C09',), 'mistral.engine.actions.WorkflowAction.schedule.<locals>.'
     '_start_subworkflow', 'start_workflow',
     'mistral.rpc.clients.EngineClient.start_workflow', 'wf_namespace',
     'the sub-workflow definition would be looked up in the default '
     'namespace'),
    (('C17',), 'mistral.services.periodic.process_cron_triggers_v2',
     'start_workflow', 'mistral.rpc.clients.EngineClient.start_workflow',
     'wf_input', 'the triggered workflow would start without its input'),
    (('C17',), 'mistral.services.periodic.advance_cron_trigger',
     'delete_cron_trigger', 'mistral.services.triggers.delete_cron_trigger',
     'delete_trust', 'the trust still needed to start the last execution '
     'would be deleted first'),
    # --- which actions the heartbeat checker may expire -------------------------
    (('C20',), E + 'actions.RegularAction.schedule',
     '_create_action_execution',
     E + 'actions.Action._create_action_execution', 'is_sync',
     'asynchronous actions would be stored as synchronous and expired by '
     'the heartbeat checker'),
    (('C20',), E + 'actions.RegularAction.run', '_create_action_execution',
     E + 'actions.Action._create_action_execution', 'is_sync',
     'asynchronous actions would be stored as synchronous and expired by '
     'the heartbeat checker'),
    # --- delays ------------------------------------------------------------------
    (('C08',), E + 'policies.RetryPolicy.after_task_complete',
     '_schedule_refresh_task_state',
     TH + '_schedule_refresh_task_state', 'delay',
     'a retried join would start its next attempt at once'),
    (('C08',), E + 'policies.RetryPolicy.after_task_complete',
     'SchedulerJob', 'mistral.scheduler.base.SchedulerJob.__init__',
     'run_after', 'the next attempt would start at once'),
    # --- expiration / scheduler batches ------------------------------------------
    (('C13',), 'mistral.scheduler.default_scheduler.DefaultScheduler.'
     '_process_store_jobs', 'get_scheduled_jobs_to_start',
     'mistral.db.v2.sqlalchemy.api.get_scheduled_jobs_to_start',
     'batch_size', 'the poll would capture the whole table in one '
     'transaction'),
]
TABLE = [tuple(t) + (None,) * (7 - len(t)) for t in TABLE]


def _supplied(prog, call, callee_q, param):
    if any(k.arg == param for k in call.keywords):
        return True
    # a forwarded **mapping does not count: at the listed sites it carries
    # the arguments of the scheduled target, not the parameter in question
    g = prog.funcs.get(callee_q)
    if g is None:
        raise AnalysisError('explicit-args: callee %s not found' % callee_q)
    a = g.node.args
    params = [x.arg for x in a.posonlyargs + a.args]
    if g.cls and params and params[0] in ('self', 'cls'):
        params = params[1:]
    if param not in params:
        if any(x.arg == param for x in a.kwonlyargs):
            return False
        raise AnalysisError('explicit-args: %s has no parameter %s'
                            % (callee_q, param))
    idx = params.index(param)
    if any(isinstance(x, ast.Starred) for x in call.args):
        return True
    return len(call.args) > idx


def _value(prog, call, callee_q, param):
    for k in call.keywords:
        if k.arg == param:
            return k.value
    g = prog.funcs.get(callee_q)
    a = g.node.args
    params = [x.arg for x in a.posonlyargs + a.args]
    if g.cls and params and params[0] in ('self', 'cls'):
        params = params[1:]
    if param in params and not any(isinstance(x, ast.Starred)
                                   for x in call.args):
        i = params.index(param)
        if i < len(call.args):
            return call.args[i]
    return None


def explicit_args(ctx, rule, prop):
    prog = ctx.prog
    n = 0
    for props, caller, cname, callee_q, param, why, unless in TABLE:
        if prop not in props:
            continue
        f = prog.funcs.get(caller)
        if f is None:
            raise AnalysisError('explicit-args: caller %s not found' % caller)
        calls = [c for c in own_nodes(f.node) if isinstance(c, ast.Call) and
                 U.call_name(c) == cname]
        if not calls:
            raise AnalysisError('explicit-args: %s no longer calls %s'
                                % (caller, cname))
        cfg = ctx.cfg(f)
        for c in calls:
            n += 1
            if unless and U.guarded(cfg, cfg.node_of(c), unless, True):
                rule.ok(ctx.construct(f, c), 'not required under ' + unless)
                continue
            rule.check(_supplied(prog, c, callee_q, param),
                       ctx.construct(f, extra='%s(%s=...)' % (cname, param)),
                       '%s is called without %s: %s' % (cname, param, why),
                       ctx.loc(f, c))
            # a parameter of the caller that is handed on under its own
            # name is handed on as received: nothing rebinds it on the way
            # to the call (a "default" substituted for None / False here
            # changes what the API asked for)
            v = _value(prog, c, callee_q, param)
            if isinstance(v, ast.Name) and v.id in f.params:
                rd = U.reaching_defs(cfg, v.id).get(cfg.node_of(c).id, set())
                rule.check(rd <= {'param'},
                           ctx.construct(f, extra='%s forwarded unchanged'
                                         % v.id),
                           'parameter %s is rebound before it is passed to '
                           '%s: %s' % (v.id, cname, why), ctx.loc(f, c))
    return n
