"""Decision tables of the join logic, evaluated over a finite domain.

`_get_join_logical_state`, `_get_induced_join_state` and `_possible_route`
decide whether a join starts, waits or fails from a handful of inputs:
counts of inbound tasks per induced state, the join cardinality, whether an
inbound execution exists / is completed / routed to the join.  The guard
rules cannot see an off-by-one or a swapped comparison there.  Here the
function's own CFG is interpreted by the state-domain evaluator with those
inputs ranging over a small finite domain (counts 0..3 - every comparison in
these functions is between sums of at most three counts with unit
coefficients, so a wrong operator or constant shows within that range) and
the verdict at every `return` is compared with the verdict the property
prescribes for that valuation.  Nothing of mistral is executed: the
evaluator reads the guard expressions from the source.  Inputs are located
by what defines them (`count(states.RUNNING)`, `len(<induced list>)`,
`<spec>.get_join()`), not by the names of locals.
"""
import ast
import itertools

from mstatic.core import AnalysisError, dotted, norm, own_nodes
from mstatic.rules import util as U
from mstatic.statedom import OBJ, UNK, RAISES

DWC = 'mistral.workflow.direct_workflow.DirectWorkflowController'

NEED = 'the join starts (RUNNING) as soon as the required number of ' \
       'inbound tasks routed to it, fails (ERROR) once that number can no ' \
       'longer be reached, waits otherwise'


def _defs(fnode):
    return U._single_defs(fnode)


def _find_def(defs, pattern):
    out = [k for k, v in defs.items() if U.phas(v, pattern) and
           U.pfind(v, pattern) and any(m is v for m, _b in
                                       _matches(v, pattern))]
    return out


def _matches(v, pattern):
    from mstatic.pattern import match, P
    b = match(P(pattern), v)
    return [(v, b)] if b is not None else []


def _loop_def(loops, name):
    """Value assigned to `name` inside the loop bodies (single store)."""
    vals = [x.value for lp in loops for x in ast.walk(lp)
            if isinstance(x, ast.Assign) and len(x.targets) == 1 and
            isinstance(x.targets[0], ast.Name) and x.targets[0].id == name]
    return vals[0] if len(vals) == 1 else None


_XFER = (ast.Return, ast.Raise, ast.Continue, ast.Break)


def undecided_tests(ctx, rule, f, cfg, IN, ks, what):
    """Every branch that leads to a different verdict is decided by the
    table's inputs: a test whose outcome the inputs do not determine (a new
    flag, argument, query result) makes the verdict depend on something the
    property does not mention.  `if`s without control transfer in their
    body (cache refills, logging) do not decide anything and are skipped."""
    return _with_inline(ctx, rule, f, cfg, IN, ks, None, what)


def _ret_state(sd, n, env_keys, val, frame_mod, idx=None):
    """State constant returned at node n (first argument of the
    TaskLogicalState call, or element idx of a returned tuple)."""
    v = n.ast.value
    if isinstance(v, ast.Call) and U.call_name(v) == 'TaskLogicalState':
        e = v.args[0] if v.args else U.kwarg(v, 'state')
    elif isinstance(v, ast.Tuple) and idx is not None:
        e = v.elts[idx]
    else:
        return UNK
    from mstatic.statedom import Frame
    return sd.ev(e, dict(zip(env_keys, val)), Frame(frame_mod))


def _with_inline(ctx, rule, f, cfg, IN, ks, inline, what):
    """undecided_tests with single-definition locals inlined."""
    from mstatic.statedom import Frame
    sd = ctx.sd
    fr = Frame(f.module, {}, None, f)
    for name, expr in (inline or {}).items():
        fr.subst[name] = (expr, fr)
    n_t = 0
    for n in cfg.nodes:
        if n.kind != 'test' or not IN[n.id]:
            continue
        st = None
        for s_, k in n.succ:
            st = getattr(s_, 'stmt', None) or st
        if isinstance(st, ast.If) and not any(
                isinstance(x, _XFER) for b in st.body + st.orelse
                for x in ast.walk(b)):
            continue
        n_t += 1
        unk = [v for v in IN[n.id]
               if sd.truth(sd.ev(n.ast, dict(zip(ks, v)), fr)) is UNK]
        rule.check(not unk, ctx.construct(f, n.ast, extra='decided by the '
                                          'table inputs'),
                   'the outcome of this test is not determined by %s (e.g. '
                   '%s): the verdict depends on something else'
                   % (what, dict(zip(ks, sorted(unk, key=repr)[0]))
                      if unk else ''), ctx.loc(f, n.ast))
    return n_t


def join_logical_state(ctx, rule):
    """R >= need -> RUNNING; else T - E < need -> ERROR; else WAITING, with
    need = T for 'all', 1 for 'one', N for an integer."""
    prog, sd = ctx.prog, ctx.sd
    f = prog.func(DWC + '._get_join_logical_state')
    cfg = ctx.cfg(f)
    defs = _defs(f.node)

    def one(pattern, what):
        got = [k for k, v in defs.items() if _matches(v, pattern)]
        if len(got) != 1:
            raise AnalysisError('join table: %s not found (%s)' % (what, got))
        return got[0]

    r_name = one('count(states.RUNNING)', 'count of RUNNING-induced inbound')
    e_name = one('count(states.ERROR)', 'count of ERROR-induced inbound')
    t_name = one('len(__l)', 'number of inbound tasks')
    j_name = one('__s.get_join()', 'join expression')
    in_name = one('self.wf_spec.find_inbound_task_specs(__s)',
                  'inbound task specs')
    lst = defs[t_name].args[0]
    # the counted list has one element per inbound task spec
    loops = [x for x in own_nodes(f.node) if isinstance(x, ast.For) and
             dotted(x.iter) == in_name]
    apps = [c for lp in loops for b in lp.body for c in ast.walk(b)
            if isinstance(c, ast.Call) and U.call_name(c) == 'append' and
            isinstance(c.func, ast.Attribute) and
            norm(c.func.value) == norm(lst)]
    # ... unconditionally (the only dominating fact is the loop itself)
    cond_app = [c for c in apps
                if any(U.names_in(a) - {in_name}
                       for a, _t in U.guard_atoms(cfg, cfg.node_of(c)))]
    rule.check(len(apps) == 1 and not cond_app,
               ctx.construct(f, extra='one induced state per inbound task'),
               'the list that is counted does not receive exactly one '
               'element per inbound task: the totals the join decision '
               'compares are not the number of inbound tasks', ctx.loc(f))
    # positions: the induced state inside the element, as `count` reads it
    pos_ok = False
    st_idx = None
    if apps and apps[0].args and isinstance(apps[0].args[0], ast.Tuple):
        elts = apps[0].args[0].elts
        for i, e in enumerate(elts):
            if isinstance(e, ast.Subscript) and \
                    isinstance(e.slice, ast.Constant) and \
                    e.slice.value == 0:
                src = e.value
                if isinstance(src, ast.Name):
                    src = _loop_def(loops, src.id)
                if isinstance(src, ast.Call) and \
                        U.call_name(src) == '_get_induced_join_state':
                    st_idx = i
        cnt = prog.funcs.get(f.qname + '.<locals>.count')
        if cnt is not None and st_idx is not None:
            par = cnt.params[0] if cnt.params else None
            ccfg = ctx.cfg(cnt)
            incs = [x for x in own_nodes(cnt.node)
                    if isinstance(x, ast.AugAssign) and
                    isinstance(x.op, ast.Add) and
                    isinstance(x.value, ast.Constant) and x.value.value == 1]
            for inc in incs:
                nd = ccfg.stmt_node(inc)
                facts = U.gfacts(ccfg, nd)
                want = {'__e[%d] == %s' % (st_idx, par)}
                from mstatic.pattern import match as _m
                good = [a for a, t in U.guard_atoms(ccfg, nd) if t and
                        _m(U.P('__e[%d] == %s' % (st_idx, par)), a)
                        is not None]
                rets = [x for x in own_nodes(cnt.node)
                        if isinstance(x, ast.Return)]
                first = all(isinstance(r_.value, ast.Tuple) and
                            norm(r_.value.elts[0]) == norm(inc.target)
                            for r_ in rets) and bool(rets)
                if good and len(facts) == len(good) and first:
                    pos_ok = True
    rule.check(pos_ok, ctx.construct(f, extra='count() reads the induced '
                                     'state'),
               'count(state) does not count exactly the elements whose '
               'induced state (element %s of the tuple built per inbound '
               'task) equals its argument, as its first result' % st_idx,
               ctx.loc(f))

    keys = [j_name, r_name + '[0]', e_name + '[0]', t_name, in_name]
    # quick: counts 0..3; thorough: 0..6 (the comparisons have unit
    # coefficients, so nothing new is expected - the deeper table is there to
    # show it, not to assume it)
    top = 6 if ctx.tier == 'thorough' else 3
    dom_j = ('all', 'one') + tuple(range(1, top + 1))
    rng = tuple(range(0, top + 1))
    init = set()
    for j, r_, e_, t in itertools.product(dom_j, rng, rng, rng):
        if r_ + e_ > t:
            continue
        init.add((j, r_, e_, t, OBJ if t else ()))
    inline = {k: v for k, v in defs.items()
              if k not in (j_name, r_name, e_name, t_name, in_name) and
              k not in U.names_in(v) and
              not any(isinstance(x, (ast.Call, ast.Lambda, ast.ListComp,
                                     ast.DictComp, ast.GeneratorExp))
                      for x in ast.walk(v))}
    variables = [(keys[0], dom_j), (keys[1], rng), (keys[2], rng),
                 (keys[3], rng), (keys[4], (OBJ, ()))]
    IN, ks = sd.analyze(cfg, f, variables, init=init, ghost=set(keys),
                        inline=inline)
    from mstatic.rules import dt as _dt
    _dt.note(ctx, f, len(init), keys)
    _with_inline(ctx, rule, f, cfg, IN, ks, inline,
                 'the join expression and the counts of inbound tasks')
    # the tasks reported as having triggered the join are those that
    # induced the verdict's state
    trg = prog.funcs.get(f.qname + '.<locals>._triggered_by')
    if trg is None or st_idx is None:
        raise AnalysisError('join table: _triggered_by not found')
    tpar = trg.params[0]
    comps = [x for x in own_nodes(trg.node)
             if isinstance(x, (ast.ListComp, ast.GeneratorExp))]
    okc = False
    for c in comps:
        g = c.generators[0]
        el = norm(g.target)
        conds = []
        for i_ in g.ifs:
            U._atoms(i_, True, conds)
        want = U.P('%s[%d] == %s' % (el, st_idx, tpar))
        from mstatic.pattern import match
        has_state = any(t and match(want, a) is not None for a, t in conds)
        others = [a for a, t in conds if match(want, a) is None]
        # the only other admissible filter: the inbound execution exists
        other_ok = all(isinstance(a, ast.Compare) and
                       isinstance(a.ops[0], ast.Is) and
                       isinstance(a.comparators[0], ast.Constant) and
                       a.comparators[0].value is None and t is False
                       for a, t in conds if match(want, a) is None)
        if has_state and other_ok and norm(g.iter) == norm(lst):
            okc = True
    rule.check(okc, ctx.construct(trg, extra='selects by induced state'),
               '_triggered_by(state) does not return exactly the inbound '
               'tasks whose induced state equals its argument (that have an '
               'execution): the join\'s inbound context is built from the '
               'wrong tasks', ctx.loc(trg))
    n_tr = 0
    for x in own_nodes(f.node):
        if isinstance(x, ast.Call) and U.call_name(x) == 'TaskLogicalState':
            stt = x.args[0] if x.args else U.kwarg(x, 'state')
            tb = U.kwarg(x, 'triggered_by')
            if norm(stt) == 'states.RUNNING' and \
                    U.guard_atoms(cfg, cfg.node_of(x)) and \
                    not any(norm(a) == in_name and t is False for a, t in
                            U.guard_atoms(cfg, cfg.node_of(x))):
                n_tr += 1
                rule.check(tb is not None and isinstance(tb, ast.Call) and
                           U.call_name(tb) == '_triggered_by' and
                           norm(tb.args[0]) == norm(stt),
                           ctx.construct(f, x, extra='triggered_by'),
                           'a started join is not told which tasks '
                           'triggered it (triggered_by=%s)'
                           % (norm(tb) if tb is not None else None),
                           ctx.loc(f, x))
            elif tb is not None:
                rule.check(isinstance(tb, ast.Call) and
                           U.call_name(tb) == '_triggered_by' and
                           norm(tb.args[0]) == norm(stt),
                           ctx.construct(f, x, extra='triggered_by'),
                           'triggered_by lists tasks of another induced '
                           'state than the verdict', ctx.loc(f, x))
    if n_tr < 2:
        raise AnalysisError('join table: RUNNING verdicts with triggered_by')
    seen = set()
    bad = []
    n_ret = 0
    for n in cfg.nodes:
        if n.kind != 'stmt' or not isinstance(n.ast, ast.Return):
            continue
        vals = IN[n.id]
        if not vals:
            continue
        n_ret += 1
        for v in sorted(vals, key=repr):
            got = _ret_state(sd, n, ks, v, f.module)
            j, r_, e_, t, _i = v
            need = t if j == 'all' else (1 if j == 'one' else j)
            # a join without inbound tasks has nothing to wait for
            want = 'RUNNING' if (r_ >= need or t == 0) else (
                'ERROR' if t - e_ < need else 'WAITING')
            seen.add(v)
            if got != want:
                bad.append((v, got, want, n))
    for n in cfg.nodes:
        if n.kind == 'stmt' and isinstance(n.ast, ast.Raise) and IN[n.id]:
            for v in sorted(IN[n.id], key=repr):
                seen.add(v)
                bad.append((v, 'raise', 'a verdict', n))
    if n_ret < 4:
        raise AnalysisError('join table: only %d return sites evaluated'
                            % n_ret)
    lost = init - seen
    by_node = {}
    for v, got, want, n in bad:
        by_node.setdefault(n.id, (n, []))[1].append((v, got, want))
    rule.check(not lost, ctx.construct(f, extra='every valuation decided'),
               'no verdict for (join, routed, failed, inbound) = %s'
               % sorted(lost, key=repr)[:3], ctx.loc(f))
    if not by_node:
        rule.ok(ctx.construct(f, extra='verdict table (%d valuations x %d '
                              'returns)' % (len(init), n_ret)))
    for nid, (n, items) in sorted(by_node.items()):
        v, got, want = items[0]
        rule.fail(ctx.construct(f, n.ast, extra='verdict table'),
                  'join=%r with %d of %d inbound tasks routed to it and %d '
                  'that cannot any more: the code answers %s, the property '
                  'prescribes %s (%s); %d valuation(s) differ at this return'
                  % (v[0], v[1], v[3], v[2], got, want, NEED, len(items)),
                  ctx.loc(f, n.ast))
    return len(init)


def induced_join_state(ctx, rule):
    """No execution: WAITING while a route is possible, else ERROR; an
    unfinished inbound task: WAITING; finished and routed to the join:
    RUNNING; finished and not routed: ERROR."""
    prog, sd = ctx.prog, ctx.sd
    f = prog.func(DWC + '._get_induced_join_state')
    cfg = ctx.cfg(f)
    params = f.params
    # (self, in_task_spec, in_task_ex, join_task_spec, cache)
    if len(params) < 4:
        raise AnalysisError('induced table: signature changed')
    ex = params[2]
    # the membership test that says "routed to the join"
    mem = []
    for x in own_nodes(f.node):
        if isinstance(x, ast.Compare) and len(x.ops) == 1 and \
                isinstance(x.ops[0], (ast.In, ast.NotIn)):
            ce = norm(U.canon_expr(f.node, x), 400)
            if 'next_tasks' in ce and 'get_name()' in ce:
                mem.append(x)
    if len(mem) != 1:
        raise AnalysisError('induced table: routed-to-join test not found')
    mem = mem[0]
    mkey = ' '.join(ast.unparse(mem).split())
    positive = isinstance(mem.ops[0], ast.In)
    poss = None
    for x in own_nodes(f.node):
        if isinstance(x, ast.Assign) and isinstance(x.value, ast.Call) and \
                U.call_name(x.value) == '_possible_route' and \
                isinstance(x.targets[0], ast.Tuple):
            poss = x.targets[0].elts[0].id
            rule.check(bool(x.value.args) and
                       norm(x.value.args[0]) == params[1],
                       ctx.construct(f, x.value),
                       'the route search starts from %s, not from the '
                       'inbound task that has no execution'
                       % norm(x.value.args[0]) if x.value.args else '?',
                       ctx.loc(f, x.value))
    if poss is None:
        raise AnalysisError('induced table: _possible_route result not found')
    states = sd.ALL
    keys = [ex, ex + '.state', poss, mkey]
    variables = [(ex, (None, OBJ)), (ex + '.state', states),
                 (poss, (True, False)), (mkey, (True, False))]
    init = set(itertools.product((None, OBJ), states, (True, False),
                                 (True, False)))
    IN, ks = sd.analyze(cfg, f, variables, init=init, ghost=set(keys))
    from mstatic.rules import dt as _dt
    _dt.note(ctx, f, len(init), keys)
    undecided_tests(ctx, rule, f, cfg, IN, ks, 'the inbound execution, its '
                    'state, the route search and the routing record')
    done = {'SUCCESS', 'ERROR', 'CANCELLED', 'SKIPPED'}
    bad = {}
    seen = set()
    n_ret = 0
    for n in cfg.nodes:
        if n.kind != 'stmt' or not isinstance(n.ast, ast.Return) or \
                not IN[n.id]:
            continue
        n_ret += 1
        for v in sorted(IN[n.id], key=repr):
            got = _ret_state(sd, n, ks, v, f.module, idx=0)
            e_, st, p_, m = v
            routed = m if positive else (not m)
            if e_ is None:
                want = 'WAITING' if p_ else 'ERROR'
            elif st not in done:
                want = 'WAITING'
            else:
                want = 'RUNNING' if routed else 'ERROR'
            seen.add(v)
            if got != want:
                bad.setdefault(n.id, (n, []))[1].append((v, got, want))
    if n_ret < 4:
        raise AnalysisError('induced table: %d return sites' % n_ret)
    rule.check(not (init - seen),
               ctx.construct(f, extra='every valuation decided'),
               'no induced state for %s' % sorted(init - seen, key=repr)[:3],
               ctx.loc(f))
    if not bad:
        rule.ok(ctx.construct(f, extra='induced-state table (%d valuations '
                              'x %d returns)' % (len(init), n_ret)))
    for nid, (n, items) in sorted(bad.items()):
        v, got, want = items[0]
        rule.fail(ctx.construct(f, n.ast, extra='induced-state table'),
                  'inbound execution %s in state %s, route possible=%s, '
                  'routed to the join=%s: the code induces %s, the property '
                  'prescribes %s; %d valuation(s) differ at this return'
                  % ('missing' if v[0] is None else 'present', v[1], v[2],
                     (v[3] if positive else not v[3]), got, want,
                     len(items)), ctx.loc(f, n.ast))
    # the event that triggered the join comes from the same lookup
    return len(init)


def possible_route(ctx, rule):
    """A route to the join is still possible iff the task has no inbound
    tasks, or some inbound task without an execution has a possible route
    itself, or some inbound execution is unfinished or routed here; `False`
    only after every inbound task was examined."""
    prog, sd = ctx.prog, ctx.sd
    f = prog.func(DWC + '._possible_route')
    cfg = ctx.cfg(f)
    defs = _defs(f.node)
    in_name = [k for k, v in defs.items()
               if _matches(v, 'self.wf_spec.find_inbound_task_specs(__s)')]
    if len(in_name) != 1:
        raise AnalysisError('route table: inbound specs not found')
    in_name = in_name[0]
    loops = [x for x in own_nodes(f.node) if isinstance(x, ast.For) and
             dotted(x.iter) == in_name]
    if len(loops) != 1:
        raise AnalysisError('route table: loop over inbound specs not found')
    loop = loops[0]
    # the execution looked up for the loop element
    tex = None
    for x in ast.walk(loop):
        if isinstance(x, ast.Assign) and len(x.targets) == 1 and \
                isinstance(x.targets[0], ast.Name) and \
                isinstance(x.value, ast.Call) and \
                U.call_name(x.value) in ('get',) and \
                norm(loop.target) in norm(x.value):
            tex = x.targets[0].id
    mem = [x for x in ast.walk(loop) if isinstance(x, ast.Compare) and
           len(x.ops) == 1 and isinstance(x.ops[0], (ast.In, ast.NotIn)) and
           'next_tasks' in norm(x, 300)]
    poss = None
    for x in ast.walk(loop):
        if isinstance(x, ast.Assign) and isinstance(x.value, ast.Call) and \
                U.call_name(x.value) == '_possible_route' and \
                isinstance(x.targets[0], ast.Tuple):
            poss = x.targets[0].elts[0].id
            rule.check(bool(x.value.args) and
                       norm(x.value.args[0]) == norm(loop.target),
                       ctx.construct(f, x.value),
                       'the recursion does not continue from the inbound '
                       'task that has no execution', ctx.loc(f, x.value))
    if tex is None or len(mem) != 1 or poss is None:
        raise AnalysisError('route table: anchors not found (%s, %d, %s)'
                            % (tex, len(mem), poss))
    mem = mem[0]
    # "routed here" compares this task's name with the names in next_tasks
    lhs = norm(U.canon_expr(f.node, mem.left))
    rule.check(lhs == f.params[1] + '.get_name()',
               ctx.construct(f, mem),
               'the inbound execution\'s next tasks are searched for %s, not '
               'for the task whose route is examined' % lhs, ctx.loc(f, mem))
    mkey = ' '.join(ast.unparse(mem).split())
    positive = isinstance(mem.ops[0], ast.In)
    vis = [x for x in ast.walk(loop) if isinstance(x, ast.Compare) and
           len(x.ops) == 1 and isinstance(x.ops[0], (ast.In, ast.NotIn)) and
           'visited' in norm(x.comparators[0])]
    vkey = ' '.join(ast.unparse(vis[0]).split()) if vis else None
    states = sd.ALL
    keys = [in_name, tex, tex + '.state', poss, mkey]
    variables = [(in_name, ((), OBJ)), (tex, (None, OBJ)),
                 (tex + '.state', states), (poss, (True, False)),
                 (mkey, (True, False))]
    if vkey:
        keys.append(vkey)
        variables.append((vkey, (True, False)))
    init = set(itertools.product(*[d for _k, d in variables]))
    IN, ks = sd.analyze(cfg, f, variables, init=init, ghost=set(keys))
    from mstatic.rules import dt as _dt
    _dt.note(ctx, f, len(init), keys)
    undecided_tests(ctx, rule, f, cfg, IN, ks, 'the inbound tasks, their '
                    'executions and states, the visited set and the '
                    'recursive answer')
    # a missing cache entry is (re)loaded before it is taken for "no
    # execution": the refill is conditioned on exactly "name not in cache"
    refills = [(n, c) for n, c in cfg.calls(
        lambda c: U.call_name(c) == '_prepare_task_executions_cache')]
    for n, c in refills:
        atoms = [(a, t) for a, t in U.guard_atoms(cfg, n)
                 if U.names_in(a) - {in_name}]
        okr = len(atoms) == 1 and atoms[0][1] is False and \
            isinstance(atoms[0][0], ast.Compare) and \
            isinstance(atoms[0][0].ops[0], ast.In) and \
            norm(atoms[0][0].left) == norm(loop.target) + '.get_name()'
        rule.check(okr, ctx.construct(f, c, extra='refill when missing'),
                   'the execution cache is not refilled exactly when the '
                   'inbound task is missing from it (%s): an existing '
                   'execution is taken for "not started"'
                   % [(norm(a), t) for a, t in atoms], ctx.loc(f, c))
    done = {'SUCCESS', 'ERROR', 'CANCELLED', 'SKIPPED'}
    from mstatic.statedom import Frame
    bad = {}
    n_true = 0
    for n in cfg.nodes:
        if n.kind != 'stmt' or not isinstance(n.ast, ast.Return) or \
                not IN[n.id] or not isinstance(n.ast.value, ast.Tuple):
            continue
        inside = any(n.ast is x for x in ast.walk(loop))
        for v in sorted(IN[n.id], key=repr):
            env = dict(zip(ks, v))
            got = sd.ev(n.ast.value.elts[0], env, Frame(f.module))
            ins, te, st, p_, m = v[:5]
            routed = m if positive else (not m)
            visited = None
            if vkey:
                visited = v[5] if isinstance(vis[0].ops[0], ast.In) \
                    else (not v[5])
            if got is True:
                n_true += 1
                if not inside:
                    ok = ins == ()
                else:
                    ok = ins != () and (
                        (te is None and p_ and not visited) or
                        (te is not None and (st not in done or routed)))
                if not ok:
                    bad.setdefault(n.id, (n, []))[1].append(v)
            elif got is False:
                if inside:
                    bad.setdefault(n.id, (n, []))[1].append(v)
            else:
                bad.setdefault(n.id, (n, []))[1].append(v)
    if n_true == 0:
        raise AnalysisError('route table: no positive return evaluated')
    # every element that justifies "possible" reaches a positive return
    # (the inputs are ghosts: a valuation follows one path through the body)
    reach_true = set()
    for n in cfg.nodes:
        if n.kind == 'stmt' and isinstance(n.ast, ast.Return) and \
                isinstance(n.ast.value, ast.Tuple) and \
                any(n.ast is x for x in ast.walk(loop)):
            for v in IN[n.id]:
                if sd.ev(n.ast.value.elts[0], dict(zip(ks, v)),
                         Frame(f.module)) is True:
                    reach_true.add(v)
    missed = []
    for v in sorted(init, key=repr):
        ins, te, st, p_, m = v[:5]
        routed = m if positive else (not m)
        visited = None
        if vkey:
            visited = v[5] if isinstance(vis[0].ops[0], ast.In) \
                else (not v[5])
        should = (te is None and p_ and not visited) or \
                 (te is not None and (st not in done or routed))
        if should and ins != () and v not in reach_true:
            missed.append(v)
    rule.check(not missed, ctx.construct(f, extra='every justification '
                                         'answers "possible"'),
               'an inbound task that keeps the route open (%s) is passed '
               'over: the join is failed although it can still be reached'
               % (dict(zip(keys, missed[0])) if missed else ''), ctx.loc(f))
    if not bad:
        rule.ok(ctx.construct(f, extra='route table (%d valuations)'
                              % len(init)))
    for nid, (n, items) in sorted(bad.items()):
        rule.fail(ctx.construct(f, n.ast, extra='route table'),
                  'this return answers for %s: "possible" needs no inbound '
                  'tasks, a possible route of an inbound task without '
                  'execution, or an inbound execution that is unfinished or '
                  'routed here; "impossible" only after all inbound tasks '
                  'were examined' % dict(zip(keys, items[0])),
                  ctx.loc(f, n.ast))
    return len(init)


def route_cache_covers_inbound(ctx, rule):
    """_possible_route takes a missing cache entry for "no execution".  The
    refill (_prepare_task_executions_cache(task_spec)) must therefore put an
    entry (an execution or None) for every inbound task of task_spec:
    _find_all_parent_task_names(task_spec) has to contain the name of every
    inbound task, i.e. the name of the task it is called for at every depth
    above one, and every name gets an entry."""
    from mstatic.rules import dt
    prog = ctx.prog
    f = prog.func(DWC + '._find_all_parent_task_names')
    try:
        mx = prog.const('mistral.workflow.direct_workflow',
                        'MAX_SEARCH_DEPTH')
    except Exception:
        raise AnalysisError('MAX_SEARCH_DEPTH does not fold')
    spec, dep = f.params[1], f.params[2]
    ins = [x for x in own_nodes(f.node) if isinstance(x, ast.Assign) and
           isinstance(x.targets[0], ast.Name) and
           _matches(x.value, 'self.wf_spec.find_inbound_task_specs(__s)') and
           norm(x.value.args[0]) == spec]
    if len(ins) != 1:
        raise AnalysisError('parent names: inbound specs of the task not read')
    in_name = ins[0].targets[0].id
    t = dt.Table(ctx, f, [(dep, (1, 2, mx - 1, mx)),
                          (in_name, ((), ('x',))),
                          ('MAX_SEARCH_DEPTH', (mx,))],
                 inline_exclude=(in_name,), mutable=(in_name,))
    own = '%s.get_name()' % spec
    rets = [n for n in t.cfg.nodes if n.kind == 'stmt' and
            isinstance(n.ast, ast.Return)]
    acc = None
    ok = bool(rets)
    for n in rets:
        v = n.ast.value
        if isinstance(v, ast.Set):
            ok = ok and [norm(e) for e in v.elts] == [own]
        elif isinstance(v, ast.Name):
            acc = v.id
            adds = [m for m, c in t.cfg.calls(
                lambda c: isinstance(c.func, ast.Attribute) and
                c.func.attr == 'add' and dotted(c.func.value) == acc and
                [norm(a) for a in c.args] == [own])]
            need = {x for x in t.inputs_at(n) if x[0] > 1}
            have = set()
            for m in adds:
                have |= t.inputs_at(m)
            ok = ok and need <= have and all(
                t.cfg.must_pass(m, [n], exits=[t.cfg.exit]) for m in adds)
        else:
            ok = False
    # the search is cut short (the task alone is returned) only at the
    # depth limit or when the task has no inbound tasks
    short = set()
    for n in rets:
        if isinstance(n.ast.value, ast.Set):
            short |= t.inputs_at(n)
    exp = {v for v in t.init_inputs if v[0] == mx or v[1] == ()}
    rule.check(short == exp,
               ctx.construct(f, extra='cut short only at the limit'),
               'the search for parent names stops at the task itself in '
               'situations other than "depth limit reached" or "no inbound '
               'tasks" (e.g. %s): the inbound tasks of the join get no '
               'cache entry' % (dict(zip(t.keys, sorted(
                   short ^ exp, key=repr)[0])) if short != exp else ''),
               ctx.loc(f))
    add_calls = [c for c in own_nodes(f.node) if isinstance(c, ast.Call) and
                 isinstance(c.func, ast.Attribute) and c.func.attr == 'add']
    t.undecided(rule, 'the depth and the inbound tasks', force=add_calls)
    rule.check(ok, ctx.construct(f, extra='own name at every depth above one'),
               'the set of parent names does not contain the name of the '
               'task it is computed for at depth > 1: the inbound tasks of '
               'the join get no cache entry and existing executions are '
               'taken for "not started"', ctx.loc(f))
    # every inbound task is visited, one level deeper
    loops = [x for x in own_nodes(f.node) if isinstance(x, ast.For) and
             dotted(x.iter) == in_name]
    okl = len(loops) == 1 and acc is not None
    if okl:
        lp = loops[0]
        rec = [c for c in ast.walk(lp) if isinstance(c, ast.Call) and
               U.call_name(c) == '_find_all_parent_task_names']
        okl = len(rec) == 1 and norm(rec[0].args[0]) == norm(lp.target) and \
            U.phas(rec[0].args[1] if len(rec[0].args) > 1 else
                   (U.kwarg(rec[0], 'depth') or ast.Constant(None)),
                   '%s + 1' % dep) and \
            any(isinstance(c, ast.Call) and
                isinstance(c.func, ast.Attribute) and
                c.func.attr == 'update' and dotted(c.func.value) == acc and
                any(r is rec[0] for r in ast.walk(c)) for c in ast.walk(lp)) \
            and not any(isinstance(x, (ast.If, ast.Break, ast.Continue,
                                       ast.Return)) for x in ast.walk(lp))
    rule.check(okl, ctx.construct(f, extra='every inbound task, one deeper'),
               'the parent names are not collected from every inbound task '
               'at depth + 1', ctx.loc(f))
    # every name gets an entry: the executions found, None for the rest
    p = prog.func(DWC + '._prepare_task_executions_cache')
    okp = U.phas(p.node, 'self._find_all_parent_task_names(%s)'
                 % p.params[1])
    fill = [x for x in own_nodes(p.node) if isinstance(x, ast.For)]
    okf = False
    for lp in fill:
        for s_ in ast.walk(lp):
            if isinstance(s_, ast.Assign) and isinstance(
                    s_.targets[0], ast.Subscript) and \
                    norm(s_.targets[0].slice) == norm(lp.target) and \
                    isinstance(s_.value, ast.Constant) and \
                    s_.value.value is None:
                cfgp = ctx.cfg(p)
                okf = U.only_guards(cfgp, cfgp.stmt_node(s_), [
                    ('%s in %s' % (norm(lp.target),
                                   norm(s_.targets[0].value)), False)])
    rule.check(okp and okf, ctx.construct(p, extra='an entry for every name'),
               'the refill does not leave an entry (execution or None) for '
               'every parent name of the task', ctx.loc(p))
