"""C02 - the result of a run does not depend on event order, timing or
engine caches (structural parts)."""
import ast

from mstatic.core import AnalysisError, dotted, norm, own_nodes
from mstatic.rules import util as U
from mstatic.rules import c03

TASK = 'mistral.engine.tasks.Task'
WF = 'mistral.engine.workflows.Workflow'
DISP = 'mistral.engine.dispatcher'
PARSER = 'mistral.lang.parser'
CV = 'mistral.workflow.context_versioning'

# attributes that spec methods other than __init__ may write (memo caches)
SPEC_MEMO_ATTRS = {'inbound_tasks_cache', 'outbound_tasks_cache',
                   '_full_schema'}
SPEC_WRITE_OK = {
    'mistral.lang.v2.publish.PublishSpec.merge':
        'idempotent merge of the task-level publish into the on-clause '
        'publish of the same task spec (same result on every call)',
}
SPEC_NAME_HINT = ('_spec', 'spec')


def run(ctx):
    _run(ctx)
    r7 = ctx.rule('R7', 'publishing and routing are evaluated against the '
                  'inbound context refreshed from all upstream tasks, not '
                  'the one of the first branch that arrived', 'PAIR (order)')
    from mstatic.rules import shared as _sh
    _sh.inbound_before_publish(ctx, r7)
    r8 = ctx.rule('R8', 'the per-definition spec cache is keyed by '
                  'definition id AND its updated_at taken from the same '
                  'row, so an updated definition is never served from the '
                  'cache', 'AGREE')
    spec_cache_keys(ctx, r8)
    from mstatic.rules import completion
    r9 = ctx.rule('R9', 'the command comparator orders the commands that '
                  'lock a join by unique key (truth table)', 'DT')
    completion.comparator_table(ctx, r9)
    r11 = ctx.rule('R11', 'the output is folded over all completed tasks '
                   'whatever their number (batches partition the rows; '
                   'shared with C05.R12)', 'PAIR (arithmetic shape)')
    _sh.batches_cover_all_rows(ctx, r11)
    r10 = ctx.rule('R10', 'the texts stored as the final state_info / '
                   'result of a failed or cancelled workflow list tasks in '
                   'an order the definition determines', 'QSHAPE')
    r10.floor(2)
    result_text_order(ctx, r10)


DEFINITION_ORDERED = ('name', 'unique_key')


def result_text_order(ctx, rule):
    """The message builders of mistral.engine.workflows read task rows and
    join their names into wf_ex.state_info / output['result']: the row order
    is part of the result, so it has to come from a column whose values the
    definition fixes (the task name), not from creation / update times or
    ids, which follow the delivery order of the events."""
    prog = ctx.prog
    mod = 'mistral.engine.workflows.'
    fs = [f for q, f in sorted(prog.funcs.items()) if q.startswith(mod) and
          q[len(mod):].startswith('_build_') and q.endswith('_info_message')]
    if len(fs) < 2:
        raise AnalysisError('result message builders not found')
    for f in fs:
        qs = [c for c in own_nodes(f.node) if isinstance(c, ast.Call) and
              U.call_name(c) in ('get_task_executions',
                                 '_get_task_executions')]
        if not qs:
            raise AnalysisError('%s: task query not found' % f.qname)
        for c in qs:
            sk = [k.value for k in c.keywords if k.arg == 'sort_keys']
            ok = len(sk) == 1 and isinstance(sk[0], (ast.List, ast.Tuple)) \
                and bool(sk[0].elts) and \
                isinstance(sk[0].elts[0], ast.Constant) and \
                sk[0].elts[0].value in DEFINITION_ORDERED and \
                not any(k.arg == 'sort_dirs' and
                        not isinstance(k.value, (ast.List, ast.Tuple))
                        for k in c.keywords)
            rule.check(ok, ctx.construct(f, c, extra='rows ordered by name'),
                       'the tasks named in the final message are not read '
                       'in an order fixed by the definition (first sort key '
                       'one of %s): the stored text depends on which branch '
                       'was delivered first' % (DEFINITION_ORDERED,),
                       ctx.loc(f, c))


def spec_cache_keys(ctx, rule):
    prog = ctx.prog
    PARSER = 'mistral.lang.parser'
    f = prog.func(PARSER + '.get_workflow_spec_by_definition_id')
    decs = [d for d in f.node.decorator_list if isinstance(d, ast.Call) and
            (dotted(d.func) or '').endswith('cached')]
    rule.check(len(f.params) == 2 and len(decs) == 1 and
               decs[0].args and dotted(decs[0].args[0]) == '_WF_DEF_CACHE'
               and not any(k.arg == 'key' for k in decs[0].keywords),
               ctx.construct(f, extra='cached on (id, updated_at)'),
               'the definition spec cache is not keyed on both the '
               'definition id and its update time', ctx.loc(f))
    n = 0
    for q, g in sorted(prog.funcs.items()):
        for c in own_nodes(g.node):
            if isinstance(c, ast.Call) and \
                    U.call_name(c) == 'get_workflow_spec_by_definition_id':
                n += 1
                a = [U.kwarg(c, 'wf_def_id', 0),
                     U.kwarg(c, 'wf_def_updated_at', 1)]
                ok = all(isinstance(x, ast.Attribute) for x in a) and \
                    a[0].attr == 'id' and a[1].attr == 'updated_at' and \
                    norm(a[0].value) == norm(a[1].value)
                rule.check(ok, ctx.construct(g, c),
                           'the spec of a definition is requested with %s: '
                           'not the id and updated_at of one and the same '
                           'definition row, so a stale (or foreign) cached '
                           'spec can be returned'
                           % [norm(x) if x is not None else None for x in a],
                           ctx.loc(g, c))
    if n < 3:
        raise AnalysisError('C02.R8: only %d users of the definition spec '
                            'cache' % n)
    ex = prog.func(PARSER + '.get_workflow_spec_by_execution_id')
    decs = [d for d in ex.node.decorator_list if isinstance(d, ast.Call) and
            (dotted(d.func) or '').endswith('cached')]
    rule.check(len(ex.params) == 1 and len(decs) == 1 and decs[0].args and
               dotted(decs[0].args[0]) == '_WF_EX_CACHE',
               ctx.construct(ex, extra='cached on the execution id'),
               'the execution spec cache is not keyed on the execution id',
               ctx.loc(ex))
    pr = prog.func(PARSER + '.cache_workflow_spec_by_execution_id')
    st = [x for x in own_nodes(pr.node) if isinstance(x, ast.Assign) and
          isinstance(x.targets[0], ast.Subscript)]
    rule.check(len(st) == 1 and dotted(st[0].targets[0].value) ==
               '_WF_EX_CACHE' and U.phas(st[0].targets[0].slice,
                                         'cachetools.keys.hashkey(%s)'
                                         % pr.params[0]) and
               norm(st[0].value) == pr.params[1],
               ctx.construct(pr, extra='primes the same key'),
               'priming the execution spec cache does not use the key the '
               'cached reader computes (hashkey(execution id))', ctx.loc(pr))


def _run(ctx):
    prog, sd = ctx.prog, ctx.sd

    # ---- R1 compare-and-swap losers skip -----------------------------------
    r1 = ctx.rule('R1', 'everything after a state CAS is on its success '
                  'edge', 'GD')
    tc = prog.func(TASK + '.complete')
    cfg = ctx.cfg(tc)
    cas = U.calls_in(cfg, 'set_state')
    if len(cas) != 1:
        raise AnalysisError('C02.R1: Task.complete has %d set_state calls'
                            % len(cas))
    effects = cfg.calls(lambda c: U.call_name(c) in (
        '_update_inbound_context', 'publish_variables',
        '_after_task_complete', 'continue_workflow',
        'register_workflow_completion_check',
        'dispatch_workflow_commands'))
    if len(effects) < 6:
        raise AnalysisError('C02.R1: completion logic of Task.complete lost')
    for n, c in effects:
        r1.check(c03._cas_success_guard(cfg, n, cas[0][0]),
                 ctx.construct(tc, extra=U.call_name(c)),
                 '%s runs even when the CAS lost (a concurrent transaction '
                 'already completed the task): completion logic would run '
                 'twice' % U.call_name(c), ctx.loc(tc, c))
    for t, st in U.attr_stores(tc.node):
        if dotted(t.value) == 'self.task_ex':
            sn = cfg.stmt_node(st)
            r1.check(c03._cas_success_guard(cfg, sn, cas[0][0]),
                     ctx.construct(tc, st), 'task row written after a lost '
                     'CAS', ctx.loc(tc, st))
    ts = prog.func(TASK + '.set_state')
    scfg = ctx.cfg(ts)
    rets = [x for x in scfg.nodes if x.kind == 'stmt' and
            isinstance(x.ast, ast.Return)]
    okf = False
    for x in rets:
        if norm(x.ast.value) == 'False':
            okf = U.guarded(scfg, x, 'task_ex is None', True)
    r1.check(okf, ctx.construct(ts, extra='loser returns False'),
             'Task.set_state does not return False when the CAS matched no '
             'row', ctx.loc(ts))
    completed = sd.pred_set('is_completed')
    c03.finished_workflows(ctx, r1, completed, sd.consts)

    # ---- R2 one lock order -----------------------------------------------------
    r2 = ctx.rule('R2', 'commands that will be executed are sorted by '
                  'unique key', 'GD/dataflow')
    pc = prog.func(DISP + '._process_commands')
    loops = [n for n in own_nodes(pc.node) if isinstance(n, ast.For)]
    r2.check(bool(loops) and isinstance(loops[0].iter, ast.Call) and
             U.call_name(loops[0].iter) == '_rearrange_commands',
             ctx.construct(pc, extra='iterates the rearranged list'),
             '_process_commands does not iterate '
             '_rearrange_commands(cmds)', ctx.loc(pc))
    ra = prog.func(DISP + '._rearrange_commands')
    rcfg = ctx.cfg(ra)
    sorts = {}
    for n, c in rcfg.calls(lambda c: U.call_name(c) == 'sort'):
        key = U.kwarg(c, 'key')
        if key is not None and '_compare_task_commands' in norm(key) and \
                'cmp_to_key' in norm(key):
            sorts.setdefault(dotted(c.func.value), []).append(n)
    for x in [y for y in rcfg.nodes if y.kind == 'stmt' and
              isinstance(y.ast, ast.Return)]:
        v = x.ast.value
        cons = ctx.construct(ra, x.ast)
        if isinstance(v, ast.Name):
            ok = any(rcfg.dominates(s, x) for s in sorts.get(v.id, []))
            # nothing unsorted is added in front after the sort: only
            # append/extend of the state command and the backlog tail
            r2.check(ok, cons, 'returns %s without sorting it with '
                     '_compare_task_commands (parallel transactions would '
                     'lock joins in different orders)' % v.id,
                     ctx.loc(ra, x.ast))
        elif isinstance(v, ast.Subscript) and norm(v) in ('cmds[0:1]',
                                                          'cmds[:1]'):
            r2.ok(cons, 'single command')
        else:
            r2.fail(cons, 'unrecognised return shape in '
                    '_rearrange_commands', ctx.loc(ra, x.ast))
    cmpf = prog.func(DISP + '._compare_task_commands')
    ccfg = ctx.cfg(cmpf)
    okc = False
    for x in ccfg.nodes:
        if x.kind == 'stmt' and isinstance(x.ast, ast.Return) and \
                norm(x.ast.value) == '-1':
            if U.guarded(ccfg, x, 'a.unique_key < b.unique_key', True):
                okc = True
    eq = any(x.kind == 'stmt' and isinstance(x.ast, ast.Return) and
             norm(x.ast.value) == '0' and
             U.guarded(ccfg, x, 'a.unique_key == b.unique_key', True)
             for x in ccfg.nodes)
    r2.check(okc and eq, ctx.construct(cmpf),
             'the comparator does not order waiting commands by unique_key',
             ctx.loc(cmpf))

    # ---- R3 spec objects are immutable after construction -------------------------
    r3 = ctx.rule('R3', 'spec objects are not modified after construction',
                  'WMW')
    n_in = 0
    for q, f in sorted(prog.funcs.items()):
        inside = f.module.startswith('mistral.lang')
        if inside:
            if f.cls is None or f.name == '__init__' or \
                    not any(k.endswith('.BaseSpec') or
                            k.endswith('.BaseSpecList')
                            for k in prog.mro(f.cls)):
                continue
            if _construction_helper(prog, f):
                continue
            for t, st in U.attr_stores(f.node):
                if dotted(t.value) in ('self', 'cls') or \
                        (dotted(t.value) or '').startswith('self.'):
                    n_in += 1
                    attr = (dotted(t) or '').split('.')[1]
                    ok = attr in SPEC_MEMO_ATTRS or q in SPEC_WRITE_OK
                    r3.check(ok, ctx.construct(f, st),
                             'spec method writes self.%s after '
                             'construction: behaviour would depend on '
                             'whether a cached or a rebuilt spec is used'
                             % attr, ctx.loc(f, st),
                             SPEC_WRITE_OK.get(q, 'memo cache'))
            for n in own_nodes(f.node):
                if isinstance(n, (ast.Assign, ast.AugAssign, ast.Delete)):
                    tg = n.targets if not isinstance(n, ast.AugAssign) \
                        else [n.target]
                    for t in tg:
                        if isinstance(t, ast.Subscript) and \
                                (dotted(t.value) or '').startswith(
                                    'self._data'):
                            r3.check(q in SPEC_WRITE_OK,
                                     ctx.construct(f, n),
                                     'spec method writes into its backing '
                                     'dict after construction',
                                     ctx.loc(f, n))
        else:
            for t, st in U.attr_stores(f.node):
                base = dotted(t.value) or ''
                last = base.split('.')[-1]
                if last.endswith(SPEC_NAME_HINT) and last not in (
                        'action_spec',):
                    # `self.wf_spec = ...` is a rebinding, not a mutation
                    r3.fail(ctx.construct(f, st), 'assigns attribute %s of '
                            'a spec object outside mistral/lang'
                            % t.attr, ctx.loc(f, st))
            for n in own_nodes(f.node):
                if isinstance(n, ast.Call) and \
                        isinstance(n.func, ast.Attribute) and \
                        n.func.attr in ('update', 'pop', 'clear',
                                        'setdefault', 'append') and \
                        '_data' in (dotted(n.func.value) or '') and \
                        (dotted(n.func.value) or '').split('.')[0] != 'self':
                    r3.fail(ctx.construct(f, n), 'mutates the backing dict '
                            'of a spec object outside mistral/lang',
                            ctx.loc(f, n))
    if n_in < 2:
        raise AnalysisError('C02.R3: spec method stores not found (%d)'
                            % n_in)
    r3.ok('outside mistral/lang :: spec attribute stores', 'none')
    from mstatic.rules import shared as _shf
    _shf.handed_out_values_fresh(ctx, r3)
    from mstatic.rules import c05 as _c05
    _c05.shared_publish_specs(ctx, r3)

    # ---- R4 execution spec comes from the stored dict --------------------------------
    r4 = ctx.rule('R4', 'an evicted execution spec is rebuilt from the '
                  'stored spec dict; the cache is primed with the same '
                  'spec', 'dataflow')
    ge = prog.func(PARSER + '.get_workflow_spec_by_execution_id')
    rets = [n for n in own_nodes(ge.node) if isinstance(n, ast.Return) and
            n.value is not None and not (isinstance(n.value, ast.Constant))]
    src = [n for n in own_nodes(ge.node) if isinstance(n, ast.Assign) and
           dotted(n.targets[0]) == 'wf_ex']
    r4.check(len(rets) == 1 and norm(rets[0].value) ==
             'get_workflow_spec(wf_ex.spec)' and bool(src) and
             'get_workflow_execution(wf_ex_id)' in norm(src[0].value),
             ctx.construct(ge), 'the spec of an execution is not rebuilt '
             'from that execution\'s stored spec', ctx.loc(ge))
    r4.check(any('cached' in d and '_WF_EX_CACHE' in d
                 for d in ge.decorators), ctx.construct(ge, extra='cache'),
             'execution spec cache decorator changed', ctx.loc(ge))
    ce = prog.func(WF + '._create_execution')
    prime = [n for n in own_nodes(ce.node) if isinstance(n, ast.Call) and
             U.call_name(n) == 'cache_workflow_spec_by_execution_id']
    stored = any(isinstance(n, ast.Dict) and any(
        isinstance(k, ast.Constant) and k.value == 'spec' and
        norm(v) == 'self.wf_spec.to_dict()'
        for k, v in zip(n.keys, n.values)) for n in own_nodes(ce.node))
    r4.check(bool(prime) and [norm(a) for a in prime[0].args] == [
        'self.wf_ex.id', 'self.wf_spec'] and stored,
        ctx.construct(ce), 'the cache is not primed with the very spec '
        'whose dict is stored in the execution', ctx.loc(ce))
    cw = prog.func(PARSER + '.cache_workflow_spec_by_execution_id')
    r4.check('hashkey(wf_ex_id)' in ast.unparse(cw.node),
             ctx.construct(cw), 'cache priming uses a key different from '
             'the one cachetools.cached computes', ctx.loc(cw))

    # ---- R6 refresh independent of completion order -----------------------------
    r6 = ctx.rule('R6', 'which joins are refreshed does not depend on which '
                  'of them exist yet (i.e. on completion order)', 'GD')
    from mstatic.rules import shared
    shared.affected_walk_stops(ctx, r6)

    # ---- R5 merge direction -------------------------------------------------------------
    r5 = ctx.rule('R5', 'the version merge overwrites only towards the '
                  'strictly higher version; versions merge with max', 'GD')
    mc = prog.func(CV + '._merge_ctx')
    cfg = ctx.cfg(mc)
    over = [n for n in own_nodes(mc.node) if isinstance(n, ast.Assign) and
            norm(n.targets[0]) == 'ctx_left[k]' and norm(n.value) == 'v']
    guarded = unguarded_new = 0
    for n in over:
        sn = cfg.stmt_node(n)
        if U.guarded(cfg, sn, 'r_ver > l_ver', True):
            guarded += 1
        elif U.guarded(cfg, sn, 'k not in ctx_left', True):
            unguarded_new += 1
        else:
            r5.fail(ctx.construct(mc, n), 'left value overwritten without '
                    'a version comparison in the right direction (result '
                    'would depend on the order upstream rows are listed)',
                    ctx.loc(mc, n))
    r5.check(guarded == 1 and unguarded_new == 1,
             ctx.construct(mc, extra='overwrite sites'),
             'expected one insertion of missing keys and one '
             'version-guarded overwrite, found %d/%d'
             % (unguarded_new, guarded), ctx.loc(mc))
    from mstatic.rules import c05
    c05.version_paths(ctx, r5)
    c05.versioned_merges_only(ctx, r5)
    c05.every_published_key_versioned(ctx, r5)
    mv = prog.func(CV + '._merge_versions')
    r5.check(any(isinstance(n, ast.Call) and U.call_name(n) == 'max' and
                 {norm(a) for a in n.args} == {'ver_left[key]',
                                               'ver_right[key]'}
                 for n in own_nodes(mv.node)), ctx.construct(mv),
             'merged version is not max(left, right)', ctx.loc(mv))
    eu = prog.func('mistral.workflow.data_flow.evaluate_upstream_context')
    r5.check(any(isinstance(n, ast.Call) and
                 U.call_name(n) == 'merge_context_by_version'
                 for n in own_nodes(eu.node)), ctx.construct(eu),
             'upstream contexts are not merged by version', ctx.loc(eu))


def _construction_helper(prog, f):
    """A private method of a spec class that is called only from
    constructors (__init__) of its class hierarchy runs at construction
    time."""
    if not f.name.startswith('_') or f.name.startswith('__'):
        return False
    callers = set()
    for q, g in prog.funcs.items():
        if not g.module.startswith('mistral.'):
            continue
        for n in own_nodes(g.node):
            if isinstance(n, ast.Call) and isinstance(n.func, ast.Attribute) \
                    and n.func.attr == f.name:
                callers.add(g.name)
    return bool(callers) and callers <= {'__init__'}
