"""Transaction demarcation and the post-commit queue.

Everything the properties say about "only if committed" (C13), "nothing is
lost" (C01), "the hand-off happens after the commit" (C09) rests on four
small functions that no other rule is anchored in: `db_api.transaction`,
the `start_tx / commit_tx / end_tx` primitives, `post_tx_queue.run` and
`_process_queue`.  The rules below pin their shape.
"""
import ast

from mstatic.core import AnalysisError, dotted, norm, own_nodes
from mstatic.rules import util as U

API = 'mistral.db.v2.sqlalchemy.api'
BASE = 'mistral.db.sqlalchemy.base'
PTQ = 'mistral.engine.post_tx_queue'


def _in_try_part(fnode, node, part):
    """node lies in the given part ('body', 'handlers', 'finalbody',
    'orelse') of some try statement of the function."""
    for t in own_nodes(fnode):
        if isinstance(t, ast.Try):
            blocks = getattr(t, part)
            if part == 'handlers':
                blocks = [s for h in t.handlers for s in h.body]
            for b in blocks:
                if any(x is node for x in ast.walk(b)):
                    return True
    return False


def transaction_shape(ctx, rule):
    prog = ctx.prog
    f = prog.func(API + '.transaction')
    cfg = ctx.cfg(f)
    ys = [n for n in cfg.nodes if n.kind == 'stmt' and
          isinstance(n.ast, ast.Expr) and isinstance(n.ast.value, ast.Yield)]
    st = U.calls_in(cfg, 'start_tx')
    cm = U.calls_in(cfg, 'commit_tx')
    rb = U.calls_in(cfg, 'rollback_tx')
    en = U.calls_in(cfg, 'end_tx')
    if len(ys) != 1 or len(st) != 1 or len(cm) != 1 or not en:
        raise AnalysisError('transaction(): shape not recognised')
    y = ys[0]
    rule.check(cfg.dominates(st[0][0], y) and
               not U.guard_atoms(cfg, st[0][0]),
               ctx.construct(f, extra='begin before the body'),
               'the body of a transaction runs without start_tx() before it',
               ctx.loc(f))
    cn, cc = cm[0]
    atoms = [(norm(a), t) for a, t in U.guard_atoms(cfg, cn)]
    par = f.params[0] if f.params else 'read_only'
    rule.check(cfg.dominates(y, cn) and atoms == [(par, False)] and
               _in_try_part(f.node, cc, 'body') and
               not _in_try_part(f.node, cc, 'finalbody') and
               not _in_try_part(f.node, cc, 'handlers'),
               ctx.construct(f, cc, extra='commit exactly after a normal '
                             'body'),
               'commit_tx() is not reached exactly when the body returned '
               'normally and the transaction is not read-only (facts: %s): '
               'work of a failed body is committed, or committed work of a '
               'normal body is lost' % atoms, ctx.loc(f, cc))
    for rn, rc in rb:
        ratoms = [(norm(a), t) for a, t in U.guard_atoms(cfg, rn)]
        rule.check(ratoms == [(par, True)],
                   ctx.construct(f, rc, extra='rollback only read-only'),
                   'a normal body is rolled back for %s' % ratoms,
                   ctx.loc(f, rc))
    ends = [n for n, _c in en]
    rule.check(cfg.must_pass(st[0][0], ends, exits=[cfg.exit, cfg.rexit],
                             follow_exc=True),
               ctx.construct(f, extra='end on every exit'),
               'a path leaves transaction() without end_tx(): the session '
               'stays bound to the thread and the next transaction of this '
               'thread fails ("already started")', ctx.loc(f))
    # primitives
    sf = prog.func(BASE + '.start_tx')
    scfg = ctx.cfg(sf)
    sets = U.calls_in(scfg, '_set_thread_local_session')
    rs = [n for n in scfg.nodes if n.kind == 'stmt' and
          isinstance(n.ast, ast.Raise)]
    ok = bool(sets) and bool(rs) and all(
        U.guarded(scfg, n, '_get_thread_local_session()', True)
        for n in rs) and all(
        [(norm(a), t) for a, t in U.guard_atoms(scfg, n)] ==
        [('_get_thread_local_session()', False)] for n, _c in sets) and all(
        c.args and isinstance(c.args[0], ast.Call) and
        U.call_name(c.args[0]) == '_get_session' for _n, c in sets)
    rule.check(ok, ctx.construct(sf, extra='one session per thread'),
               'start_tx() does not refuse a nested transaction / does not '
               'bind a new session exactly when none is bound', ctx.loc(sf))
    cf = prog.func(BASE + '.commit_tx')
    ccfg = ctx.cfg(cf)
    commits = [(n, c) for n, c in ccfg.calls(
        lambda c: U.call_name(c) == 'commit')]
    okc = len(commits) == 1 and \
        [(norm(U.canon_expr(cf.node, a)), t)
         for a, t in U.guard_atoms(ccfg, commits[0][0])] == \
        [('_get_thread_local_session()', True)] and \
        norm(U.canon_expr(cf.node, commits[0][1].func.value)) == \
        '_get_thread_local_session()'
    rule.check(okc, ctx.construct(cf, extra='commits the bound session'),
               'commit_tx() does not commit the session bound to this '
               'thread whenever there is one', ctx.loc(cf))
    ef = prog.func(BASE + '.end_tx')
    ecfg = ctx.cfg(ef)
    unbind = [(n, c) for n, c in U.calls_in(ecfg, '_set_thread_local_session')
              if c.args and isinstance(c.args[0], ast.Constant) and
              c.args[0].value is None]
    closes = [(n, c) for n, c in ecfg.calls(
        lambda c: U.call_name(c) == 'close')]
    oke = bool(unbind) and bool(closes) and all(
        [(norm(U.canon_expr(ef.node, a)), t)
         for a, t in U.guard_atoms(ecfg, n)] ==
        [('_get_thread_local_session()', True)]
        for n, _c in unbind + closes)
    rule.check(oke, ctx.construct(ef, extra='close and unbind'),
               'end_tx() does not close and unbind the session whenever one '
               'is bound', ctx.loc(ef))
    rbs = U.calls_in(ecfg, 'rollback_tx')
    rule.check(bool(rbs) and all(
        any(t and 'dirty' in norm(a) for a, t in U.guard_atoms(ecfg, n))
        for n, _c in rbs) and all(ecfg.dominates(n, closes[0][0])
                                  for n, _c in []),
        ctx.construct(ef, extra='uncommitted changes rolled back'),
        'end_tx() does not roll back uncommitted changes', ctx.loc(ef))
    return 7


def queue_shape(ctx, rule):
    prog = ctx.prog
    d = prog.funcs.get(PTQ + '.run.<locals>.decorate')
    if d is None:
        raise AnalysisError('post_tx_queue.run.decorate not found')
    cfg = ctx.cfg(d)
    prep = U.calls_in(cfg, '_prepare')
    clr = U.calls_in(cfg, '_clear')
    body = [(n, c) for n, c in cfg.calls(
        lambda c: isinstance(c.func, ast.Name) and c.func.id == 'func')]
    starts = [(n, c) for n, c in cfg.calls(
        lambda c: U.call_name(c) == 'start' and
        isinstance(c.func, ast.Attribute))]
    if len(prep) != 1 or len(body) != 1 or not clr or len(starts) != 1:
        raise AnalysisError('post_tx_queue.run: shape not recognised')
    bn, bc = body[0]
    rule.check(cfg.dominates(prep[0][0], bn) and
               not U.guard_atoms(cfg, prep[0][0]),
               ctx.construct(d, extra='fresh queue per call'),
               'the decorated function does not start with an empty '
               'operation queue: operations of a failed earlier attempt are '
               'run again / registrations fail', ctx.loc(d))
    clears = [n for n, _c in clr]
    rule.check(cfg.must_pass(prep[0][0], clears,
                             exits=[cfg.exit, cfg.rexit], follow_exc=True)
               and all(_in_try_part(d.node, c, 'finalbody')
                       for _n, c in clr),
               ctx.construct(d, extra='queue cleared on every exit'),
               'the operation queue is not cleared on every exit: a failed '
               '(rolled back) call leaves its operations to the next user '
               'of the thread', ctx.loc(d))
    sn, sc = starts[0]
    # the operations run only after the decorated function (and with it the
    # main transaction) completed normally, whenever something was queued
    from mstatic.rules import dt
    qv = [k for k, v in U._single_defs(d.node).items()
          if isinstance(v, ast.Call) and U.call_name(v) == '_get_queue']
    if len(qv) != 1:
        raise AnalysisError('post_tx_queue.run: queue variable')
    tb = dt.Table(ctx, d, [(qv[0], ((), ('op',)))],
                  inline_exclude=(qv[0],))
    tsn = [n for n, c in tb.cfg.calls(lambda c: c is sc)][0]
    reach = tb.inputs_at(tsn)
    facts = sorted(reach, key=repr)
    def _transfers(n):
        st = None
        for s_, _k in n.succ:
            st = getattr(s_, 'stmt', None) or st
        return not isinstance(st, ast.If) or any(
            isinstance(x, (ast.Return, ast.Raise, ast.Break, ast.Continue))
            for b in st.body + st.orelse for x in ast.walk(b))
    und = [n for n in tb.cfg.nodes if n.kind == 'test' and tb.IN[n.id] and
           _transfers(n) and
           any(tb.ctx.sd.truth(tb.ev(n.ast, v)) is dt.UNK
               for v in tb.IN[n.id]) and tb.cfg.paths_between(n, tsn)]
    rule.check(cfg.dominates(bn, sn) and
               not _in_try_part(d.node, sc, 'handlers') and
               not _in_try_part(d.node, sc, 'finalbody') and
               reach == {(('op',),)} and not und,
               ctx.construct(d, sc, extra='run what was queued, after a '
                             'normal return only'),
               'the queued operations are not started exactly when the '
               'decorated function returned normally with a non-empty queue '
               '(queue values reaching the start: %s; tests on other things: '
               '%s)' % (facts, [norm(n.ast) for n in und]), ctx.loc(d, sc))
    # the queue that is processed is the one read before it is cleared
    th = [c for _n, c in cfg.calls(lambda c: U.call_name(c) == 'Thread')]
    tgt = U.kwarg(th[0], 'target') if th else None
    inner = prog.funcs.get(d.qname + '.<locals>.' + (dotted(tgt) or '?'))
    okq = False
    if inner is not None:
        icfg = ctx.cfg(inner)
        pq = U.calls_in(icfg, '_process_queue')
        okq = len(pq) == 1 and not [
            a for a, _t in U.guard_atoms(icfg, pq[0][0])] and \
            pq[0][1].args and \
            norm(U.canon_expr(d.node, pq[0][1].args[0])) == '_get_queue()'
        # the caller's security context is carried into the thread
        sets = U.calls_in(icfg, 'set_ctx')
        okq = okq and any(icfg.dominates(n, pq[0][0]) for n, _c in sets)
    rule.check(okq, ctx.construct(d, extra='the captured queue is '
                                  'processed, under the caller\'s context'),
               'the new thread does not process the queue captured before '
               'it was cleared, unconditionally, under the security context '
               'of the caller', ctx.loc(d))
    # _process_queue: every operation is called with its arguments; in_tx
    # operations inside a transaction of their own, the others outside
    pf = prog.func(PTQ + '._process_queue')
    pcfg = ctx.cfg(pf)
    loops = [x for x in own_nodes(pf.node) if isinstance(x, ast.For)]
    if len(loops) != 1 or not isinstance(loops[0].target, ast.Tuple) or \
            len(loops[0].target.elts) != 3:
        raise AnalysisError('_process_queue: loop not recognised')
    lp = loops[0]
    fn_, args_, intx_ = [norm(e) for e in lp.target.elts]
    rule.check(norm(lp.iter) == pf.params[0],
               ctx.construct(pf, extra='whole queue'),
               'the loop does not run over the whole queue', ctx.loc(pf))
    calls = [(n, c) for n, c in pcfg.calls(
        lambda c: isinstance(c.func, ast.Name) and c.func.id == fn_)]
    xfer = [x for b in lp.body for x in ast.walk(b)
            if isinstance(x, (ast.Break, ast.Continue, ast.Return))]
    rule.check(len(calls) == 2 and not xfer,
               ctx.construct(pf, extra='no operation skipped'),
               'an operation of the queue can be skipped (%s)'
               % [norm(x) for x in xfer], ctx.loc(pf))
    for n, c in calls:
        inside = bool(U.inside_with(pcfg, n, 'db_api.transaction',
                                    'transaction'))
        facts = [(norm(a), t) for a, t in U.guard_atoms(pcfg, n)
                 if not isinstance(a, ast.For)]
        facts = [x for x in facts if x[0] != norm(lp.iter)]
        want = [(intx_, True)] if inside else [(intx_, False)]
        star = len(c.args) == 1 and isinstance(c.args[0], ast.Starred) and \
            norm(c.args[0].value) == args_
        rule.check(facts == want and star,
                   ctx.construct(pf, c, extra='in a transaction of its own'
                                 if inside else 'outside a transaction'),
                   'operations are not run with their arguments, in_tx ones '
                   'inside a new transaction and the others outside (facts '
                   '%s, inside a transaction: %s)' % (facts, inside),
                   ctx.loc(pf, c))
    # errors of transactional operations propagate (retry_on_db_error sees
    # them); the function is itself decorated for nested registrations
    decs = [norm(x) for x in pf.node.decorator_list]
    rule.check(decs[-1:] == ['run'] and any('retry_on_db_error' in x
                                           for x in decs[:-1]),
               ctx.construct(pf, extra='nested registrations, db retry'),
               '_process_queue is not decorated with retry_on_db_error '
               'outside run (%s)' % decs, ctx.loc(pf))
    for n, c in calls:
        if U.inside_with(pcfg, n, 'db_api.transaction', 'transaction'):
            hs = [t for t in pcfg.enclosing_trys(n)]
            reraise = all(
                any(isinstance(x, ast.Raise) and x.exc is None
                    for x in ast.walk(h))
                for t in hs for h in getattr(t, 'ast', t).handlers) \
                if hs else True
            rule.check(reraise, ctx.construct(pf, extra='transactional '
                                              'errors propagate'),
                       'an error of a transactional operation is swallowed: '
                       'its transaction commits half-done work and '
                       'retry_on_db_error never sees the failure',
                       ctx.loc(pf, c))
    # register_operation appends (func, args, in_tx) to the thread's queue
    rf = prog.func(PTQ + '.register_operation')
    aps = [c for c in own_nodes(rf.node) if isinstance(c, ast.Call) and
           U.call_name(c) == 'append']
    okr = len(aps) == 1 and isinstance(aps[0].args[0], ast.Tuple) and \
        len(aps[0].args[0].elts) == 3 and \
        norm(aps[0].args[0].elts[0]) == rf.params[0] and \
        rf.params[1] in norm(aps[0].args[0].elts[1]) and \
        norm(aps[0].args[0].elts[2]) == rf.params[2] and \
        norm(aps[0].func.value) == '_get_queue()'
    rule.check(okr, ctx.construct(rf, extra='appends (func, args, in_tx)'),
               'register_operation does not append (func, args, in_tx) to '
               'the queue of the current thread', ctx.loc(rf))
    return 10


def lock_primitives(ctx, rule):
    """named_lock(name) inserts a NamedLock row with that (unique) name
    immediately - not at the next flush - before its body and deletes that
    very row after it; acquire_lock expires the session cache and reads the
    entity FOR UPDATE."""
    prog = ctx.prog
    f = prog.func(API + '.named_lock')
    cfg = ctx.cfg(f)
    ys = [n for n in cfg.nodes if n.kind == 'stmt' and
          isinstance(n.ast, ast.Expr) and isinstance(n.ast.value, ast.Yield)]
    cr = U.calls_in(cfg, 'create_named_lock')
    dl = U.calls_in(cfg, 'delete_named_lock')
    if len(ys) != 1 or len(cr) != 1 or len(dl) != 1:
        raise AnalysisError('named_lock: shape not recognised')
    idvar = [dotted(x.targets[0]) for x in own_nodes(f.node)
             if isinstance(x, ast.Assign) and x.value is cr[0][1]]
    rule.check(cfg.dominates(cr[0][0], ys[0]) and
               not U.guard_atoms(cfg, cr[0][0]) and
               [norm(a) for a in cr[0][1].args] == [f.params[0]],
               ctx.construct(f, extra='lock row created before the body'),
               'the body of named_lock(name) runs without the lock row for '
               'that name having been inserted', ctx.loc(f))
    rule.check(cfg.dominates(ys[0], dl[0][0]) and bool(idvar) and
               dl[0][1].args and norm(dl[0][1].args[0]) == idvar[0] and
               not U.guard_atoms(cfg, dl[0][0]),
               ctx.construct(f, extra='that row deleted after the body'),
               'the lock row that was created is not deleted after the '
               'body: the next holder waits until the transaction ends / '
               'another holder\'s row is deleted', ctx.loc(f))
    cf = prog.func(API + '.create_named_lock')
    ccfg = ctx.cfg(cf)
    ex = [(n, c) for n, c in ccfg.calls(
        lambda c: U.call_name(c) == 'execute')]
    fl = [n for n, c in ccfg.calls(lambda c: U.call_name(c) == 'flush')]
    ok = len(ex) == 1 and not U.guard_atoms(ccfg, ex[0][0])
    if ok:
        stmt = U.canon_expr(cf.node, ex[0][1].args[0], 4)
        ok = U.phas(stmt, 'models.NamedLock.__table__.insert()') and \
            any(isinstance(x, ast.Call) and U.call_name(x) == 'values' and
                any(k.arg == 'name' and norm(k.value) == cf.params[0]
                    for k in x.keywords) for x in ast.walk(stmt))
        # issued now: a flush follows on every path
        ok = ok and ccfg.must_pass(ex[0][0], fl)
        rets = [x for x in own_nodes(cf.node) if isinstance(x, ast.Return)]
        idn = [k.value for x in ast.walk(stmt) if isinstance(x, ast.Call)
               and U.call_name(x) == 'values' for k in x.keywords
               if k.arg == 'id']
        ok = ok and bool(idn) and bool(rets) and all(
            norm(U.canon_expr(cf.node, r.value)) == norm(idn[0])
            for r in rets)
    rule.check(ok, ctx.construct(cf, extra='immediate insert of (id, name)'),
               'create_named_lock does not insert a NamedLock row with the '
               'given name straight away (execute + flush) and return its '
               'id: two holders of the same name are not serialised',
               ctx.loc(cf))
    df = prog.func(API + '.delete_named_lock')
    dcfg = ctx.cfg(df)
    dex = [(n, c) for n, c in dcfg.calls(
        lambda c: U.call_name(c) == 'execute')]
    okd = len(dex) == 1
    if okd:
        stmt = U.canon_expr(df.node, dex[0][1].args[0], 4)
        okd = U.phas(stmt, '___.delete().where(___.c.id == %s)'
                     % df.params[0]) or U.phas(
            stmt, '___.where(___.c.id == %s)' % df.params[0])
    rule.check(okd, ctx.construct(df, extra='deletes the row with that id'),
               'delete_named_lock does not delete exactly the row whose id '
               'it was given', ctx.loc(df))
    af = prog.func(API + '.acquire_lock')
    acfg = ctx.cfg(af)
    exp = U.calls_in(acfg, 'expire_all')
    le = U.calls_in(acfg, '_lock_entity')
    lf = prog.func(API + '._lock_entity')
    okl = len(le) == 1 and bool(exp) and acfg.dominates(exp[0][0], le[0][0]) \
        and [norm(a) for a in le[0][1].args] == af.params[:2] and \
        isinstance(le[0][0].ast, ast.Return) and any(
            isinstance(x, ast.Call) and U.call_name(x) == 'with_for_update'
            for x in own_nodes(lf.node)) and any(
            U.phas(x, '___.filter(%s.id == %s)' % tuple(lf.params[:2]))
            for x in own_nodes(lf.node))
    rule.check(okl, ctx.construct(af, extra='fresh read FOR UPDATE'),
               'acquire_lock does not expire cached objects and then select '
               'the entity with that id FOR UPDATE', ctx.loc(af))
    return 5
