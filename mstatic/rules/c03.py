"""C03 - execution lifecycle is respected, finished results are final."""
import ast

from mstatic.core import AnalysisError, dotted, norm, own_nodes
from mstatic.rules import util as U
from mstatic.statedom import OBJ

WF = 'mistral.engine.workflows.Workflow'
TASK = 'mistral.engine.tasks.Task'
DBAPI = 'mistral.db.v2.sqlalchemy.api'

# documented workflow lifecycle (property statement)
DOCUMENTED = {
    'IDLE': {'RUNNING'},
    'RUNNING': {'PAUSED', 'SUCCESS', 'ERROR', 'CANCELLED'},
    'PAUSED': {'RUNNING', 'ERROR', 'CANCELLED'},
    'ERROR': {'RUNNING'},       # only through an explicit rerun (R4)
    'CANCELLED': {'RUNNING'},   # only through an explicit rerun (R4)
    'SUCCESS': set(),
}
# permitted by the shared table but shown transient: Workflow.start sets
# RUNNING in the statement following _create_execution (checked in R3)
TRANSIENT_IDLE = {('IDLE', 'ERROR'), ('IDLE', 'CANCELLED')}

# functions allowed to store into `<obj>.state` of an execution object
STATE_STORE_ALLOWED = {
    'mistral.engine.actions.Action.fail':
        'action failed by the engine itself (handler path)',
    'mistral.engine.actions.Action.update':
        'external action update, validated by is_valid_transition',
    'mistral.engine.actions.RegularAction.complete':
        'result acceptance, guarded by the completed check',
}

# Task.set_state call sites: enclosing function -> (class, reason)
TASK_SITES = {
    'mistral.engine.tasks.Task.complete': 'guarded',
    'mistral.engine.tasks.Task.update': 'guarded',
    'mistral.engine.tasks.RegularTask._run_new': 'guarded',
    'mistral.engine.tasks.RegularTask._run_existing': 'guarded',
    'mistral.engine.tasks.Task.defer': 'guarded',
    'mistral.engine.policies.WaitBeforePolicy.before_task_start':
        'hook: before-start, task is RUNNING in the same transaction',
    'mistral.engine.policies.PauseBeforePolicy.before_task_start':
        'hook: before-start, task is RUNNING in the same transaction',
    'mistral.engine.policies.WaitAfterPolicy.after_task_complete':
        'hook: in-transaction flip after Task.complete\'s own CAS',
    'mistral.engine.policies.RetryPolicy.after_task_complete':
        'hook: in-transaction flip after Task.complete\'s own CAS',
    'mistral.engine.policies.FailOnPolicy.after_task_complete':
        'hook: in-transaction flip after Task.complete\'s own CAS',
    'mistral.engine.task_handler.run_task':
        'triaged: rerun of a join (waiting and rerun) back to WAITING',
    'mistral.engine.task_handler.create_task':
        'triaged: rerun of a join (waiting and rerun) back to WAITING',
    'mistral.engine.task_handler.mark_task_running':
        'triaged: parent task of a re-run sub-workflow (explicit rerun)',
    'mistral.engine.task_handler.force_fail_task':
        'triaged: structural-error path forces ERROR',
    'mistral.engine.task_handler.continue_task':
        'triaged: only from the locked join refresh and scheduled '
        '_continue_task of delayed/waiting tasks',
}

WF_SITES = {
    WF + '.start': 'from IDLE',
    WF + '.pause': 'returns first when already PAUSED; table validates',
    WF + '.resume': 'callers guard is_paused_or_idle (R4)',
    WF + '._recursive_rerun': 'the explicit rerun (R4)',
    WF + '._succeed_workflow': 'terminal setter',
    WF + '._fail_workflow': 'terminal setter',
    WF + '._cancel_workflow': 'terminal setter',
}


def set_state_sites(ctx):
    """All `.set_state(` call sites with resolved receiver family."""
    prog, cg = ctx.prog, ctx.cg
    out = []
    for q, lst in cg.sites.items():
        for c, tg in lst:
            if U.call_name(c) != 'set_state':
                continue
            fam = set()
            for t in tg:
                if t.startswith('mistral.engine.tasks.'):
                    fam.add('task')
                elif t.startswith('mistral.engine.workflows.'):
                    fam.add('wf')
            if not fam:
                # unresolved receiver: classify by the receiver's name
                d = dotted(c.func.value) if isinstance(c.func,
                                                       ast.Attribute) else ''
                fam.add('wf' if 'wf' in (d or '') else 'task')
            out.append((prog.funcs[q], c, fam))
    return out


def run(ctx):
    prog, sd = ctx.prog, ctx.sd
    S = sd.consts
    completed = sd.pred_set('is_completed')

    # ---- R1 single writers ---------------------------------------------
    r1 = ctx.rule('R1', 'state columns have single writers', 'WMW')
    r1.floor(8)
    for fn, only in (('update_workflow_execution_state', WF + '.set_state'),
                     ('update_task_execution_state', TASK + '.set_state')):
        callers = []
        for q, f in prog.funcs.items():
            if f.module.startswith('mistral.db.'):
                continue
            for n in own_nodes(f.node):
                if isinstance(n, ast.Call) and U.call_name(n) == fn:
                    callers.append((f, n))
        if not callers:
            raise AnalysisError('C03.R1: nobody calls %s' % fn)
        for f, n in callers:
            r1.check(f.qname == only, ctx.construct(f, extra=fn),
                     '%s called outside %s' % (fn, only), ctx.loc(f, n))
        # shape of the DB function: specimen carries the expected state
        dbf = prog.func(DBAPI + '.' + fn)
        spec_ok = vals_ok = False
        for n in own_nodes(dbf.node):
            if isinstance(n, ast.Call) and U.call_name(n) in (
                    'WorkflowExecution', 'TaskExecution'):
                st = U.kwarg(n, 'state')
                spec_ok = isinstance(st, ast.Name) and st.id == 'cur_state'
            if isinstance(n, ast.Call) and U.call_name(n) == \
                    'update_on_match':
                v = U.kwarg(n, 'values', 2)
                vals_ok = v is not None and norm(v) == "{'state': state}"
        r1.check(spec_ok and vals_ok, ctx.construct(dbf),
                 'DB function no longer builds the specimen with the '
                 'expected state / updates only the state through '
                 'update_on_match', ctx.loc(dbf))
    from mstatic.rules import shared as _shc
    _shc.cas_primitive_reports_loss(ctx, r1)
    _shc.facade_forwards_parameters(ctx, r1, names={
        'update_workflow_execution_state', 'update_task_execution_state'})
    # attribute stores to .state
    n_stores = 0
    for q, f in sorted(prog.funcs.items()):
        for t, st in U.attr_stores(f.node):
            if t.attr != 'state':
                continue
            recv = dotted(t.value)
            if recv in ('self', 'cls'):
                # plain object attribute of a non-model helper class
                if f.cls and _is_model(prog, f.cls):
                    r1.fail(ctx.construct(f, st), 'model writes its own '
                            'state attribute', ctx.loc(f, st))
                continue
            n_stores += 1
            r1.check(q in STATE_STORE_ALLOWED, ctx.construct(f, st),
                     'direct store to an execution state outside the '
                     'allowed writers', ctx.loc(f, st),
                     STATE_STORE_ALLOWED.get(q, ''))
    if n_stores < 3:
        raise AnalysisError('C03.R1: only %d .state stores found' % n_stores)
    # generic update paths carrying a state
    for q, f in sorted(prog.funcs.items()):
        if f.module.startswith('mistral.db.'):
            continue
        for n in own_nodes(f.node):
            if not isinstance(n, ast.Call):
                continue
            nm = U.call_name(n) or ''
            if nm == 'setattr' and len(n.args) >= 2 and \
                    isinstance(n.args[1], ast.Constant) and \
                    n.args[1].value == 'state':
                r1.fail(ctx.construct(f, n), 'setattr(..., "state", ...)',
                        ctx.loc(f, n))
            gen = nm in ('update_workflow_execution', 'update_task_execution',
                         'update_action_execution',
                         'create_or_update_workflow_execution',
                         'create_or_update_task_execution',
                         'create_or_update_action_execution')
            if gen:
                vals = n.args[1] if len(n.args) > 1 else U.kwarg(n, 'values')
                if isinstance(vals, ast.Dict) and all(
                        isinstance(k, ast.Constant) for k in vals.keys):
                    keys = [k.value for k in vals.keys]
                    r1.check('state' not in keys, ctx.construct(f, n),
                             'generic update writes the state column',
                             ctx.loc(f, n))
                else:
                    r1.fail(ctx.construct(f, n), 'generic execution update '
                            'with non-literal values (may carry a state)',
                            ctx.loc(f, n))
            if nm == 'update' and n.args and isinstance(n.args[0], ast.Dict):
                for k in n.args[0].keys:
                    if isinstance(k, ast.Constant) and k.value == 'state' \
                            and isinstance(n.func, ast.Attribute) and \
                            _looks_like_execution(n.func.value):
                        r1.fail(ctx.construct(f, n), '.update({"state": '
                                '...}) on an execution', ctx.loc(f, n))

    # ---- R2 workflow CAS validated -------------------------------------
    r2 = ctx.rule('R2', 'Workflow.set_state validates the transition and '
                  'applies it as a CAS on the state that was read', 'GD')
    f = prog.func(WF + '.set_state')
    cfg = ctx.cfg(f)
    dom = sd.state_domain
    IN, keys = sd.analyze(cfg, f, [('cur_state', dom), ('state', dom)])
    cas = U.calls_in(cfg, 'update_workflow_execution_state')
    if len(cas) != 1:
        raise AnalysisError('C03.R2: expected one CAS call in '
                            'Workflow.set_state, found %d' % len(cas))
    n, c = cas[0]
    bad = [v for v in IN[n.id]
           if sd.valid_transition(v[0], v[1]) is not True]
    r2.check(not bad, ctx.construct(f, extra='CAS guarded'),
             'CAS reachable for invalid transitions, e.g. %s' % (bad[:3],),
             ctx.loc(f, c))
    cs = U.kwarg(c, 'cur_state', 1)
    src_ok = False
    for a in own_nodes(f.node):
        if isinstance(a, ast.Assign) and len(a.targets) == 1 and \
                dotted(a.targets[0]) == 'cur_state' and \
                norm(a.value) == 'self.wf_ex.state':
            src_ok = True
    r2.check(isinstance(cs, ast.Name) and cs.id == 'cur_state' and src_ok,
             ctx.construct(f, extra='CAS expects the state read'),
             'CAS does not pass the state that was read as cur_state',
             ctx.loc(f, c))
    # result consulted: None => return False before touching self.wf_ex
    stores = [(t, st) for t, st in U.attr_stores(f.node)
              if dotted(t.value) in ('self', 'self.wf_ex')]
    casn = n
    IN2, k2 = sd.analyze(cfg, f, [('wf_ex', (None, OBJ))])
    for t, st in stores:
        sn = cfg.stmt_node(st)
        if sn is None or not cfg.dominates(casn, sn):
            continue
        vals = sd.values_at(IN2, k2, sn, 'wf_ex')
        r2.check(None not in vals, ctx.construct(f, st),
                 'write after the CAS reachable although the CAS lost '
                 '(wf_ex is None)', ctx.loc(f, st))
    # invalid transitions raise
    raises = [x for x in cfg.nodes if x.kind == 'stmt' and
              isinstance(x.ast, ast.Raise)]
    ok = False
    for x in raises:
        vs = IN[x.id]
        if vs and all(sd.valid_transition(v[0], v[1]) is not True
                      for v in vs):
            ok = True
    r2.check(ok, ctx.construct(f, extra='invalid transition raises'),
             'no raise reached exactly by the invalid transitions',
             ctx.loc(f))
    # Task.set_state: CAS on the read state, loser returns False
    tf = prog.func(TASK + '.set_state')
    tcfg = ctx.cfg(tf)
    tcas = U.calls_in(tcfg, 'update_task_execution_state')
    if len(tcas) != 1:
        raise AnalysisError('C03.R2: expected one CAS in Task.set_state')
    tn, tc = tcas[0]
    cs = U.kwarg(tc, 'cur_state', 1)
    src_ok = any(isinstance(a, ast.Assign) and len(a.targets) == 1 and
                 dotted(a.targets[0]) == 'cur_state' and
                 norm(a.value) == 'self.task_ex.state'
                 for a in own_nodes(tf.node))
    r2.check(isinstance(cs, ast.Name) and cs.id == 'cur_state' and src_ok,
             ctx.construct(tf, extra='CAS expects the state read'),
             'task CAS does not pass the state that was read', ctx.loc(tf, tc))
    IN3, k3 = sd.analyze(tcfg, tf, [('task_ex', (None, OBJ))])
    for t, st in U.attr_stores(tf.node):
        if dotted(t.value) not in ('self', 'self.task_ex'):
            continue
        sn = tcfg.stmt_node(st)
        if sn is None or not tcfg.dominates(tn, sn):
            continue
        vals = sd.values_at(IN3, k3, sn, 'task_ex')
        r2.check(None not in vals, ctx.construct(tf, st),
                 'write after the task CAS reachable although it lost',
                 ctx.loc(tf, st))
    cas_skipped_only_when_unchanged(ctx, r2)
    loser_path_effect_free(ctx, r2)

    # ---- R3 transition table vs statement --------------------------------
    r3 = ctx.rule('R3', 'transition table restricted to requested targets '
                  'is inside the documented lifecycle', 'STATE')
    sites = set_state_sites(ctx)
    wf_sites = [(g, c) for (g, c, fam) in sites if 'wf' in fam and
                g.qname.startswith('mistral.engine.workflows.')]
    targets = set()
    for g, c in wf_sites:
        a = c.args[0] if c.args else U.kwarg(c, 'state')
        v = sd.ev(a, {}, _frame(sd, g)) if a is not None else None
        if isinstance(v, str) and v in sd.ALL:
            targets.add(v)
        else:
            r3.fail(ctx.construct(g, c), 'workflow set_state with a '
                    'non-constant target', ctx.loc(g, c))
    if len(targets) < 4:
        raise AnalysisError('C03.R3: only targets %s found' % targets)
    table = sd.transitions
    reach = {S['IDLE']}
    changed = True
    while changed:
        changed = False
        for a in list(reach):
            for b in table.get(a, []):
                if b in targets and b not in reach:
                    reach.add(b)
                    changed = True
    for a in sorted(reach):
        for b in table.get(a, []):
            if b not in targets:
                continue
            ok = b in DOCUMENTED.get(a, set()) or (a, b) in TRANSIENT_IDLE
            r3.check(ok, 'states._VALID_TRANSITIONS :: %s->%s' % (a, b),
                     'transition %s->%s is permitted for workflows but not '
                     'documented' % (a, b), 'mistral/workflow/states.py')
    r3.check(not [b for b in table.get(S['SUCCESS'], []) if b in targets],
             'states._VALID_TRANSITIONS :: SUCCESS is final',
             'SUCCESS has a successor', 'mistral/workflow/states.py')
    # IDLE is transient: set_state(RUNNING) follows _create_execution
    st = prog.func(WF + '.start')
    scfg = ctx.cfg(st)
    ce = U.calls_in(scfg, '_create_execution')
    ss = U.calls_in(scfg, 'set_state')
    ok = False
    if ce and ss:
        n_ce, n_ss = ce[0][0], ss[0][0]
        succ = [s for s, k in n_ce.succ if k != 'exc']
        ok = len(succ) == 1 and succ[0] is n_ss and \
            norm(ss[0][1].args[0]) == 'states.RUNNING'
    r3.check(ok, ctx.construct(st, extra='IDLE transient'),
             'set_state(RUNNING) no longer directly follows '
             '_create_execution in Workflow.start', ctx.loc(st))
    cr = prog.func(WF + '._create_execution')
    idle = any(isinstance(n, ast.Dict) and any(
        isinstance(k, ast.Constant) and k.value == 'state' and
        norm(v) == 'states.IDLE' for k, v in zip(n.keys, n.values))
        for n in own_nodes(cr.node))
    r3.check(idle, ctx.construct(cr, extra='created IDLE'),
             'workflow executions are no longer created IDLE', ctx.loc(cr))

    # ---- R4 who may re-enter RUNNING -----------------------------------
    r4 = ctx.rule('R4', 'only start/resume/explicit rerun set a workflow '
                  'RUNNING', 'STATE')
    run_sites = []
    for g, c in wf_sites:
        a = c.args[0] if c.args else None
        if a is not None and norm(a) == 'states.RUNNING':
            run_sites.append((g, c))
    allowed = {WF + '.start', WF + '.resume', WF + '._recursive_rerun'}
    for g, c in run_sites:
        r4.check(g.qname in allowed, ctx.construct(g, c),
                 'unexpected site setting a workflow RUNNING', ctx.loc(g, c))
    if len(run_sites) < 3:
        raise AnalysisError('C03.R4: fewer than 3 RUNNING sites')
    # resume only reachable through the is_paused_or_idle guard
    callers = [q for q in ctx.cg.callers(WF + '.resume', kinds=('call',))]
    rs = prog.func('mistral.engine.workflow_handler.resume_workflow')
    r4.check(set(callers) <= {rs.qname}, WF + '.resume :: callers',
             'Workflow.resume called from %s' % sorted(callers), ctx.loc(rs))
    rcfg = ctx.cfg(rs)
    INr, kr = sd.analyze(rcfg, rs, [('wf_ex.state', sd.state_domain)])
    okset = sd.pred_set('is_paused_or_idle')
    for n, c in U.calls_in(rcfg, 'resume'):
        if isinstance(c.func, ast.Attribute) and dotted(c.func.value) == 'wf':
            vals = sd.values_at(INr, kr, n, 'wf_ex.state')
            r4.check(vals <= okset, ctx.construct(rs, c),
                     'resume reachable from states %s'
                     % sorted(map(str, vals - okset)), ctx.loc(rs, c))
    # _recursive_rerun only from Workflow.rerun / itself
    rc = ctx.cg.callers(WF + '._recursive_rerun', kinds=('call', 'cha'))
    r4.check(rc <= {WF + '.rerun', WF + '._recursive_rerun'},
             WF + '._recursive_rerun :: callers',
             '_recursive_rerun called from %s' % sorted(rc))

    # ---- R5 results accepted once --------------------------------------
    r5 = ctx.rule('R5', 'an action result is accepted at most once', 'GD')
    f = prog.func('mistral.engine.actions.RegularAction.complete')
    cfg = ctx.cfg(f)
    IN, keys = sd.analyze(cfg, f, [('self.action_ex.state',
                                    sd.state_domain)],
                          kill=lambda c: ())
    n_w = 0
    for t, st in U.attr_stores(f.node):
        if dotted(t.value) != 'self.action_ex':
            continue
        n_w += 1
        sn = cfg.stmt_node(st)
        # the abstract value is the state *before* any store of this
        # function: evaluate on a copy of the analysis that ignores the
        # function's own stores
        vals = _pre_state_values(ctx, f, sn, 'self.action_ex.state')
        r5.check(not (vals & completed), ctx.construct(f, st),
                 'write reachable for an already completed action (%s)'
                 % sorted(vals & completed), ctx.loc(f, st))
    if n_w < 3:
        raise AnalysisError('C03.R5: RegularAction.complete writes lost')
    # the result decides the final state: success -> SUCCESS, cancel ->
    # CANCELLED, anything else -> ERROR
    want = {'states.SUCCESS': [('result.is_success()', True)],
            'states.CANCELLED': [('result.is_success()', False),
                                 ('result.is_cancel()', True)],
            'states.ERROR': [('result.is_success()', False),
                             ('result.is_cancel()', False)]}
    seen = set()
    for t, st in U.attr_stores(f.node):
        if norm(t) != 'self.action_ex.state':
            continue
        v = norm(st.value)
        seen.add(v)
        sn = cfg.stmt_node(st)
        r5.check(v in want and all(U.guarded(cfg, sn, p_, t_)
                                   for p_, t_ in want[v]),
                 ctx.construct(f, extra='result -> ' + v),
                 'the action state %s is not stored exactly for the matching '
                 'kind of result' % v, ctx.loc(f, st))
    r5.check(seen == set(want), ctx.construct(f, extra='three outcomes'),
             'results are mapped to %s, expected SUCCESS / CANCELLED / ERROR'
             % sorted(seen), ctx.loc(f))
    acc = [st for t, st in U.attr_stores(f.node)
           if norm(t) == 'self.action_ex.accepted']
    r5.check(len(acc) == 1 and norm(acc[0].value) == 'True' and
             all(t_ is False and U.phas(a_, 'states.is_completed('
                                        'self.action_ex.state)')
                 for a_, t_ in U.guard_atoms(cfg, cfg.stmt_node(acc[0]))),
             ctx.construct(f, extra='accepted'),
             'a completed action is not unconditionally marked accepted',
             ctx.loc(f))
    # the rejection raises something the handler does not swallow
    raised = []
    for x in cfg.nodes:
        if x.kind == 'stmt' and isinstance(x.ast, ast.Raise) and x.ast.exc:
            vals = sd.values_at(IN, keys, x, 'self.action_ex.state')
            if vals and vals <= completed:
                raised.append(x)
    r5.check(bool(raised), ctx.construct(f, extra='completed => raise'),
             'no raise dedicated to completed actions', ctx.loc(f))
    h = prog.func('mistral.engine.action_handler.on_action_complete')
    caught = set()
    for t in ast.walk(h.node):
        if isinstance(t, ast.Try):
            for hd in t.handlers:
                caught |= set(U.handler_types(hd))
    for x in raised:
        cls = dotted(x.ast.exc.func) if isinstance(x.ast.exc, ast.Call) \
            else dotted(x.ast.exc)
        swallowed = cls in caught or 'Exception' in caught or \
            'BaseException' in caught or _mistral_exc(prog, f.module, cls)
        r5.check(not swallowed, ctx.construct(f, x.ast),
                 'exception %s raised for a duplicate result is caught by '
                 'action_handler.on_action_complete (%s): the duplicate '
                 'would fail the action instead of rolling back'
                 % (cls, sorted(caught)), ctx.loc(f, x.ast))
    u = prog.func('mistral.engine.actions.Action.update')
    ucfg = ctx.cfg(u)
    INu, ku = sd.analyze(ucfg, u, [('self.action_ex.state', sd.state_domain),
                                   ('state', sd.state_domain)],
                         kill=lambda c: ())
    for t, st in U.attr_stores(u.node):
        if t.attr == 'state':
            sn = ucfg.stmt_node(st)
            bad = [v for v in _pre_vals(ctx, u, sn,
                                        ['self.action_ex.state', 'state'])
                   if sd.valid_transition(v[0], v[1]) is not True]
            r5.check(not bad, ctx.construct(u, st),
                     'Action.update writes the state for invalid '
                     'transitions %s' % bad[:3], ctx.loc(u, st))

    # ---- R6 completed tasks are left alone --------------------------------
    r6 = ctx.rule('R6', 'every Task.set_state site is guarded or triaged',
                  'STATE')
    r6.floor(12)
    task_sites = [(g, c) for (g, c, fam) in sites if 'task' in fam and
                  'wf' not in fam]
    for g, c in task_sites:
        kind = TASK_SITES.get(g.qname)
        if kind is None:
            r6.fail(ctx.construct(g, c), 'new Task.set_state call site that '
                    'is neither guarded nor triaged', ctx.loc(g, c))
            continue
        if kind != 'guarded':
            r6.ok(ctx.construct(g, c), kind)
    guarded_sites(ctx, r6, task_sites, completed, S)
    # policy hooks are only invoked from the task's own hook dispatchers
    for hook, disp in (('before_task_start', TASK + '._before_task_start'),
                       ('after_task_complete', TASK + '._after_task_complete')):
        callers = set()
        for q, lst in ctx.cg.sites.items():
            for c, tg in lst:
                if U.call_name(c) == hook and not (
                        isinstance(c.func, ast.Attribute) and
                        isinstance(c.func.value, ast.Call) and
                        U.call_name(c.func.value) == 'super'):
                    callers.add(q)
        r6.check(callers == {disp}, 'policy hook %s :: callers' % hook,
                 'policy hook invoked from %s' % sorted(callers - {disp}))
    bt = ctx.cg.callers(TASK + '._before_task_start', kinds=('call',))
    r6.check(bt <= {'mistral.engine.tasks.RegularTask._run_new',
                    'mistral.engine.tasks.RegularTask._run_existing'},
             TASK + '._before_task_start :: callers',
             'called from %s' % sorted(bt))
    at = ctx.cg.callers(TASK + '._after_task_complete', kinds=('call',))
    r6.check(at <= {TASK + '.complete'},
             TASK + '._after_task_complete :: callers',
             'called from %s' % sorted(at))

    # ---- R7 finished workflows stay finished ------------------------------
    r7 = ctx.rule('R7', 'terminal setters and completion check leave '
                  'finished workflows alone', 'STATE')
    finished_workflows(ctx, r7, completed, S)


def _frame(sd, f):
    from mstatic.statedom import Frame
    return Frame(f.module, {}, None, f)


def _is_model(prog, cls):
    return any(k.startswith('mistral.db.') for k in prog.mro(cls))


def _looks_like_execution(node):
    d = dotted(node) or ''
    last = d.split('.')[-1]
    return last.endswith('_ex') or last in ('execution', 'ex')


def _mistral_exc(prog, module, cls):
    if not cls:
        return False
    r = prog.resolve_dotted(module, cls)
    return r in prog.classes and any(
        k.endswith('.MistralException') for k in prog.mro(r))


def _pre_vals(ctx, f, node, keys_wanted):
    """Valuations of the tracked keys at `node`, where stores made by the
    function itself to `<x>.state` do not change the tracked *pre-state*
    (the keys denote the values at function entry)."""
    sd = ctx.sd
    cfg = ctx.cfg(f)
    doms = [(k, sd.state_domain) for k in keys_wanted]
    IN, keys = sd.analyze(cfg, f, doms, kill=lambda c: (),
                          ghost=set(keys_wanted))
    return IN[node.id]


def _pre_state_values(ctx, f, node, key):
    return {v[0] for v in _pre_vals(ctx, f, node, [key])}


def guarded_sites(ctx, r6, task_sites, completed, S):
    prog, sd = ctx.prog, ctx.sd
    by_fn = {}
    for g, c in task_sites:
        by_fn.setdefault(g.qname, []).append((g, c))

    def site(q):
        lst = by_fn.get(q)
        if not lst:
            raise AnalysisError('C03.R6: set_state site in %s lost' % q)
        return lst

    # Task.complete: completed tasks only for SKIPPED
    for g, c in site(TASK + '.complete'):
        cfg = ctx.cfg(g)
        IN, keys = sd.analyze(cfg, g, [
            ('self.task_ex.state', sd.state_domain),
            ('state', sd.state_domain), ('self.task_ex', (None, OBJ))])
        n = cfg.node_of(c)
        bad = [v for v in IN[n.id]
               if v[0] in completed and v[1] != S['SKIPPED']]
        r6.check(not bad, ctx.construct(g, c),
                 'Task.complete reaches the CAS for completed tasks with '
                 'targets %s' % sorted({str(v[1]) for v in bad}),
                 ctx.loc(g, c))
    # Task.update: not completed and valid transition
    for g, c in site(TASK + '.update'):
        cfg = ctx.cfg(g)
        IN, keys = sd.analyze(cfg, g, [
            ('self.task_ex.state', sd.state_domain),
            ('state', sd.state_domain)])
        n = cfg.node_of(c)
        bad = [v for v in IN[n.id] if v[0] in completed or
               sd.valid_transition(v[0], v[1]) is not True]
        r6.check(not bad, ctx.construct(g, c),
                 'Task.update reaches set_state for %s' % bad[:3],
                 ctx.loc(g, c))
    # _run_new: only IDLE
    for g, c in site('mistral.engine.tasks.RegularTask._run_new'):
        cfg = ctx.cfg(g)
        IN, keys = sd.analyze(cfg, g, [('self.task_ex.state',
                                        sd.state_domain)])
        n = cfg.node_of(c)
        vals = sd.values_at(IN, keys, n, 'self.task_ex.state')
        r6.check(vals <= {S['IDLE']}, ctx.construct(g, c),
                 '_run_new sets RUNNING from %s' % sorted(map(str, vals)),
                 ctx.loc(g, c))
    # _run_existing: never SUCCESS
    for g, c in site('mistral.engine.tasks.RegularTask._run_existing'):
        cfg = ctx.cfg(g)
        IN, keys = sd.analyze(cfg, g, [('self.task_ex.state',
                                        sd.state_domain)])
        n = cfg.node_of(c)
        vals = sd.values_at(IN, keys, n, 'self.task_ex.state')
        r6.check(S['SUCCESS'] not in vals, ctx.construct(g, c),
                 '_run_existing can re-run a SUCCESS task', ctx.loc(g, c))
        # the refusal has to roll the transaction back: the handlers of
        # task_handler.run_task / continue_task turn every Mistral exception
        # into force_fail_task(), which would move the SUCCESS task to ERROR
        for x in cfg.nodes:
            if x.kind == 'stmt' and isinstance(x.ast, ast.Raise) and \
                    x.ast.exc is not None:
                rv = sd.values_at(IN, keys, x, 'self.task_ex.state')
                if rv and rv <= {S['SUCCESS']}:
                    cls = dotted(x.ast.exc.func) if isinstance(
                        x.ast.exc, ast.Call) else dotted(x.ast.exc)
                    r6.check(not _mistral_exc(prog, g.module, cls),
                             ctx.construct(g, x.ast, extra='escapes the '
                                           'force-fail handler'),
                             'the refusal to re-run a succeeded task raises '
                             '%s, a Mistral exception: run_task catches it '
                             'and force-fails the task, so the SUCCESS task '
                             'becomes ERROR' % cls, ctx.loc(g, x.ast))
    # defer: an existing task found by unique key is only re-deferred when
    # it is not finished
    for g, c in site(TASK + '.defer'):
        cfg = ctx.cfg(g)
        IN, keys = sd.analyze(cfg, g, [('self.task_ex.state',
                                        sd.state_domain)])
        n = cfg.node_of(c)
        vals = sd.values_at(IN, keys, n, 'self.task_ex.state')
        r6.check(not (vals & completed), ctx.construct(g, c),
                 'Task.defer moves an existing task to WAITING from '
                 'finished states %s' % sorted(vals & completed),
                 ctx.loc(g, c))


def finished_workflows(ctx, r7, completed, S):
    prog, sd = ctx.prog, ctx.sd
    key = 'self.wf_ex.state'
    targets = {'_succeed_workflow': S['SUCCESS'],
               '_fail_workflow': S['ERROR'],
               '_cancel_workflow': S['CANCELLED']}
    for name, tgt in targets.items():
        f = prog.func(WF + '.' + name)
        cfg = ctx.cfg(f)
        sites = U.calls_in(cfg, 'set_state')
        if len(sites) != 1:
            raise AnalysisError('C03.R7: %s has %d set_state calls'
                                % (name, len(sites)))
        n, c = sites[0]
        a = c.args[0] if c.args else None
        r7.check(a is not None and sd.ev(a, {}, _frame(sd, f)) == tgt,
                 ctx.construct(f, c), 'terminal setter targets another '
                 'state', ctx.loc(f, c))
        # writes and hand-off are on the success edge of the CAS
        eff = [(t, st) for t, st in U.attr_stores(f.node)
               if dotted(t.value) == 'self.wf_ex']
        eff_nodes = [cfg.stmt_node(st) for _t, st in eff]
        eff_nodes += [x for x, _c in
                      U.calls_in(cfg, '_send_result_to_parent_workflow')]
        if len(eff_nodes) < 2:
            raise AnalysisError('C03.R7: effects of %s lost' % name)
        for en in eff_nodes:
            g = _cas_success_guard(cfg, en, n)
            r7.check(g, ctx.construct(f, en.ast),
                     'effect not dominated by the success edge of '
                     'self.set_state(...)', ctx.loc(f, en.ast))
        # pre-states: guard of the setter AND validity of the transition
        pre = _pre_state_values(ctx, f, n, key)
        pre_valid = {s for s in pre if s is not None and
                     sd.valid_transition(s, tgt) is True}
        r7.check(not (pre_valid & completed),
                 ctx.construct(f, extra='finished workflow untouched'),
                 'setter can succeed on an already finished workflow '
                 '(pre-state %s): output and parent hand-off would be '
                 'repeated' % sorted(pre_valid & completed), ctx.loc(f, c))
    f = prog.func(WF + '.check_and_complete')
    cfg = ctx.cfg(f)
    IN, keys = sd.analyze(cfg, f, [(key, sd.state_domain)])
    okset = set(sd.ALL) - sd.pred_set('is_paused_or_completed')
    for name in targets:
        for n, c in U.calls_in(cfg, name):
            vals = _pre_state_values(ctx, f, n, key)
            r7.check(vals <= okset | {None}, ctx.construct(f, c),
                     'completion reachable for paused/finished workflow '
                     'states %s' % sorted(map(str, vals - okset)),
                     ctx.loc(f, c))
    h = prog.func('mistral.engine.workflow_handler.check_and_complete')
    hcfg = ctx.cfg(h)
    INh, kh = sd.analyze(hcfg, h, [('wf_ex.state', sd.state_domain)])
    for n, c in U.calls_in(hcfg, 'check_and_complete'):
        vals = sd.values_at(INh, kh, n, 'wf_ex.state')
        r7.check(not (vals & completed), ctx.construct(h, c),
                 'handler reaches check_and_complete for finished '
                 'workflows', ctx.loc(h, c))


def loser_path_effect_free(ctx, r2):
    prog = ctx.prog
    # the losing side of either CAS leaves the in-memory object exactly as
    # it was read: callers that ignore the boolean (RegularTask._run_new)
    # notice the lost race only because the stale state is still there
    for fq_, var_ in ((TASK + '.set_state', 'task_ex'),
                      (WF + '.set_state', 'wf_ex')):
        sf = prog.func(fq_)
        scfg = ctx.cfg(sf)
        lost = [x for x in scfg.nodes if x.kind in ('stmt', 'with', 'for')
                and U.guarded(scfg, x, '%s is None' % var_, True)]
        if not lost:
            raise AnalysisError('C03.R2: lost-CAS path of %s not found'
                                % fq_)
        for x in lost:
            calls = [c for c in scfg.own_nodes(x) if isinstance(c, ast.Call)
                     and not (U.call_dotted(c) or '').startswith(
                         ('LOG.', 'wf_trace.'))]
            stores = [t for t in scfg.own_nodes(x)
                      if isinstance(t, (ast.Attribute, ast.Subscript)) and
                      isinstance(t.ctx, ast.Store)]
            r2.check(not calls and not stores, ctx.construct(sf, x.ast),
                     'the losing side of the state CAS does something '
                     'besides returning (%s): a refreshed / modified object '
                     'makes callers that test the in-memory state continue '
                     'as if they had won'
                     % [norm(c, 40) for c in (calls + stores)[:2]],
                     ctx.loc(sf, x.ast))


def cas_skipped_only_when_unchanged(ctx, rule):
    """Task.set_state reports success without the compare-and-swap only
    when the requested state equals the current one (nothing to change)."""
    prog = ctx.prog
    f = prog.func('mistral.engine.tasks.Task.set_state')
    cfg = ctx.cfg(f)
    cas = [n for n, c in U.calls_in(cfg, 'update_task_execution_state')]
    if not cas:
        raise AnalysisError('Task.set_state: CAS call lost')
    st = f.params[1]
    for x in cfg.nodes:
        if x.kind == 'stmt' and isinstance(x.ast, ast.Return) and \
                x.ast.value is not None and norm(x.ast.value) == 'True':
            # paths to this return that avoid the CAS
            avoid = cfg.reach([s_ for s_, k in cfg.entry.succ], avoid=cas)
            if not any(y is x for y in avoid):
                continue
            blocked = [n for n in cfg.nodes if U.guarded(
                cfg, n, 'cur_state == %s' % st, True) or n in cas]
            rule.check(cfg.must_pass(cfg.entry, blocked, exits=[x]),
                       ctx.construct(f, extra='no CAS only when unchanged'),
                       'set_state can return True without the '
                       'compare-and-swap although the requested state '
                       'differs from the current one', ctx.loc(f, x.ast))
    cur = [a for a in own_nodes(f.node) if isinstance(a, ast.Assign) and
           dotted(a.targets[0]) == 'cur_state']
    rule.check(len(cur) == 1 and norm(cur[0].value) == 'self.task_ex.state',
               ctx.construct(f, extra='cur_state read from the row'),
               'cur_state is not the state read from the task execution',
               ctx.loc(f))
    for n, c in U.calls_in(cfg, 'update_task_execution_state'):
        kw = {k.arg: norm(k.value) for k in c.keywords}
        rule.check(kw.get('cur_state') == 'cur_state' and
                   kw.get('state') == st and
                   kw.get('id') == 'self.task_ex.id',
                   ctx.construct(f, extra='CAS arguments'),
                   'the CAS is not (id, cur_state read, requested state)',
                   ctx.loc(f, c))


def _cas_success_guard(cfg, node, cas_node):
    """node is dominated by the edge on which `self.set_state(...)` (the test
    in cas_node) returned a truthy value."""
    for a, truth in U.guard_atoms(cfg, node):
        if isinstance(a, ast.Call) and U.call_name(a) == 'set_state':
            return truth is True
    return False
