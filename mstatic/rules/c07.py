"""C07 - with-items: each item once, within the limit, results in order."""
import ast

from mstatic.core import AnalysisError, dotted, norm, own_nodes
from mstatic.rules import util as U
from mstatic.statedom import OBJ

WIT = 'mistral.engine.tasks.WithItemsTask'
TH = 'mistral.engine.task_handler'


def run(ctx):
    _run(ctx)
    from mstatic.rules import shared
    r9 = ctx.rule('R9', 'the concurrency policy (like every configured '
                  'policy) is applied before the items are scheduled', 'EXH')
    shared.policy_hooks_total(ctx, r9)
    r11 = ctx.rule('R11', 'the named lock that serialises item completions '
                   'is a uniquely named row inserted at once and deleted '
                   'after the body (shared with C04.R11)', 'GD/PAIR')
    from mstatic.rules import txqueue
    txqueue.lock_primitives(ctx, r11)
    r10 = ctx.rule('R10', 'which item executions count as started, in '
                   'flight, done, to re-run (truth tables over state x '
                   'accepted)', 'DT (element predicates)')
    from mstatic.rules import cmdcalc
    cmdcalc.with_items_predicates(ctx, r10)
    from mstatic.rules import completion
    r12 = ctx.rule('R12', 'the scheduled completion / update of an item '
                   'loads the item from the table it lives in', 'DT')
    completion.scheduled_completion_loads(ctx, r12)


def _run(ctx):
    prog, sd = ctx.prog, ctx.sd
    S = sd.consts
    completed = sd.pred_set('is_completed')

    # ---- R1 serialised by the named lock + refresh -------------------------
    r1 = ctx.rule('R1', 'capacity changes, completion and scheduling are '
                  'inside the with-items lock, after refresh and the '
                  'completed-task return', 'GD')
    f = prog.func(WIT + '.on_action_complete')
    cfg = ctx.cfg(f)
    IN, keys = sd.analyze(cfg, f, [('self.task_ex.state', sd.state_domain),
                                   ('self.task_ex', (None, OBJ))])
    effs = cfg.calls(lambda c: U.call_name(c) in (
        '_increase_capacity', '_decrease_capacity', 'complete',
        '_schedule_actions', 'is_with_items_completed'))
    if len(effs) < 4:
        raise AnalysisError('C07.R1: effects of on_action_complete lost')
    for n, c in effs:
        locks = U.inside_with(cfg, n, 'named_lock')
        r1.check(bool(locks) and 'with-items' in norm(
            locks[0].ast.items[0].context_expr) and 'self.task_ex.id' in
            norm(locks[0].ast.items[0].context_expr),
            ctx.construct(f, extra=U.call_name(c) + ' in lock'),
            '%s is outside with named_lock("with-items-<task id>")'
            % U.call_name(c), ctx.loc(f, c))
        refr = [d for d in cfg.dominators(n)
                if U.node_has_call(cfg, d, 'refresh') and locks and
                cfg.dominates(locks[0], d)]
        r1.check(bool(refr), ctx.construct(f, extra=U.call_name(c) +
                                           ' after refresh'),
                 '%s is not dominated by db_api.refresh(self.task_ex) inside '
                 'the lock' % U.call_name(c), ctx.loc(f, c))
        vals = sd.values_at(IN, keys, n, 'self.task_ex.state')
        r1.check(not (vals & completed),
                 ctx.construct(f, extra=U.call_name(c) + ' not completed'),
                 '%s reachable for an already completed task'
                 % U.call_name(c), ctx.loc(f, c))

    # ---- R2 with-items completions decoupled through a keyed job ------------
    r2 = ctx.rule('R2', 'with-items completions go through a keyed '
                  'scheduler job, others inline', 'GD')
    for name, inline, path_const in (
            ('schedule_on_action_complete', '_on_action_complete',
             '_SCHEDULED_ON_ACTION_COMPLETE_PATH'),
            ('schedule_on_action_update', '_on_action_update',
             '_SCHEDULED_ON_ACTION_UPDATE_PATH')):
        g = prog.func(TH + '.' + name)
        cfg = ctx.cfg(g)
        wi = "action_ex.task_execution.spec.get('with-items')"
        IN, keys = sd.analyze(cfg, g, [(wi, (None, OBJ))])
        il = U.calls_in(cfg, inline)
        sj = U.calls_in(cfg, 'SchedulerJob')
        sc = [(n, c) for n, c in U.calls_in(cfg, 'schedule')]
        if not (il and sj and sc):
            raise AnalysisError('C07.R2: %s lost its structure' % name)
        for n, c in il:
            vals = sd.values_at(IN, keys, n, wi)
            r2.check(vals == {None}, ctx.construct(g, extra='inline only '
                                                   'without with-items'),
                     'handler runs inline for with-items tasks',
                     ctx.loc(g, c))
        for n, c in sc:
            vals = sd.values_at(IN, keys, n, wi)
            r2.check(vals == {OBJ}, ctx.construct(g, extra='job only for '
                                                  'with-items'),
                     'the decoupling job is not scheduled exactly for '
                     'with-items tasks', ctx.loc(g, c))
        n, c = sj[0]
        key = U.kwarg(c, 'key')
        fn = U.kwarg(c, 'func_name')
        r2.check(key is not None and 'task_execution_id' in norm(key),
                 ctx.construct(g, extra='job key'),
                 'job key does not contain the task execution id (jobs of '
                 'one task would not be serialised)', ctx.loc(g, c))
        r2.check(fn is not None and dotted(fn) == path_const,
                 ctx.construct(g, extra='job target'),
                 'job does not target %s' % path_const, ctx.loc(g, c))
        # target re-loads the execution in its own transaction
        tgt = prog.try_const(g.module, fn) if fn is not None else None
        tf = prog.funcs.get(tgt) if isinstance(tgt, str) else None
        ok = False
        if tf is not None:
            tcfg = ctx.cfg(tf)
            ins = U.calls_in(tcfg, inline)
            ok = bool(ins) and all(U.inside_with(tcfg, x, 'transaction')
                                   for x, _c in ins) and any(
                U.call_name(y) in ('load_action_execution',
                                   'load_workflow_execution')
                for y in own_nodes(tf.node) if isinstance(y, ast.Call))
        r2.check(ok, ctx.construct(g, extra='target reloads in new tx'),
                 'job target does not reload the execution inside its own '
                 'transaction', ctx.loc(g))

    # ---- R3 capacity accounting ----------------------------------------------
    r3 = ctx.rule('R3', 'every scheduled item takes one unit of capacity, '
                  'every completion returns at most one', 'PAIR')
    sa = prog.func(WIT + '._schedule_actions')
    cfg = ctx.cfg(sa)
    sch = [(n, c) for n, c in cfg.calls(
        lambda c: U.call_name(c) == 'schedule' and
        isinstance(c.func, ast.Attribute) and
        dotted(c.func.value) == 'action')]
    dec = U.calls_in(cfg, '_decrease_capacity')
    if not sch or not dec:
        raise AnalysisError('C07.R3: schedule/_decrease_capacity lost')
    for n, c in sch:
        # next non-exceptional statement(s) must reach a decrease before the
        # loop head / exit
        loops = [x for x in cfg.nodes if x.kind == 'for']
        ok = cfg.must_pass(n, [d for d, _c in dec],
                           exits=[cfg.exit] + loops)
        r3.check(ok, ctx.construct(sa, c),
                 'an item can be scheduled without taking capacity '
                 '(_decrease_capacity not on every path to the next '
                 'iteration)', ctx.loc(sa, c))
        idx = U.kwarg(c, 'index')
        r3.check(idx is not None and isinstance(idx, ast.Name),
                 ctx.construct(sa, extra='index passed'),
                 'the item index is not passed to action.schedule',
                 ctx.loc(sa, c))
    for n, c in dec:
        r3.check(len(c.args) == 1 and norm(c.args[0]) == '1',
                 ctx.construct(sa, c), 'capacity decreased by something '
                 'other than 1 per scheduled item', ctx.loc(sa, c))
    # loop iterates over _get_input_dicts -> _get_next_indexes()[:capacity]
    gi = prog.func(WIT + '._get_input_dicts')
    r3.check(any(isinstance(x, ast.For) and
                 '_get_next_indexes()' in norm(x.iter)
                 for x in own_nodes(gi.node)),
             ctx.construct(gi, extra='iterates next indexes'),
             '_get_input_dicts no longer iterates _get_next_indexes()',
             ctx.loc(gi))
    gn = prog.func(WIT + '._get_next_indexes')
    rets = [x for x in own_nodes(gn.node) if isinstance(x, ast.Return)]
    r3.check(len(rets) == 1 and norm(rets[0].value) == 'indices[:capacity]'
             and any(isinstance(x, ast.Assign) and
                     dotted(x.targets[0]) == 'capacity' and
                     '_get_with_items_capacity()' in norm(x.value)
                     for x in own_nodes(gn.node)),
             ctx.construct(gn, extra='bounded by capacity'),
             'next indexes are not cut to the remaining capacity',
             ctx.loc(gn))
    oc = prog.func(WIT + '.on_action_complete')
    cfg = ctx.cfg(oc)
    inc = U.calls_in(cfg, '_increase_capacity')
    from mstatic.rules.c06 import _max_on_path
    r3.check(len(inc) == 1 and _max_on_path(cfg, [n for n, c in inc]) == 1,
             ctx.construct(oc, extra='one increase per completion'),
             'capacity is increased %d time(s) per completion' % len(inc),
             ctx.loc(oc))
    done = U.calls_in(cfg, 'is_with_items_completed')
    r3.check(bool(inc) and bool(done) and
             cfg.dominates(inc[0][0], done[0][0]),
             ctx.construct(oc, extra='increase before completion test'),
             'completion is tested before the capacity is returned',
             ctx.loc(oc))
    ic = prog.func(WIT + '._increase_capacity')
    cfg = ctx.cfg(ic)
    ok = False
    for x in own_nodes(ic.node):
        if isinstance(x, ast.AugAssign) and isinstance(x.op, ast.Add) and \
                norm(x.value) == '1':
            sn = cfg.stmt_node(x)
            ok = ok or U.guarded(cfg, sn, '__cap < concurrency', True) or \
                U.guarded(cfg, sn, '__cap < self._get_concurrency()', True)
    r3.check(ok, ctx.construct(ic, extra='bounded by concurrency'),
             'capacity increase is not bounded by "< concurrency"',
             ctx.loc(ic))
    dc = prog.func(WIT + '._decrease_capacity')
    cfg = ctx.cfg(dc)
    ok = False
    nn = False
    for x in own_nodes(dc.node):
        if isinstance(x, ast.AugAssign) and isinstance(x.op, ast.Sub):
            sn = cfg.stmt_node(x)
            ok = ok or U.guarded(cfg, sn, 'capacity >= count', True)
            nn = nn or U.guarded(cfg, sn, 'capacity is None', False)
    raises = [cfg.stmt_node(x) for x in own_nodes(dc.node)
              if isinstance(x, ast.Raise)]
    r3.check(ok and bool(raises) and all(
        U.guarded(cfg, x, 'capacity >= count', False) for x in raises),
        ctx.construct(dc, extra='never negative'),
        'capacity can go negative (no capacity >= count guard / raise)',
        ctx.loc(dc))
    r3.check(nn, ctx.construct(dc, extra='unlimited capacity untouched'),
             'capacity arithmetic is not restricted to a configured '
             '(non-None) capacity', ctx.loc(dc))
    # nested changes of runtime_context['with_items'] are invisible to the
    # MutableDict column type: the change must be followed by a top-level
    # write of runtime_context
    for g in (ic, dc):
        gcfg = ctx.cfg(g)
        for x in own_nodes(g.node):
            if isinstance(x, ast.AugAssign) and \
                    isinstance(x.target, ast.Subscript):
                sn = gcfg.stmt_node(x)
                wr = [n for n, c in gcfg.calls(
                    lambda c: U.call_name(c) == 'update' and
                    'runtime_context' in norm(c.func))]
                wr += [gcfg.stmt_node(st) for st in own_nodes(g.node)
                       if isinstance(st, ast.Assign) and any(
                           isinstance(t, ast.Subscript) and
                           'runtime_context' in norm(t.value)
                           for t in st.targets)]
                r3.check(bool(wr) and gcfg.must_pass(sn, wr),
                         ctx.construct(g, extra='capacity written back'),
                         'the changed capacity is not written back with a '
                         'top-level runtime_context update (nested changes '
                         'of a MutableDict column are not persisted)',
                         ctx.loc(g, x))

    # ---- R4 result order --------------------------------------------------------
    r4 = ctx.rule('R4', 'results are sorted by item index and filtered on '
                  'accepted; the index key agrees between writers and '
                  'readers', 'dataflow+AGREE')
    gr = prog.func('mistral.workflow.data_flow.get_task_execution_result')
    cfg = ctx.cfg(gr)
    srt = [(n, c) for n, c in cfg.calls(
        lambda c: U.call_name(c) in ('sort', 'sorted'))]
    res = [x for x in cfg.nodes if x.kind == 'stmt' and
           isinstance(x.ast, ast.Assign) and
           dotted(x.ast.targets[0]) == 'results']
    ok = bool(srt) and bool(res)
    if ok:
        key = U.kwarg(srt[0][1], 'key')
        ok = key is not None and "runtime_context.get('index')" in \
            norm(key) or (key is not None and
                          "runtime_context['index']" in norm(key))
        ok = ok and cfg.dominates(srt[0][0], res[0]) and \
            U.kwarg(srt[0][1], 'reverse') is None
    r4.check(ok, ctx.construct(gr, extra='sorted by index'),
             'executions are not sorted by runtime_context index (ascending) '
             'before the result list is built', ctx.loc(gr))
    r4.check(bool(res) and 'ex.accepted' in norm(res[0].ast.value, 400),
             ctx.construct(gr, extra='accepted only'),
             'result list is not filtered on accepted', ctx.loc(gr))
    for q in ('mistral.engine.actions.RegularAction.'
              '_prepare_runtime_context',
              'mistral.engine.actions.WorkflowAction.schedule',
              'mistral.engine.workflows.Workflow._create_execution'):
        wf = prog.func(q)
        r4.check(U.writes_key(wf.node, 'index'),
                 ctx.construct(wf, extra="writes 'index'"),
                 "the item index is no longer written under key 'index'",
                 ctx.loc(wf))
    gn = prog.func(WIT + '._get_next_indexes')
    inner = [x for qq, x in prog.funcs.items()
             if qq.startswith(gn.qname + '.<locals>.')]
    r4.check(any(U.reads_key(x.node, 'index', 'runtime_context')
                 for x in [gn] + inner),
             ctx.construct(gn, extra="reads 'index'"),
             "_get_next_indexes no longer reads the key 'index'", ctx.loc(gn))

    # ---- R5 final state / completion --------------------------------------------
    r5 = ctx.rule('R5', 'final state precedence, completion condition, '
                  'empty input, partial rerun', 'STATE/EXH')
    fs = prog.func(WIT + '._get_final_state')
    cfg = ctx.cfg(fs)
    rets = [x for x in cfg.nodes if x.kind == 'stmt' and
            isinstance(x.ast, ast.Return)]
    order = []
    for x in sorted(rets, key=lambda z: z.lineno):
        order.append(norm(x.ast.value))
    r5.check(sorted(set(order)) == ['states.CANCELLED', 'states.ERROR',
                                    'states.SUCCESS'],
             ctx.construct(fs, extra='precedence'),
             'final states returned are %s, expected CANCELLED, ERROR, '
             'SUCCESS (precedence is decided by the guards rule)' % order,
             ctx.loc(fs))
    lc = U.lambda_names(fs.node,
                        '__x.accepted and __x.state == states.CANCELLED')
    le = U.lambda_names(fs.node,
                        '__x.accepted and __x.state == states.ERROR')
    r5.check(bool(lc) and bool(le),
             ctx.construct(fs, extra='accepted executions only'),
             'final state looks at executions that are not accepted',
             ctx.loc(fs))
    # guards of the returns
    ok = True
    FP = 'list(filter(__f, self.task_ex.executions))'

    def tested(x, names, truth):
        return any(isinstance(b['__f'], ast.Name) and b['__f'].id in names
                   for b in U.guard_match(cfg, x, FP, truth))
    for x in rets:
        v = norm(x.ast.value)
        if v == 'states.CANCELLED':
            ok = ok and tested(x, lc, True)
        if v == 'states.ERROR':
            ok = ok and tested(x, le, True) and tested(x, lc, False)
        if v == 'states.SUCCESS':
            ok = ok and tested(x, le, False) and tested(x, lc, False)
    r5.check(ok, ctx.construct(fs, extra='guards'),
             'CANCELLED/ERROR/SUCCESS returns are not under their own tests',
             ctx.loc(fs))
    wc = prog.func(WIT + '.is_with_items_completed')
    rets = [x for x in own_nodes(wc.node) if isinstance(x, ast.Return)]
    last = sorted(rets, key=lambda z: z.lineno)[-1]
    m = U.pfind(last.value, '__count == len(__execs) and __full')
    m = [b for nn, b in m if nn is last.value]
    okd = False
    if m:
        b = m[0]
        ev = norm(b['__execs'])
        fv = norm(b['__full'])
        acc = any(isinstance(n, ast.Assign) and norm(n.targets[0]) == ev and
                  any(isinstance(c, ast.comprehension) and any(
                      U.phas(i, '__t.accepted') for i in c.ifs)
                      for c in ast.walk(n.value))
                  for n in own_nodes(wc.node))
        full = any(isinstance(n, ast.Assign) and norm(n.targets[0]) == fv and
                   U.phas(n.value, 'not self._get_concurrency() or '
                          'self._get_with_items_capacity() == '
                          'self._get_concurrency()')
                   for n in own_nodes(wc.node))
        okd = acc and full
    r5.check(bool(m), ctx.construct(wc, extra='all accepted and full '
                                    'capacity'),
             'completion no longer requires count == accepted AND full '
             'capacity: %s' % norm(last.value), ctx.loc(wc))
    r5.check(okd, ctx.construct(wc, extra='definitions'),
             'accepted filter / full-capacity definition changed',
             ctx.loc(wc))
    wcfg = ctx.cfg(wc)
    lcc = U.lambda_names(wc.node,
                         '__x.accepted and __x.state == states.CANCELLED')
    for x in rets:
        if x is last:
            continue
        sn = wcfg.stmt_node(x)
        v = norm(x.value) if x.value is not None else 'None'
        if v in ('False', 'None'):
            okr = True      # "not complete" is always safe for this property
        else:
            okr = v == 'True' and any(
                isinstance(b['__f'], ast.Name) and b['__f'].id in lcc
                for b in U.guard_match(
                    wcfg, sn, 'list(filter(__f, self.task_ex.executions))',
                    True))
        r5.check(okr, ctx.construct(wc, x),
                 'with-items is reported complete early for a reason other '
                 'than an accepted CANCELLED item', ctx.loc(wc, x))
    sa = prog.func(WIT + '._schedule_actions')
    cfg = ctx.cfg(sa)
    comp = [(n, c) for n, c in U.calls_in(cfg, 'complete')
            if c.args and norm(c.args[0]) == 'states.SUCCESS']
    ok = False
    for n, c in comp:
        if U.guarded(cfg, n, 'input_dicts', False):
            nxt = [s for s, k in n.succ if k != 'exc']
            ok = any(isinstance(s.ast, ast.Return) for s in nxt)
    r5.check(ok, ctx.construct(sa, extra='empty input succeeds'),
             'an empty item list does not complete the task with SUCCESS '
             'and return', ctx.loc(sa))
    ra = prog.func('mistral.engine.tasks.RegularTask._reset_actions')
    sel = U.phas(ra.node, '__e.accepted and __e.state in '
                 '[states.ERROR, states.CANCELLED]') or \
        U.phas(ra.node, '__e.accepted and __e.state in '
               '[states.CANCELLED, states.ERROR]')
    rcfg = ctx.cfg(ra)
    allx = False
    for n in own_nodes(ra.node):
        if isinstance(n, ast.Assign) and U.phas(
                n.value, 'self.task_ex.executions') and \
                not isinstance(n.value, ast.ListComp):
            sn = rcfg.stmt_node(n)
            g = U.polarity_guard(rcfg, sn,
                                 lambda t: norm(t) == 'self.reset_flag')
            allx = allx or (g is not None and g[1] is True)
    un = [st for t, st in U.attr_stores(ra.node) if t.attr == 'accepted']
    r5.check(sel and allx and bool(un) and
             all(norm(x.value) == 'False' for x in un),
             ctx.construct(ra, extra='partial rerun'),
             'without reset, executions other than accepted ERROR/CANCELLED '
             'ones are un-accepted', ctx.loc(ra))

    # ---- R8 decisions of one completion -------------------------------------
    r8 = ctx.rule('R8', 'a completion finishes the task only when all items '
                  'are done, with the computed final state, and schedules '
                  'further items only otherwise', 'GD')
    oc = prog.func(WIT + '.on_action_complete')
    cfg = ctx.cfg(oc)
    DONE = 'self.is_with_items_completed()'
    comp = U.calls_in(cfg, 'complete')
    if not comp:
        raise AnalysisError('C07.R8: complete() lost in on_action_complete')
    for n, c in comp:
        r8.check(U.guarded(cfg, n, DONE, True), ctx.construct(oc, c),
                 'the task is completed without is_with_items_completed() '
                 'holding', ctx.loc(oc, c))
        a0 = c.args[0] if c.args else None
        okv = False
        if isinstance(a0, ast.Name):
            defs = [x for x in own_nodes(oc.node) if isinstance(x, ast.Assign)
                    and any(dotted(t) == a0.id for t in x.targets)]
            okv = bool(defs) and all(
                norm(x.value) == 'self._get_final_state()' for x in defs)
        elif a0 is not None:
            okv = norm(a0) == 'self._get_final_state()'
        r8.check(okv, ctx.construct(oc, extra='final state passed'),
                 'the state passed to complete() is not the value of '
                 '_get_final_state()', ctx.loc(oc, c))
    for n, c in U.calls_in(cfg, '_schedule_actions'):
        r8.check(U.guarded(cfg, n, DONE, False) and
                 U.guarded(cfg, n, 'self._has_more_iterations()', True) and
                 U.guarded(cfg, n, 'self._get_concurrency()', True),
                 ctx.construct(oc, extra='schedule more only when needed'),
                 'further items are scheduled although the task is complete, '
                 'nothing is left, or there is no concurrency limit '
                 '(everything was started at once)', ctx.loc(oc, c))
    # first scheduling round initialises {count, capacity} before indexes
    # are computed
    sa = prog.func(WIT + '._schedule_actions')
    cfg = ctx.cfg(sa)
    gid = U.calls_in(cfg, '_get_input_dicts')
    prep = U.calls_in(cfg, '_prepare_runtime_context')
    if not gid or not prep:
        raise AnalysisError('C07.R8: _schedule_actions structure lost')
    notnew = U.nodes_where(cfg, 'self._is_new()', False)
    r8.check(cfg.must_pass(cfg.entry, [n for n, c in prep] + notnew,
                           exits=[n for n, c in gid]),
             ctx.construct(sa, extra='context prepared first'),
             'item indexes can be computed for a new task before '
             '_prepare_runtime_context() stored count and capacity',
             ctx.loc(sa))
    pr = prog.func(WIT + '._prepare_runtime_context')
    okp = False
    for x in own_nodes(pr.node):
        if isinstance(x, ast.Dict):
            kv = {norm(k): norm(v) for k, v in zip(x.keys, x.values)
                  if k is not None}
            okp = okp or (kv.get('self._CAPACITY') ==
                          'self._get_concurrency()' and
                          kv.get('self._COUNT') == pr.params[1])
            if okp:
                sn = ctx.cfg(pr).node_of(x)
                ga = U.guard_atoms(ctx.cfg(pr), sn)
                okp = all(t is False and U.phas(a, '___.get(self._WITH_ITEMS)')
                          for a, t in ga)
    r8.check(okp, ctx.construct(pr, extra='count and capacity'),
             'the with-items context is not initialised with count = number '
             'of items and capacity = concurrency', ctx.loc(pr))
    for n, c in prep:
        a = c.args[0] if c.args else None
        okc = False
        if isinstance(a, ast.Name):
            defs = [x for x in own_nodes(sa.node) if isinstance(x, ast.Assign)
                    and any(dotted(t) == a.id for t in x.targets)]
            okc = bool(defs) and all(U.phas(x.value, 'len(___)')
                                     for x in defs)
        r8.check(okc, ctx.construct(sa, extra='count is a length'),
                 'the item count passed to _prepare_runtime_context is not '
                 'a len(...) of the evaluated with-items values',
                 ctx.loc(sa, c))
    # one input dict per index, tagged with that index
    gi = prog.func(WIT + '._get_input_dicts')
    loops = [x for x in own_nodes(gi.node) if isinstance(x, ast.For) and
             '_get_next_indexes()' in norm(x.iter)]
    oka = False
    for lp in loops:
        if not isinstance(lp.target, ast.Name):
            continue
        iv = lp.target.id
        apps = [x for x in lp.body if isinstance(x, ast.Expr) and
                U.phas(x.value, 'result.append((%s, ___))' % iv)]
        rets = [x for x in own_nodes(gi.node) if isinstance(x, ast.Return)]
        oka = len(apps) == 1 and bool(rets) and all(
            norm(x.value) == 'result' for x in rets)
    r8.check(oka, ctx.construct(gi, extra='one entry per index'),
             '_get_input_dicts does not return exactly one (index, input) '
             'entry per next index', ctx.loc(gi))
    # next indexes: candidates (completed but unaccepted) first, otherwise
    # continue after what was started
    gn = prog.func(WIT + '._get_next_indexes')
    cfg = ctx.cfg(gn)
    for x in cfg.nodes:
        if x.kind not in ('stmt', 'test') or x.ast is None:
            continue
        if isinstance(x.ast, (ast.FunctionDef, ast.For, ast.If, ast.While)):
            continue
        if U.phas(x.ast, 'max(candidates)') and x.kind == 'stmt':
            r8.check(U.guarded(cfg, x, 'candidates', True),
                     ctx.construct(gn, x.ast),
                     'max(candidates) evaluated although candidates may be '
                     'empty', ctx.loc(gn, x.ast))
        if U.phas(x.ast, 'self._get_next_start_index()') and x.kind == 'stmt':
            r8.check(U.guarded(cfg, x, 'candidates', False),
                     ctx.construct(gn, x.ast),
                     'the start index is used although items to re-run '
                     '(completed, not accepted) exist', ctx.loc(gn, x.ast))
    cand = [x for x in own_nodes(gn.node) if isinstance(x, ast.Assign) and
            dotted(x.targets[0]) == 'candidates']
    r8.check(len(cand) == 1 and
             U.phas(cand[0].value, 'set(unaccepted) - set(accepted)'),
             ctx.construct(gn, extra='candidates'),
             'items to re-run are not "unaccepted minus accepted" indexes',
             ctx.loc(gn))
    # after the items to re-run, every later index up to the item count is
    # still scheduled (finite-domain evaluation of the tail condition)
    from mstatic.rules import dt
    mx = [x for x in own_nodes(gn.node) if isinstance(x, ast.Call) and
          U.call_name(x) == 'max' and len(x.args) == 1]
    tails = [x for x in own_nodes(gn.node)
             if isinstance(x, (ast.AugAssign, ast.Assign)) and
             any(isinstance(c, ast.Call) and U.call_name(c) == 'range' and
                 len(c.args) == 2 and U.phas(c.args[0], 'max(___) + 1')
                 for c in ast.walk(x.value))]
    cnt = [k for k, v in U._single_defs(gn.node).items()
           if U.phas(v, 'self._get_with_items_count()') and
           isinstance(v, ast.Call)]
    if not mx or len(tails) != 1 or len(cnt) != 1:
        raise AnalysisError('C07.R8: tail of the next indexes not found')
    kmax = dt.text(mx[0])
    rng = (0, 1, 2, 3, 4)
    cand = dotted(mx[0].args[0]) or norm(mx[0].args[0])
    tb = dt.Table(ctx, gn, [(kmax, rng), (cnt[0], rng), (cand, (OBJ, ()))],
                  constraint=lambda d: d[kmax] < d[cnt[0]])
    tb.undecided(r8, 'the items to re-run and the item count',
                 force=tails)
    tn = tb.cfg.stmt_node(tails[0])
    got = tb.inputs_at(tn)
    miss = [v for v in tb.init_inputs
            if v[2] == OBJ and v[0] + 1 < v[1] and v not in got]
    r8.check(not miss, ctx.construct(gn, tails[0], extra='tail scheduled'),
             'with items to re-run up to index %s and %s items in total the '
             'indexes after them are not added: those items are never '
             'started' % (miss[0][:2] if miss else ('', '')),
             ctx.loc(gn, tails[0]))
    rg = [c for c in ast.walk(tails[0].value) if isinstance(c, ast.Call) and
          U.call_name(c) == 'range'][0]
    # ... but only indexes that were never started: an item after the last
    # failed one that already has an execution must not run again (it would
    # be counted twice, count == accepted never holds again and the task
    # stays RUNNING for ever)
    tv_ = tails[0].value
    filt = []
    for x in ast.walk(tv_):
        if isinstance(x, (ast.ListComp, ast.GeneratorExp, ast.SetComp)):
            for g in x.generators:
                if any(c is rg for c in ast.walk(g.iter)):
                    for i_ in g.ifs:
                        at = []
                        U._atoms(i_, True, at)
                        for a_, t_ in at:
                            if isinstance(a_, ast.Compare) and \
                                    isinstance(a_.ops[0], ast.In) and \
                                    t_ is False and \
                                    norm(a_.left) == norm(g.target):
                                filt.append(a_.comparators[0])
        if isinstance(x, ast.BinOp) and isinstance(x.op, ast.Sub) and \
                any(c is rg for c in ast.walk(x.left)):
            filt.append(x.right)

    def _reads_all_executions(e, depth=4):
        ce = U.canon_expr(gn.node, e, depth)
        return any(dotted(y) == 'self.task_ex.executions'
                   for y in ast.walk(ce))
    r8.check(any(_reads_all_executions(e) for e in filt),
             ctx.construct(gn, tails[0], extra='tail skips started items'),
             'after the items to re-run every index up to the item count is '
             'scheduled again, including items that already have an '
             'execution: with item 0 failed and items 1, 2 succeeded a rerun '
             'without reset runs 1 and 2 again, five results are accepted '
             'for three items and the task never completes', ctx.loc(gn, tails[0]))
    r8.check(norm(U.canon_expr(gn.node, rg.args[1])) in (
        cnt[0], 'self._get_with_items_count()'),
        ctx.construct(gn, rg, extra='tail ends at the item count'),
        'the tail of indexes does not end at the item count', ctx.loc(gn, rg))
    # result shape
    gr = prog.func('mistral.workflow.data_flow.get_task_execution_result')
    cfg = ctx.cfg(gr)
    WI = 'spec_parser.get_task_spec(task_ex.spec).get_with_items()'
    for x in cfg.nodes:
        if x.kind == 'stmt' and isinstance(x.ast, ast.Return) and \
                x.ast.value is not None:
            v = x.ast.value
            if norm(v) == 'results':
                r8.check(U.guarded(cfg, x, WI, True), ctx.construct(gr, x.ast),
                         'the full result list is not returned exactly for '
                         'with-items tasks', ctx.loc(gr, x.ast))
            else:
                r8.check(U.guarded(cfg, x, WI, False) and
                         (not U.phas(v, 'results[0]') or
                          isinstance(v, ast.IfExp) and
                          U.phas(v.test, 'len(results) == 1') and
                          U.phas(v.body, 'results[0]') or
                          U.guarded(cfg, x, 'len(results) == 1', True)),
                         ctx.construct(gr, x.ast),
                         'a with-items result can be unwrapped / a single '
                         'result is not selected by len(results) == 1',
                         ctx.loc(gr, x.ast))

    # ---- R7 item accounting reads the polymorphic collection ---------------------
    r7 = ctx.rule('R7', 'item accounting uses task_ex.executions, not a '
                  'type-specific collection; accepted tracks completion',
                  'WMW+GD')
    child_collections(ctx, r7)
    from mstatic.rules import shared
    shared.accepted_tracks_completion(ctx, r7)

    # ---- R6 duplicate completion (shared with C06.R6) ---------------------------
    r6 = ctx.rule('R6', 'capacity is not returned twice for one item',
                  'dataflow')
    f = prog.func(WIT + '.on_action_complete')
    arg = f.params[1]
    cfg = ctx.cfg(f)
    mut = [n for n in own_nodes(f.node) if isinstance(n, ast.Call) and
           U.call_name(n) in ('_increase_capacity', '_schedule_actions')]
    if not mut:
        raise AnalysisError('C07.R6: accounting calls lost')
    # for plain actions the repeated delivery never gets here: the second
    # result is refused (raises, transaction rolls back) in
    # RegularAction.complete - without that refusal the scheduled
    # on_action_complete below would credit capacity a second time
    ra = prog.func('mistral.engine.actions.RegularAction.complete')
    racfg = ctx.cfg(ra)
    done = ctx.sd.pred_set('is_completed')
    INr, kr = ctx.sd.analyze(racfg, ra, [('self.action_ex.state',
                                          ctx.sd.state_domain)],
                             kill=lambda c: ())
    refused = [x for x in racfg.nodes if x.kind == 'stmt' and
               isinstance(x.ast, ast.Raise) and x.ast.exc is not None and
               ctx.sd.values_at(INr, kr, x, 'self.action_ex.state') and
               ctx.sd.values_at(INr, kr, x, 'self.action_ex.state') <= done]
    ends = [x for x in racfg.nodes if x.kind == 'stmt' and
            isinstance(x.ast, ast.Return) and
            ctx.sd.values_at(INr, kr, x, 'self.action_ex.state') & done]
    r6.check(bool(refused) and not ends,
             ctx.construct(ra, extra='a repeated result is refused, not '
                           'ignored'),
             'a result for an already completed action is not refused with '
             'an error (returning quietly lets action_handler schedule '
             'WithItemsTask.on_action_complete again: capacity is credited '
             'twice and concurrency + 1 items run)', ctx.loc(ra))
    for c in mut:
        cn = cfg.node_of(c)
        guarded = any(isinstance(t, ast.expr) and arg in {
            x.id for x in ast.walk(t) if isinstance(x, ast.Name)}
            for (t, pol, gn_) in cfg.guards(cn))
        r6.check(guarded, ctx.construct(f, c),
                 'capacity / scheduling is changed without consulting the '
                 'delivered execution %r' % arg, ctx.loc(f, c))


# type-specific collections may be used only here (reason each)
TYPED_COLLECTION_OK = {
    'mistral.engine.tasks.Task.complete':
        'keep-result: destroys outputs of plain actions only (hasattr '
        'output check)',
    'mistral.engine.actions.Action._create_action_execution':
        'keeps the session collection in sync for a new plain action',
    'mistral.engine.workflows._build_fail_info_message':
        'error report lists both kinds separately',
}


def child_collections(ctx, rule):
    """Item accounting must read the polymorphic `task_ex.executions`
    (plain actions OR sub-workflows); a type-specific collection makes the
    accounting blind for the other kind of item."""
    prog = ctx.prog
    n = 0
    for q, f in sorted(prog.funcs.items()):
        if not f.module.startswith(('mistral.engine.', 'mistral.workflow.')):
            continue
        for x in own_nodes(f.node):
            if isinstance(x, ast.Attribute) and x.attr in (
                    'action_executions', 'workflow_executions') and \
                    isinstance(x.ctx, ast.Load):
                n += 1
                root = f
                while root.parent is not None:
                    root = root.parent
                rule.check(root.qname in TYPED_COLLECTION_OK,
                           ctx.construct(f, x),
                           'uses the type-specific collection .%s instead '
                           'of task_ex.executions: items of the other kind '
                           '(sub-workflows / plain actions) are invisible '
                           'to this computation' % x.attr, ctx.loc(f, x),
                           TYPED_COLLECTION_OK.get(root.qname, ''))
    if n < 3:
        raise AnalysisError('child collections: only %d typed uses' % n)
    k, node = prog.class_attr('mistral.db.v2.sqlalchemy.models.'
                              'TaskExecution', 'executions')
    pf = prog.funcs.get('mistral.db.v2.sqlalchemy.models.TaskExecution.'
                        'executions')
    ok = pf is not None and pf.has_decorator('property') and (
        U.phas(pf.node, "self.action_executions if not "
               "self.spec.get('workflow') else self.workflow_executions") or
        U.phas(pf.node, "self.workflow_executions if "
               "self.spec.get('workflow') else self.action_executions"))
    rule.check(ok, 'mistral.db.v2.sqlalchemy.models.TaskExecution.'
               'executions :: polymorphic', 'TaskExecution.executions no '
               'longer selects the collection by task kind',
               'mistral/db/v2/sqlalchemy/models.py')
