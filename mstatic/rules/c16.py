"""C16 - every REST operation is authorised and guarded before any effect."""
import ast

from mstatic.core import AnalysisError, NotConst, dotted, norm, own_nodes
from mstatic.rules import util as U
from mstatic.statedom import OBJ, OTHER

CTRL_PREFIX = 'mistral.api.controllers'

# exposed methods that legitimately have no acl.enforce (A.4 of DESIGN.md)
NO_ENFORCE = {
    'mistral.api.controllers.root.RootController.index':
        'API version document, no tenant data',
    'mistral.api.controllers.v2.root.Controller.index':
        'v2 root document, no tenant data',
    'mistral.api.controllers.info.InfoController.get':
        'static info file, config gated, no tenant data',
    'mistral.api.controllers.maintenance.MaintenanceController.get':
        'service-level endpoint outside the v2 resource tree; no rule exists',
    'mistral.api.controllers.maintenance.MaintenanceController.put':
        'service-level endpoint outside the v2 resource tree; no rule exists',
    'mistral.api.controllers.v2.validation.SpecValidationController.post':
        'parses the request body only, reads no stored data',
    'mistral.api.controllers.v2.workflow.WorkflowsController._lookup':
        'pecan routing hook, delegates to sub-controllers',
}

EFFECT_PREFIXES = ('mistral.db.', 'mistral.rpc.clients', 'mistral.services.',
                   'mistral.engine.', 'mistral.scheduler.',
                   'mistral.event_engine.', 'mistral.notifiers.')

VERB = {'get': 'get', 'get_all': 'list', 'post': 'create', 'put': 'update',
        'delete': 'delete'}
HTTP = {'get': 'GET', 'get_all': 'GET', 'post': 'POST', 'put': 'PUT',
        'delete': 'DELETE'}

# REST resource type (first wsexpose argument) -> policy resource prefix
RESOURCE_PREFIX = {
    'Action': 'actions', 'Actions': 'actions',
    'ActionExecution': 'action_executions',
    'ActionExecutions': 'action_executions',
    'CodeSource': 'code_sources', 'CodeSources': 'code_sources',
    'CronTrigger': 'cron_triggers', 'CronTriggers': 'cron_triggers',
    'DynamicAction': 'dynamic_actions', 'DynamicActions': 'dynamic_actions',
    'Environment': 'environments', 'Environments': 'environments',
    'EventTrigger': 'event_triggers', 'EventTriggers': 'event_triggers',
    'Execution': 'executions', 'Executions': 'executions',
    'ExecutionReport': 'executions',
    'Member': 'members', 'Members': 'members',
    'Task': 'tasks', 'Tasks': 'tasks',
    'Workbook': 'workbooks', 'Workbooks': 'workbooks',
    'Workflow': 'workflows', 'Workflows': 'workflows',
}


def policy_registry(prog):
    """Fold mistral/policies/*.py into {rule name: {...}}."""
    init = 'mistral.policies'
    lr = prog.func(init + '.list_rules')
    mods = []
    for n in own_nodes(lr.node):
        if isinstance(n, ast.Call) and isinstance(n.func, ast.Attribute) \
                and n.func.attr == 'list_rules':
            d = dotted(n.func.value)
            if d:
                m = prog.resolve_dotted(init, d)
                if m in prog.modules:
                    mods.append(m)
    if len(mods) < 5:
        raise AnalysisError('policy registry: only %d rule modules found'
                            % len(mods))
    reg = {}
    for m in mods:
        node = prog.module_assigns[m].get('rules')
        if not isinstance(node, ast.List):
            raise AnalysisError('policy module %s has no rules list' % m)
        for el in node.elts:
            if not isinstance(el, ast.Call):
                continue
            kw = {k.arg: k.value for k in el.keywords}
            pos = list(el.args)
            name_n = kw.get('name', pos[0] if pos else None)
            chk_n = kw.get('check_str', pos[1] if len(pos) > 1 else None)
            try:
                name = prog.eval_const(m, name_n)
                chk = prog.eval_const(m, chk_n)
                ops = prog.eval_const(m, kw['operations']) \
                    if 'operations' in kw else []
            except NotConst as e:
                raise AnalysisError('cannot fold policy rule in %s: %s'
                                    % (m, e))
            reg[name] = {'check_str': chk, 'module': m,
                         'methods': {o.get('method') for o in ops},
                         'paths': [o.get('path') for o in ops]}
    return reg


def exposed_methods(prog):
    out = []
    for q, f in sorted(prog.funcs.items()):
        if not f.module.startswith(CTRL_PREFIX) or f.parent is not None:
            continue
        if not f.cls:
            continue
        if any('wsexpose' in d or d.startswith('pecan.expose') or
               d.startswith('expose') for d in f.decorators):
            out.append(f)
    return out


def expose_info(f):
    """(kind, resource type name or None)"""
    for d in f.node.decorator_list:
        txt = ast.unparse(d)
        if 'wsexpose' in txt and isinstance(d, ast.Call):
            rt = None
            if d.args:
                a = d.args[0]
                if isinstance(a, ast.Attribute):
                    rt = a.attr
                elif isinstance(a, ast.Name):
                    rt = a.id
                elif isinstance(a, ast.Constant) and a.value is None:
                    rt = None
            body = None
            for k in d.keywords:
                if k.arg == 'body':
                    body = k.value.attr if isinstance(k.value, ast.Attribute)\
                        else (k.value.id if isinstance(k.value, ast.Name)
                              else None)
            return 'wsexpose', rt, body
        if txt.startswith('pecan.expose') or txt.startswith('expose'):
            return 'pecan', None, None
    return None, None, None


def enforce_calls(ctx, f):
    """[(cfg node, call, rule literal or None)] in f's own body."""
    cfg = ctx.cfg(f)
    out = []
    for n, c in cfg.calls(lambda c: U.is_call(c, 'acl.enforce', 'enforce')):
        rule = None
        if c.args and isinstance(c.args[0], ast.Constant) and \
                isinstance(c.args[0].value, str):
            rule = c.args[0].value
        out.append((n, c, rule))
    return out


def effect_set(ctx):
    cg = ctx.cg
    roots = [q for q in ctx.prog.funcs
             if q.startswith(EFFECT_PREFIXES)]
    return cg.reach_backward(roots, kinds=('call', 'ref', 'cha', 'nested'))


def effectful_nodes(ctx, f, eff):
    """CFG nodes of f containing a call that can reach an effectful
    function (resolved callee or address-taken argument)."""
    cfg = ctx.cfg(f)
    cg = ctx.cg
    out = []
    for n, c in cfg.calls():
        if U.is_call(c, 'acl.enforce', 'enforce'):
            continue
        tg = set(cg.call_targets(f.qname, c))
        refs = set()
        for a in list(c.args) + [k.value for k in c.keywords]:
            for t, _k in cg._func_ref(f, cg.local_env(f), a):
                refs.add(t)
        hit = {t for t in tg | refs if t in eff and t != f.qname}
        if hit:
            out.append((n, c, sorted(hit)[:3]))
    return out


def is_primary(rule):
    return rule is not None and not rule.endswith(':publicize') and \
        not rule.endswith(':all_projects')


def run(ctx):
    _run(ctx)
    r8 = ctx.rule('R8', 'every request outside the index documents is '
                  'authenticated before any controller runs (401 on '
                  'failure); the request context is per request', 'DT + GD')
    from mstatic.rules import authhook
    authhook.auth_hook(ctx, r8)
    authhook.request_context(ctx, r8)
    authhook.identity_headers(ctx, r8)


def _run(ctx):
    prog = ctx.prog
    reg = policy_registry(prog)
    methods = exposed_methods(prog)
    eff = effect_set(ctx)

    # ---- R1 enforce first ------------------------------------------------
    r1 = ctx.rule('R1', 'acl.enforce dominates every effectful call of '
                  'every exposed controller method', 'EXH+GD')
    r1.floor(40)
    checked = []
    for f in methods:
        if f.qname in NO_ENFORCE:
            # an exempt method must stay free of tenant data access: it may
            # not reach the DB API read/write functions
            r1.ok(ctx.construct(f), 'exempt: ' + NO_ENFORCE[f.qname])
            continue
        enf = [(n, c, r) for (n, c, r) in enforce_calls(ctx, f)
               if is_primary(r)]
        cfg = ctx.cfg(f)
        if not enf:
            r1.fail(ctx.construct(f), 'exposed method has no acl.enforce '
                    'with a constant rule', ctx.loc(f))
            continue
        effs = effectful_nodes(ctx, f, eff)
        bad = []
        for n, c, hit in effs:
            if not any(en is not n and cfg.dominates(en, n)
                       for (en, _c, _r) in enf):
                bad.append((n, c, hit))
        if bad:
            for n, c, hit in bad:
                r1.fail(ctx.construct(f, c),
                        'effectful call (reaches %s) is not dominated by '
                        'acl.enforce' % ', '.join(hit), ctx.loc(f, c))
        else:
            r1.ok(ctx.construct(f), '%d effectful call(s) all dominated by '
                  'enforce(%s)' % (len(effs), enf[0][2]))
        checked.append((f, enf))
    # nested helper functions must not enforce on behalf of the outer body
    # (their effects are covered through the call to them)

    # ---- R2 documented rule ----------------------------------------------
    r2 = ctx.rule('R2', 'enforced rule is registered, matches resource, '
                  'verb and HTTP method', 'AGREE')
    r2.floor(40)
    for f, enf in checked:
        kind, rtype, body = expose_info(f)
        for (n, c, rule) in enf:
            cons = ctx.construct(f, c)
            if rule not in reg:
                r2.fail(cons, 'rule %r is not in the policy registry' % rule,
                        ctx.loc(f, c))
                continue
            pre, _, verb = rule.partition(':')
            want_verb = VERB.get(f.name)
            problems = []
            if want_verb and verb != want_verb:
                problems.append('verb %r does not match method %s (%s)'
                                % (verb, f.name, want_verb))
            want_pre = RESOURCE_PREFIX.get(rtype) if rtype else None
            if want_pre is None and body:
                want_pre = RESOURCE_PREFIX.get(body)
            if want_pre and pre != want_pre:
                problems.append('resource prefix %r does not match the '
                                'exposed resource type %s (%s)'
                                % (pre, rtype or body, want_pre))
            if HTTP.get(f.name) and reg[rule]['methods'] and \
                    HTTP[f.name] not in reg[rule]['methods']:
                problems.append('registry documents %s, method is %s'
                                % (sorted(reg[rule]['methods']),
                                   HTTP[f.name]))
            if problems:
                r2.fail(cons, '; '.join(problems), ctx.loc(f, c))
            else:
                r2.ok(cons, 'registered, check_str=%s'
                      % reg[rule]['check_str'])
    # controllers agree on one resource prefix per class
    by_cls = {}
    for f, enf in checked:
        for (_n, _c, rule) in enf:
            by_cls.setdefault(f.cls, set()).add(rule.split(':')[0])
    for c, pres in sorted(by_cls.items()):
        r2.check(len(pres) == 1, c + ' :: resource prefix',
                 'methods of one controller enforce rules of different '
                 'resources: %s' % sorted(pres), prog.loc(c))

    # ---- R3 cross-project listing ----------------------------------------
    r3 = ctx.rule('R3', 'all_projects listing requires the admin-only '
                  'list:all_projects rule', 'GD')
    r3.floor(4)
    for f in methods:
        if 'all_projects' not in f.params:
            continue
        cfg = ctx.cfg(f)
        sinks = []
        for n, c in cfg.calls():
            for k in c.keywords:
                if k.arg == 'all_projects' and not (
                        isinstance(k.value, ast.Constant) and
                        not k.value.value):
                    sinks.append((n, c))
            if any(isinstance(a, ast.Name) and a.id == 'all_projects'
                   for a in c.args) and not U.is_call(
                       c, 'debug', 'info', 'warning'):
                sinks.append((n, c))
        if not sinks:
            r3.ok(ctx.construct(f), 'all_projects parameter is not '
                  'forwarded')
            continue
        # an enforce of any rule that the registry marks admin-only blocks
        # the path for non-admins (code sources / dynamic actions make the
        # plain list rule admin-only; the others have :list:all_projects)
        enf = [(n, c, r) for (n, c, r) in enforce_calls(ctx, f)
               if r in reg and reg[r]['check_str'] == 'rule:admin_only']
        block = {n.id for (n, _c, _r) in enf}
        IN, keys = ctx.sd.analyze(cfg, f, [('all_projects', (False, True))],
                                  block=block)
        for n, c in sinks:
            vals = ctx.sd.values_at(IN, keys, n, 'all_projects')
            cons = ctx.construct(f, extra='all_projects -> ' +
                                 (U.call_dotted(c) or 'call'))
            if True in vals:
                r3.fail(cons, 'all_projects=True reaches %s without passing '
                        'an acl.enforce of an admin-only rule'
                        % U.call_dotted(c), ctx.loc(f, c))
            else:
                r3.ok(cons, 'guarded by %s' % [r for (_n, _c, r) in enf])
        for (_n, c, rule) in enforce_calls(ctx, f):
            if rule and rule.endswith(':list:all_projects'):
                cons = ctx.construct(f, c)
                r3.check(rule in reg and
                         reg[rule]['check_str'] == 'rule:admin_only', cons,
                         'rule %r is not registered as admin-only' % rule,
                         ctx.loc(f, c))
    # base rule admin_only itself
    base = prog.module_assigns['mistral.policies.base'].get('rules')
    admin_ok = False
    if isinstance(base, ast.List):
        for el in base.elts:
            if isinstance(el, ast.Call) and len(el.args) >= 2:
                nm = prog.try_const('mistral.policies.base', el.args[0])
                cs = prog.try_const('mistral.policies.base', el.args[1])
                if nm == 'admin_only':
                    admin_ok = (cs == 'is_admin:True')
    r3.check(admin_ok, 'mistral.policies.base :: admin_only',
             'base rule admin_only is not "is_admin:True"',
             'mistral/policies/base.py')
    insecure_origin(ctx, r3)

    # ---- R4 publicize ----------------------------------------------------
    r4 = ctx.rule('R4', 'making a resource public requires the publicize '
                  'rule before any effect', 'GD')
    r4.floor(10)
    scoped_resources = scoped_resource_types(prog)
    for f in methods:
        if f.name not in ('post', 'put') or f.qname in NO_ENFORCE:
            continue
        cands = scope_expressions(f)
        kind, rtype, body = expose_info(f)
        if not cands:
            if body in scoped_resources:
                r4.fail(ctx.construct(f), 'request body type %s carries a '
                        'scope but the method never inspects it (no '
                        'publicize check possible)' % body, ctx.loc(f))
            continue
        cfg = ctx.cfg(f)
        enf = [(n, c, r) for (n, c, r) in enforce_calls(ctx, f)
               if r and r.endswith(':publicize')]
        block = {n.id for (n, _c, _r) in enf}
        variables = [(k, ('public', 'private', None, OTHER)) for k in cands]
        IN, keys = ctx.sd.analyze(cfg, f, variables, block=block)
        effs = effectful_nodes(ctx, f, eff)
        bad = []
        for n, c, hit in effs:
            for v in IN[n.id]:
                if 'public' in v:
                    bad.append((n, c, hit))
                    break
        if not effs:
            r4.fail(ctx.construct(f), 'no effectful call found in a '
                    'create/update method (resolver lost the mutation)',
                    ctx.loc(f))
            continue
        if bad:
            n, c, hit = bad[0]
            r4.fail(ctx.construct(f, extra='publicize'),
                    'scope == "public" reaches %s without passing '
                    'acl.enforce(<res>:publicize)' % norm(c, 60),
                    ctx.loc(f, c))
        else:
            r4.ok(ctx.construct(f, extra='publicize'),
                  'scope via %s; %d effectful call(s) unreachable with '
                  'public unless %s passed' % (cands, len(effs),
                                               [r for _n, _c, r in enf]))
        for (_n, c, rule) in enf:
            pre = rule.split(':')[0]
            prim = [r for (_a, _b, r) in enforce_calls(ctx, f)
                    if is_primary(r)]
            r4.check(rule in reg and (not prim or
                                      prim[0].split(':')[0] == pre),
                     ctx.construct(f, c),
                     'publicize rule %r unregistered or of another resource'
                     % rule, ctx.loc(f, c))

    # the comparison `scope == 'public'` of the controllers decides on the
    # value the client sent: what validate_scope lets through are exactly
    # the literal scope values (no case folding / stripping in front of the
    # membership test - 'PUBLIC' would pass the validation, skip the
    # literal comparison and be stored as a public resource after any
    # normalisation further down)
    vs = prog.func('mistral.api.controllers.v2.resources.ScopedResource.validate_scope')
    vcfg = ctx.cfg(vs)
    P_ = vs.params[-1]
    raises = [x for x in vcfg.nodes if x.kind == 'stmt' and
              isinstance(x.ast, ast.Raise)]
    okv = len(raises) == 1 and any(
        isinstance(a, ast.Compare) and isinstance(a.ops[0], ast.In) and
        isinstance(a.left, ast.Name) and a.left.id == P_ and not t and
        norm(a.comparators[0]) == 'SCOPE_TYPES.values'
        for a, t in U.guard_atoms(vcfg, raises[0])) and \
        U.reaching_defs(vcfg, P_).get(raises[0].id, set()) <= {'param'} and \
        not any(x.kind == 'stmt' and isinstance(x.ast, ast.Return)
                for x in vcfg.nodes)
    st = None
    for x in ast.walk(prog.module('mistral.api.controllers.v2.resources')):
        if isinstance(x, ast.Assign) and dotted(x.targets[0]) == 'SCOPE_TYPES':
            st = [a.value for a in x.value.args[1:]
                  if isinstance(a, ast.Constant)]
    r4.check(okv and st is not None and sorted(st) == ['private', 'public'],
             ctx.construct(vs, extra='exact scope values only'),
             'validate_scope does not refuse everything but the literal '
             'values private / public of the raw parameter (got %s)' % st,
             ctx.loc(vs))

    # ---- R5 error mapping ------------------------------------------------
    r5 = ctx.rule('R5', 'every exposed method maps Mistral errors to their '
                  'http_code', 'EXH')
    r5.floor(40)
    base_cls = 'mistral.exceptions.MistralFailuresBase'
    prog.cls(base_cls)
    code_ok = False
    for m in prog.methods_of(base_cls):
        if m.name == 'code' and m.has_decorator('property'):
            rets = [n for n in own_nodes(m.node)
                    if isinstance(n, ast.Return)]
            code_ok = len(rets) == 1 and norm(rets[0].value) == \
                'self.http_code'
    r5.check(code_ok, base_cls + ' :: code property',
             'MistralFailuresBase.code no longer returns http_code (wsme '
             'reads .code to build the status)', prog.loc(base_cls))
    _k, n403 = prog.class_attr('mistral.exceptions.NotAllowedException',
                               'http_code')
    r5.check(n403 is not None and
             prog.try_const('mistral.exceptions', n403) == 403,
             'mistral.exceptions.NotAllowedException :: http_code',
             'NotAllowedException.http_code is not 403',
             'mistral/exceptions.py')
    for wname in ('wrap_wsme_controller_exception',
                  'wrap_pecan_controller_exception'):
        w = prog.func('mistral.utils.rest_utils.' + wname)
        inner = [x for q, x in prog.funcs.items()
                 if q.startswith(w.qname + '.<locals>.')]
        ok = False
        for nf in inner:
            for t in ast.walk(nf.node):
                if isinstance(t, ast.Try):
                    for h in t.handlers:
                        tys = U.handler_types(h)
                        if any(x.endswith('MistralException') for x in tys) \
                                and any(x.endswith('MistralError')
                                        for x in tys) and \
                                'http_code' in ast.unparse(h):
                            ok = True
        r5.check(ok, w.qname + ' :: handler',
                 'wrapper no longer catches MistralException+MistralError '
                 'and maps e.http_code', ctx.loc(w))
    for f in methods:
        kind, _rt, _b = expose_info(f)
        if f.qname in NO_ENFORCE:
            continue
        if kind == 'wsexpose':
            r5.ok(ctx.construct(f, extra='error mapping'),
                  'wsexpose reads exception.code')
        else:
            r5.check(f.has_decorator('wrap_pecan_controller_exception'),
                     ctx.construct(f, extra='error mapping'),
                     'pecan.expose method without '
                     'wrap_pecan_controller_exception', ctx.loc(f))

    # ---- R9 acl.enforce always asks the policy engine ----------------------
    r9 = ctx.rule('R9', 'acl.enforce hands every request to the policy '
                  'engine with the caller\'s identity, whatever the '
                  'configuration', 'GD-exact')
    ef = prog.func('mistral.api.access_control.enforce')
    ecfg = ctx.cfg(ef)
    au = [(n, c) for n, c in ecfg.calls(
        lambda c: U.call_name(c) == 'authorize')]
    rets = [x for x in ecfg.nodes if x.kind == 'stmt' and
            isinstance(x.ast, ast.Return)]
    oke = len(au) == 1 and not U.guard_atoms(ecfg, au[0][0]) and \
        len(rets) == 1 and rets[0] is au[0][0]
    if oke:
        c = au[0][1]
        kw = {k.arg: norm(k.value) for k in c.keywords}
        oke = norm(c.args[0]) == ef.params[0] and \
            kw.get('do_raise') == 'do_raise' and kw.get('exc') == 'exc'
    r9.check(oke, ctx.construct(ef, extra='authorize on every path'),
             'acl.enforce can return without asking the policy engine '
             '(returns: %d, conditions on authorize: %s): under that '
             'condition every controller\'s check is a no-op'
             % (len(rets), [(norm(a), t) for n_, _c in au
                            for a, t in U.guard_atoms(ecfg, n_)]),
             ctx.loc(ef))

    # the engine the API asks: defaults registered, rules loaded, and the
    # policy file is authoritative on every reload (oslo.policy replaces the
    # file rules as a whole unless told `overwrite=False`; with merging, a
    # permissive override the operator deletes stays in force until restart)
    ei = prog.func('mistral.api.access_control._ensure_enforcer_initialization')
    ctor = [c for c in own_nodes(ei.node) if isinstance(c, ast.Call) and
            U.call_name(c) == 'Enforcer']
    oki = len(ctor) == 1
    for c in ctor:
        for k in c.keywords:
            if k.arg in ('overwrite', 'use_conf') and not (
                    isinstance(k.value, ast.Constant) and
                    k.value.value is True):
                oki = False
            if k.arg is None or k.arg in ('rules', 'default_rule',
                                          'policy_file'):
                oki = False
        oki = oki and len(c.args) == 1
    order = [U.call_name(c) for c in sorted(
        (c for c in own_nodes(ei.node) if isinstance(c, ast.Call) and
         U.call_name(c) in ('Enforcer', 'register_defaults', 'load_rules')),
        key=lambda c: (c.lineno, c.col_offset))]
    r9.check(oki and order == ['Enforcer', 'register_defaults',
                               'load_rules'] and
             U.phas(ei.node, '___.register_defaults(policies.list_rules())'),
             ctx.construct(ei, extra='policy engine set-up'),
             'the API policy engine is not built from the configuration with '
             'the registered defaults and file rules that replace each other '
             'on reload (%s): a rule removed from the policy file keeps '
             'applying' % [ast.unparse(c) for c in ctor], ctx.loc(ei))

    # ---- R7 admin identity -----------------------------------------------
    r7 = ctx.rule('R7', 'admin status comes from an exact role match and '
                  'reaches the policy engine unchanged', 'GD')
    admin_identity(ctx, r7)
    en = prog.func('mistral.api.access_control.enforce')
    ok = any(isinstance(n, ast.Assign) and
             norm(n.targets[0]) == "policy_context['is_admin']" and
             norm(n.value) == 'context.is_admin'
             for n in own_nodes(en.node))
    auth = [n for n in own_nodes(en.node) if isinstance(n, ast.Call) and
            U.call_name(n) == 'authorize']
    r7.check(ok and bool(auth) and any(
        dotted(a) == 'policy_context' for a in auth[0].args) and
        dotted(auth[0].args[0]) == 'action',
        ctx.construct(en), 'enforce no longer authorizes the requested '
        'action with is_admin taken from the request context',
        ctx.loc(en))
    dr = U.kwarg(auth[0], 'do_raise') if auth else None
    r7.check(dr is not None and dotted(dr) == 'do_raise' and
             'do_raise=True' in ast.unparse(en.node.args),
             ctx.construct(en, extra='raises by default'),
             'a denied request no longer raises by default', ctx.loc(en))

    # ---- R6 documented moves only ----------------------------------------
    r6 = ctx.rule('R6', 'state-changing requests are limited to the '
                  'documented moves', 'STATE')
    r6.floor(8)
    documented_moves(ctx, r6)


def admin_identity(ctx, r7):
    """is_admin of a request context is the exact role membership test
    (shared with C15: every isolation check is bypassed for admins)."""
    prog = ctx.prog
    fe = prog.func('mistral.context.MistralContext.from_environ')
    stores = [(t, st) for t, st in U.attr_stores(fe.node)
              if t.attr == 'is_admin']
    if not stores:
        raise AnalysisError('from_environ no longer sets is_admin')
    for t, st in stores:
        r7.check(admin_expr_exact(fe, st.value), ctx.construct(fe, st),
                 'is_admin is not decided by the exact membership test '
                 "'admin' in <context>.roles (e.g. substring / "
                 'case-folded / prefix matches make roles such as '
                 '"project_admin" administrators)', ctx.loc(fe, st))


def scoped_resource_types(prog):
    out = set()
    m = 'mistral.api.controllers.v2.resources'
    for q, node in prog.classes.items():
        if prog.class_module[q] != m:
            continue
        for n in node.body:
            if isinstance(n, ast.Assign) and any(
                    isinstance(t, ast.Name) and t.id == 'scope'
                    for t in n.targets):
                out.add(q.rsplit('.', 1)[1])
    return out


def scope_expressions(f):
    """Texts of expressions through which the method reads a scope."""
    out = []
    for n in own_nodes(f.node):
        t = None
        if isinstance(n, ast.Name) and n.id == 'scope':
            t = 'scope'
        elif isinstance(n, ast.Attribute) and n.attr == 'scope' and \
                isinstance(n.ctx, ast.Load):
            t = dotted(n)
        elif isinstance(n, ast.Call) and isinstance(n.func, ast.Attribute) \
                and n.func.attr == 'get' and n.args and \
                isinstance(n.args[0], ast.Constant) and \
                n.args[0].value == 'scope':
            t = ' '.join(ast.unparse(n).split())
        if t and t not in out:
            out.append(t)
    return out


def documented_moves(ctx, r6):
    prog = ctx.prog
    sd = ctx.sd
    S = sd.consts
    completed = sd.pred_set('is_completed')
    dom = sd.ALL + (None, OTHER)

    # -- ExecutionsController.put ---------------------------------------
    put = prog.func(
        'mistral.api.controllers.v2.execution.ExecutionsController.put')
    cfg = ctx.cfg(put)
    key = "delta.get('state')"
    IN, keys = sd.analyze(cfg, put, [(key, dom)],
                          alias={"delta['state']": key})
    want = {
        'pause_workflow': {S['PAUSED']},
        'resume_workflow': {S['RUNNING']},
        'stop_workflow': set(completed),
    }
    for name, allowed in want.items():
        sites = U.calls_in(cfg, name)
        if not sites:
            raise AnalysisError('C16.R6: ExecutionsController.put no longer '
                                'calls %s' % name)
        for n, c in sites:
            vals = sd.values_at(IN, keys, n, key)
            r6.check(vals <= allowed, ctx.construct(put, extra=name),
                     '%s reachable with requested state in %s (allowed %s)'
                     % (name, sorted(map(str, vals - allowed)),
                        sorted(allowed)), ctx.loc(put, c))
    # any other requested state must raise: no engine call, and the else
    # branch raises
    engine_calls = [(n, c) for n, c in cfg.calls()
                    if isinstance(c.func, ast.Attribute) and
                    isinstance(c.func.value, ast.Call) and
                    'get_engine_client' in ast.unparse(c.func.value.func)]
    for n, c in engine_calls:
        r6.check(U.call_name(c) in want, ctx.construct(put, c),
                 'unexpected engine call in ExecutionsController.put',
                 ctx.loc(put, c))
    # description together with state is refused before any write
    cd = prog.func(put.qname + '.<locals>._compute_delta')
    cfg2 = ctx.cfg(cd)
    ks, kd = "delta.get('state')", "delta.get('description')"
    kin = "'description' in delta"
    IN2, keys2 = sd.analyze(
        cfg2, cd, [(ks, (None, OBJ)), (kd, (None, '', OBJ)),
                   (kin, (True, False))],
        alias={"delta['state']": ks, "delta['description']": kd})
    writes = [(n, c) for n, c in cfg2.calls()
              if U.call_name(c) and U.call_name(c).startswith('update_')]
    if not writes:
        raise AnalysisError('C16.R6: no update_* call in _compute_delta')
    for n, c in writes:
        # "description given" is a presence fact, not a truthiness fact: an
        # empty description sent together with a state is still both
        both = [v for v in IN2[n.id]
                if v[0] == OBJ and (v[1] is not None and v[2] or
                                    v[1] == OBJ)]
        r6.check(not both, ctx.construct(cd, c),
                 'write reachable with both description and state given '
                 '(state, description, description present) = %s: the '
                 'refusal tests truthiness, the write tests presence'
                 % (both[:1],), ctx.loc(cd, c))

    # -- ExecutionsController.delete -------------------------------------
    dl = prog.func(
        'mistral.api.controllers.v2.execution.ExecutionsController.delete')
    cfg3 = ctx.cfg(dl)
    IN3, keys3 = sd.analyze(cfg3, dl, [('force', (False, True)),
                                       ('state', sd.state_domain)])
    sinks = [(n, c) for n, c in cfg3.calls()
             if 'delete_workflow_execution' in ast.unparse(c)]
    if not sinks:
        raise AnalysisError('C16.R6: ExecutionsController.delete no longer '
                            'reaches delete_workflow_execution')
    n, c = sinks[0]
    bad = [v for v in IN3[n.id] if not v[0] and v[1] not in completed]
    r6.check(not bad, ctx.construct(dl, extra='unfinished without force'),
             'delete reachable without force for states %s'
             % sorted({str(v[1]) for v in bad}), ctx.loc(dl, c))

    # -- TasksController.put ------------------------------------------------
    tp = prog.func('mistral.api.controllers.v2.task.TasksController.put')
    cfg4 = ctx.cfg(tp)
    wi = 'task_spec.get_with_items()'
    IN4, keys4 = sd.analyze(
        cfg4, tp, [('task.state', dom), ('task_ex.state', sd.state_domain),
                   ('reset', (None, True)), (wi, (None, OBJ))])
    sinks = U.calls_in(cfg4, 'rerun_workflow')
    if not sinks:
        raise AnalysisError('C16.R6: TasksController.put no longer calls '
                            'rerun_workflow')
    for n, c in sinks:
        vals = IN4[n.id]
        req = {v[0] for v in vals}
        cur = {v[1] for v in vals}
        r6.check(req <= {S['RUNNING'], S['SKIPPED']},
                 ctx.construct(tp, extra='requested state'),
                 'rerun reachable with requested state %s'
                 % sorted(map(str, req - {S['RUNNING'], S['SKIPPED']})),
                 ctx.loc(tp, c))
        r6.check(cur <= {S['ERROR']},
                 ctx.construct(tp, extra='current state'),
                 'rerun reachable with current task state %s'
                 % sorted(map(str, cur - {S['ERROR']})), ctx.loc(tp, c))
        noreset = [v for v in vals
                   if v[0] == S['RUNNING'] and not v[2] and not v[3]]
        r6.check(not noreset, ctx.construct(tp, extra='reset'),
                 'rerun without reset reachable for a task without '
                 'with-items', ctx.loc(tp, c))
        sk = U.kwarg(c, 'skip')
        r6.check(sk is not None and norm(sk) in (
            'task.state == states.SKIPPED', 'states.SKIPPED == task.state',
            'states.is_skipped(task.state)'),
            ctx.construct(tp, extra='skip flag'),
            'skip flag is not exactly "requested state == SKIPPED": %s'
            % (norm(sk) if sk is not None else None), ctx.loc(tp, c))

    # -- ActionExecutionsController.put --------------------------------------
    ap = prog.func('mistral.api.controllers.v2.action_execution.'
                   'ActionExecutionsController.put')
    cfg5 = ctx.cfg(ap)
    try:
        supported = set(prog.const(ap.module, 'SUPPORTED_TRANSITION_STATES'))
    except NotConst as e:
        raise AnalysisError('C16.R6: SUPPORTED_TRANSITION_STATES: %s' % e)
    key5 = 'action_ex.state'
    IN5, keys5 = sd.analyze(cfg5, ap, [(key5, dom)])
    running_paused = {S['PAUSED'], S['RUNNING']}
    for name, allowed in (('on_action_complete', set(completed) & supported),
                          ('on_action_update', running_paused & supported)):
        sites = U.calls_in(cfg5, name)
        if not sites:
            raise AnalysisError('C16.R6: ActionExecutionsController.put no '
                                'longer calls %s' % name)
        for n, c in sites:
            vals = sd.values_at(IN5, keys5, n, key5)
            r6.check(vals <= allowed, ctx.construct(ap, extra=name),
                     '%s reachable with requested state %s (allowed %s)'
                     % (name, sorted(map(str, vals - allowed)),
                        sorted(allowed)), ctx.loc(ap, c))


def admin_expr_exact(f, value):
    """value is (possibly wrapped in `True if X else False` / bool(X)) the
    comparison  'admin' in <obj>.roles  with the roles attribute used
    directly (no join / lower / startswith / any-substring)."""
    v = value
    if isinstance(v, ast.IfExp) and norm(v.body) == 'True' and \
            norm(v.orelse) == 'False':
        v = v.test
    if isinstance(v, ast.Call) and U.call_name(v) == 'bool' and v.args:
        v = v.args[0]
    if not (isinstance(v, ast.Compare) and len(v.ops) == 1 and
            isinstance(v.ops[0], ast.In)):
        return False
    left, right = v.left, v.comparators[0]
    if not (isinstance(left, ast.Constant) and left.value == 'admin'):
        return False
    return isinstance(right, ast.Attribute) and right.attr == 'roles' and \
        dotted(right) is not None


def insecure_origin(ctx, r3):
    """rest_utils.get_all derives `insecure` only from all_projects or
    is_admin."""
    prog = ctx.prog
    g = prog.func('mistral.utils.rest_utils.get_all')
    cfg = ctx.cfg(g)
    IN, keys = ctx.sd.analyze(
        cfg, g, [('insecure', (False, True)),
                 ('all_projects', (False, True)),
                 ('auth_ctx.ctx().is_admin', (False, True))])
    n_sinks = 0
    for n, c in cfg.calls():
        if any(k.arg == 'insecure' for k in c.keywords):
            n_sinks += 1
            bad = [v for v in IN[n.id]
                   if v[0] is True and not v[1] and not v[2]]
            r3.check(not bad, ctx.construct(g, c, 'insecure origin'),
                     'insecure=True can reach the DB call although neither '
                     'all_projects nor is_admin holds', ctx.loc(g, c))
    # nested _get_all_function reads `insecure` from the closure
    for q, nf in prog.funcs.items():
        if q.startswith(g.qname + '.<locals>.'):
            for n in own_nodes(nf.node):
                if isinstance(n, ast.Call) and any(
                        k.arg == 'insecure' for k in n.keywords):
                    n_sinks += 1
    if n_sinks < 1:
        raise AnalysisError('C16.R3: rest_utils.get_all no longer passes '
                            'insecure= to the DB function')
    stores = [n for n in own_nodes(g.node) if isinstance(n, ast.Assign) and
              any(isinstance(t, ast.Name) and t.id == 'insecure'
                  for t in n.targets)]
    for nf in [x for q, x in prog.funcs.items()
               if q.startswith(g.qname + '.<locals>.')]:
        for n in own_nodes(nf.node):
            if isinstance(n, (ast.Assign, ast.AugAssign)) and 'insecure' in \
                    {x.id for x in ast.walk(n) if isinstance(x, ast.Name) and
                     isinstance(x.ctx, ast.Store)}:
                r3.fail(ctx.construct(nf, n), 'insecure re-assigned in a '
                        'nested helper', ctx.loc(nf, n))
    r3.check(len(stores) >= 1, ctx.construct(g, extra='insecure stores'),
             'no assignment to insecure found')

