"""Decision tables: finite-domain evaluation of a function's branches.

A table names the inputs of a decision (access paths, calls, subscripts or
comparisons of the function, as normalised text, with a small finite domain
each: states, booleans, None/OBJ, integers 0..3), and a specification
`spec(valuation) -> expected outcome`.  The state-domain evaluator carries
the joint valuations through the function's CFG (inputs are ghosts: the
value that was read) and the rule compares, for every valuation, the set of
*effect sites* the valuation reaches with the outcome the property
prescribes.  Because the evaluation is semantic, a re-spelling of the tests
(mirrored comparison, early return vs nested if, predicate vs membership)
is silent, while an off-by-one, a swapped constant or a condition on
something that is not an input of the table is reported.  Nothing of
mistral is executed; tests are read from the source and evaluated by
statedom over the listed values.
"""
import ast
import itertools

from mstatic.core import AnalysisError, norm
from mstatic.rules import util as U
from mstatic.statedom import UNK, Frame

_XFER = (ast.Return, ast.Raise, ast.Continue, ast.Break)


def text(e):
    return ' '.join(ast.unparse(e).split())


def safe_inline(fnode, exclude=()):
    """Single-definition locals whose defining expression has no call with
    side effects worth tracking (pure expressions over names, attributes,
    constants, comparisons, boolean / arithmetic operators, subscripts and
    conditional expressions; calls are allowed - they evaluate to UNK unless
    they are inputs of the table)."""
    out = {}
    for k, v in U._single_defs(fnode).items():
        if k in exclude or k in U.names_in(v):
            continue
        if any(isinstance(x, (ast.Lambda, ast.ListComp, ast.DictComp,
                              ast.SetComp, ast.GeneratorExp, ast.Await,
                              ast.Yield)) for x in ast.walk(v)):
            continue
        out[k] = v
    return out


def note(ctx, f, n, keys):
    """Record a finite-domain evaluation in the evidence statistics."""
    st = getattr(ctx, 'stats', None)
    if st is None:
        st = ctx.stats = {}
    st['decision_table_valuations'] = st.get(
        'decision_table_valuations', 0) + n
    st.setdefault('decision_tables', []).append(
        '%s (%d valuations over %s)' % (f.qname, n,
                                        ', '.join(keys)[:160]))


class Table(object):
    def __init__(self, ctx, f, variables, constraint=None, extra_vars=(),
                 inline_exclude=(), types=None, mutable=()):
        """variables: [(key text, domain tuple)] - ghosts (inputs);
        extra_vars: [(key, domain)] tracked but assignable (locals that are
        assigned more than once)."""
        self.ctx = ctx
        self.f = f
        self.cfg = ctx.cfg(f)
        self.keys = [k for k, _d in variables]
        self.all_vars = list(variables) + list(extra_vars)
        doms = [tuple(d) for _k, d in variables]
        self.init_inputs = [v for v in itertools.product(*doms)
                            if constraint is None or
                            constraint(dict(zip(self.keys, v)))]
        edoms = [tuple(d) for _k, d in extra_vars]
        # assignable locals are written before they are read: one
        # arbitrary initial value each is enough
        init = set()
        e0 = tuple(d[0] for d in edoms)
        for v in self.init_inputs:
            init.add(v + e0)
        self.inline = safe_inline(
            f.node, exclude=set(inline_exclude) |
            {k for k, _d in self.all_vars})
        sd = ctx.sd
        self.IN, self.ks = sd.analyze(
            self.cfg, f, self.all_vars, init=init,
            ghost=set(self.keys) - set(mutable),
            inline=self.inline, types=types)
        note(ctx, f, len(init), self.keys)
        self.frame = Frame(f.module, {}, None, f)
        for name, expr in self.inline.items():
            self.frame.subst[name] = (expr, self.frame)
        self.n_in = len(self.keys)

    def inputs_at(self, node):
        """Input valuations (projection on the ghosts) reaching node."""
        return {v[:self.n_in] for v in self.IN[node.id]}

    def env(self, v):
        return dict(zip(self.ks, v))

    def ev(self, expr, v):
        return self.ctx.sd.ev(expr, self.env(v), self.frame)

    def full_at(self, node):
        return set(self.IN[node.id])

    def check_exact(self, rule, node, want, what, construct_extra, fmt=None):
        """The input valuations that reach `node` are exactly those for
        which want(dict) is true."""
        got = self.inputs_at(node)
        exp = {v for v in self.init_inputs
               if want(dict(zip(self.keys, v)))}
        extra = sorted(got - exp, key=repr)
        missing = sorted(exp - got, key=repr)
        f = self.f
        ctx = self.ctx

        def show(v):
            d = dict(zip(self.keys, v))
            return fmt(d) if fmt else d
        msg = ''
        if extra:
            msg += '%s although the property rules it out, e.g. for %s ' \
                   '(%d valuation(s)). ' % (what, show(extra[0]), len(extra))
        if missing:
            msg += '%s is skipped although the property needs it, e.g. for ' \
                   '%s (%d valuation(s)).' % (what, show(missing[0]),
                                              len(missing))
        rule.check(not extra and not missing,
                   ctx.construct(f, getattr(node, 'ast', None),
                                 extra=construct_extra),
                   msg, ctx.loc(f, getattr(node, 'ast', None)))
        return not extra and not missing

    def undecided(self, rule, what, skip=None, force=()):
        """Every test whose branches transfer control is decided by the
        inputs (see joinlogic.undecided_tests)."""
        sd = self.ctx.sd
        n_t = 0
        for n in self.cfg.nodes:
            if n.kind != 'test' or not self.IN[n.id]:
                continue
            st = None
            for s_, _k in n.succ:
                st = getattr(s_, 'stmt', None) or st
            if isinstance(st, ast.If) and not any(
                    isinstance(x, _XFER) for b in st.body + st.orelse
                    for x in ast.walk(b)) and not _has_effect(st, skip) \
                    and not any(x is e for b in st.body + st.orelse
                                for x in ast.walk(b) for e in force):
                continue
            if skip is not None and skip(n.ast) is True:
                continue
            n_t += 1
            unk = [v for v in self.IN[n.id]
                   if sd.truth(self.ev(n.ast, v)) is UNK]
            rule.check(not unk, self.ctx.construct(
                self.f, n.ast, extra='decided by the table inputs'),
                'the outcome of this test is not determined by %s (e.g. %s): '
                'the decision depends on something the property does not '
                'mention' % (what, self.env(sorted(unk, key=repr)[0])
                             if unk else ''), self.ctx.loc(self.f, n.ast))
        return n_t

    def stmt_nodes(self, pred):
        return [n for n in self.cfg.nodes
                if n.kind == 'stmt' and pred(n.ast)]

    def call_nodes(self, *names):
        return [n for n, c in self.cfg.calls(
            lambda c: U.is_call(c, *names))]


def _has_effect(st, skip):
    """`skip(test)` returning False forces a test to be examined even when
    its body transfers no control (the body holds an effect of the table)."""
    if skip is None:
        return False
    return skip(st.test) is False
