"""C04 - no task starts before its prerequisites; a join runs exactly once."""
import ast

from mstatic.core import AnalysisError, dotted, norm, own_nodes
from mstatic.rules import util as U
from mstatic.rules import shared
from mstatic.statedom import OBJ

DWC = 'mistral.workflow.direct_workflow.DirectWorkflowController'
RWC = 'mistral.workflow.reverse_workflow.ReverseWorkflowController'
TASK = 'mistral.engine.tasks.Task'
RT = 'mistral.engine.tasks.RegularTask'
TH = 'mistral.engine.task_handler'
MODELS = 'mistral.db.v2.sqlalchemy.models'

GRAPH_SOURCES = ('find_inbound_task_specs', 'find_outbound_task_names',
                 'get_task_requires')


def termination_devices(ctx, rule):
    """Every self-recursive function / worklist loop fed by the task graph
    carries a termination device that is consulted (visited set tested
    before the step, or a depth parameter compared with a bound)."""
    prog = ctx.prog
    n = 0
    for q, f in sorted(prog.funcs.items()):
        if not f.module.startswith('mistral.workflow.'):
            continue
        nodes = own_nodes(f.node)
        uses_graph = any(isinstance(x, ast.Call) and
                         U.call_name(x) in GRAPH_SOURCES for x in nodes)
        if not uses_graph:
            continue
        rec_calls = [x for x in nodes if isinstance(x, ast.Call) and
                     U.call_name(x) == f.name and
                     isinstance(x.func, ast.Attribute) and
                     dotted(x.func.value) == 'self']
        loops = [x for x in nodes if isinstance(x, ast.While)]
        worklist = []
        for w in loops:
            # while <collection>: ... <collection>.update/extend/append(graph)
            tname = dotted(w.test)
            if tname and any(isinstance(x, ast.Call) and
                             isinstance(x.func, ast.Attribute) and
                             dotted(x.func.value) == tname and
                             x.func.attr in ('update', 'extend', 'append',
                                             'add')
                             for b in w.body for x in ast.walk(b)):
                worklist.append(w)
        if not rec_calls and not worklist:
            continue
        n += 1
        cfg = ctx.cfg(f)
        ok = False
        why = ''
        params = f.params
        # (a) depth parameter compared with a bound before the recursive step
        for p in params:
            if p in ('self',):
                continue
            passed_up = any(
                any(isinstance(a, ast.BinOp) and isinstance(a.op, ast.Add)
                    and p in {y.id for y in ast.walk(a)
                              if isinstance(y, ast.Name)}
                    for a in list(c.args) + [k.value for k in c.keywords])
                for c in rec_calls)
            if not passed_up:
                continue
            for c in rec_calls:
                cn = cfg.node_of(c)
                for (t, pol, gn) in cfg.guards(cn):
                    if isinstance(t, ast.Compare) and p in {
                            y.id for y in ast.walk(t)
                            if isinstance(y, ast.Name)}:
                        ok = True
                        why = 'depth parameter %s compared: %s' % (p,
                                                                   norm(t))
        # (b) visited set: a membership test on a set that grows, guarding
        # the step (continue / skip) in the loop or before the recursion
        if not ok:
            grown = set()
            for x in nodes:
                if isinstance(x, ast.Call) and \
                        isinstance(x.func, ast.Attribute) and \
                        x.func.attr in ('add', 'update') and \
                        dotted(x.func.value):
                    grown.add(dotted(x.func.value))
            for x in nodes:
                if isinstance(x, ast.Compare) and len(x.ops) == 1 and \
                        isinstance(x.ops[0], (ast.In, ast.NotIn)) and \
                        dotted(x.comparators[0]) in grown:
                    vis = dotted(x.comparators[0])
                    # the test must guard the step: for worklists a
                    # `continue` under it; for recursion the call under the
                    # not-in edge
                    for w in worklist:
                        if vis != dotted(w.test) and any(
                                isinstance(s, ast.If) and
                                any(y is x for y in ast.walk(s.test)) and
                                any(isinstance(z, ast.Continue)
                                    for z in s.body)
                                for s in ast.walk(w)):
                            ok = True
                            why = 'visited set %s tested in the loop' % vis
                    for c in rec_calls:
                        cn = cfg.node_of(c)
                        for (t, pol, gn) in cfg.guards(cn):
                            if isinstance(t, ast.expr) and \
                                    any(y is x for y in ast.walk(t)):
                                ok = True
                                why = 'visited set %s guards the recursion' \
                                    % vis
        rule.check(ok, ctx.construct(f, extra='termination device'),
                   'walk over the task graph (%s) has no termination device '
                   'that is consulted before the next step: a cycle in the '
                   'definition makes it run for ever / overflow the stack'
                   % ('recursion' if rec_calls else 'worklist loop'),
                   ctx.loc(f), why)
    if n < 3:
        raise AnalysisError('termination devices: only %d graph walks found'
                            % n)


def reverse_rules(ctx, r6):
    """Reverse controller: RunTask only for satisfied tasks of the target's
    dependency closure that have no execution; requires (task-defaults
    merged) compared against SUCCESS tasks."""
    prog = ctx.prog
    fn = prog.func(RWC + '._find_next_commands')
    runs = [x for x in own_nodes(fn.node) if isinstance(x, ast.Call) and
            U.call_name(x) == 'RunTask']
    comp = [x for x in own_nodes(fn.node) if isinstance(x, ast.ListComp)]
    ok = bool(runs) and any(
        any(y is runs[0] for y in ast.walk(c)) and
        dotted(c.generators[0].iter) == 'task_specs' for c in comp) and any(
        isinstance(x, ast.Assign) and dotted(x.targets[0]) == 'task_specs'
        and '_find_task_specs_with_satisfied_dependencies' in norm(x.value)
        for x in own_nodes(fn.node))
    r6.check(ok, ctx.construct(fn), 'RunTask commands are not built from '
             '_find_task_specs_with_satisfied_dependencies()', ctx.loc(fn))
    fs = prog.func(RWC + '._find_task_specs_with_satisfied_dependencies')
    comps = [x for x in own_nodes(fs.node) if isinstance(x, ast.ListComp)]
    okf = False
    for lc in comps:
        g0 = lc.generators[0]
        okf = okf or (
            any(U.phas(i, 'self._is_satisfied_task(__t)') for i in g0.ifs)
            and U.phas(g0.iter, '___.dfs_postorder_nodes(__g.reverse(), '
                       'self._get_target_task_specification())'))
    r6.check(okf, ctx.construct(fs),
             'candidates are not the dependency closure of the target '
             'filtered by _is_satisfied_task', ctx.loc(fs))
    st = prog.func(RWC + '._is_satisfied_task')
    cfg = ctx.cfg(st)
    rets = [x for x in cfg.nodes if x.kind == 'stmt' and
            isinstance(x.ast, ast.Return)]
    first = None
    for x in rets:
        if U.guard_match(cfg, x, 'self._get_task_executions(*___)', True) \
                or U.guard_match(cfg, x, 'self._get_task_executions(___)',
                                 True) or any(
                    t_ and '_get_task_executions' in norm(a_)
                    for a_, t_ in U.guard_atoms(cfg, x)):
            first = x
    r6.check(first is not None and norm(first.ast.value) == 'False',
             ctx.construct(st, extra='existing => not satisfied'),
             'a task that already has an execution can be emitted again',
             ctx.loc(st))
    # a prerequisite is done when it succeeded or was skipped (a skipped
    # task publishes publish-on-skip and must not block what requires it:
    # F27); the same set decides readiness and where the data comes from
    sd = ctx.sd
    S = sd.consts
    DONE = {S['SUCCESS'], S['SKIPPED']}
    from mstatic.statedom import Frame
    succ_sets = {}
    INs, ks = sd.analyze(cfg, st, [('t_ex.state', sd.state_domain)],
                         kill=lambda c: ())
    for x in own_nodes(st.node):
        if isinstance(x, ast.Call) and U.call_name(x) == 'add' and \
                isinstance(x.func.value, ast.Name) and x.args and \
                norm(x.args[0]) == 't_ex.name':
            cn = cfg.node_of(x)
            succ_sets[x.func.value.id] = sd.values_at(INs, ks, cn,
                                                      't_ex.state')
    okr = any(isinstance(x, ast.Return) and any(
        U.phas(x.value, 'not (set(self.wf_spec.get_task_requires(__s)) - '
               + v + ')') for v in succ_sets) for x in own_nodes(st.node))
    got = set().union(*succ_sets.values()) if succ_sets else set()
    r6.check(bool(succ_sets) and okr and got == DONE,
             ctx.construct(st, extra='requires all done'),
             'a task is ready when its requires are all in %s; the property '
             'needs exactly SUCCESS and SKIPPED (a prerequisite in any other '
             'state is not done, a skipped one must not block its '
             'dependents)' % sorted(map(str, got)), ctx.loc(st))
    ug = prog.func(RWC + '._get_upstream_task_executions')
    comps = [x for x in own_nodes(ug.node) if isinstance(x, ast.ListComp) and
             len(x.generators) == 1 and x.generators[0].ifs]
    data = None
    if len(comps) == 1:
        g = comps[0].generators[0]
        el = norm(g.target)
        data = set()
        for stv in sd.ALL:
            env = {'%s.state' % el: stv}
            tr = sd.truth(sd.ev(g.ifs[0], env, Frame(ug.module)))
            if tr is True:
                data.add(stv)
            elif tr is not False:
                data = None
                break
    r6.check(data == DONE,
             ctx.construct(ug, extra='data of the done prerequisites'),
             'the prerequisites a task takes its data from are those in %s, '
             'readiness counts %s: they have to be the same, SUCCESS and '
             'SKIPPED' % (sorted(map(str, data)) if data is not None
                          else 'an undecidable set', sorted(map(str, DONE))),
             ctx.loc(ug))


def reverse_graph(ctx, rule):
    """The dependency graph of a reverse workflow has one node per task and
    an edge dependency -> task for every name in the task's requires
    (task-defaults merged); the target is the task named in the execution
    parameters and an unknown name is refused."""
    prog = ctx.prog
    bg = prog.func(RWC + '._build_graph')
    P = bg.params[1]
    cfg = ctx.cfg(bg)
    nodes = [(n, c) for n, c in cfg.calls(
        lambda c: U.call_name(c) == 'add_node')]
    edges = [(n, c) for n, c in cfg.calls(
        lambda c: U.call_name(c) == 'add_edge')]
    ok = len(nodes) == 1 and len(edges) == 1
    if ok:
        loops = [x for x in own_nodes(bg.node) if isinstance(x, ast.For)]
        ln = [lp for lp in loops if any(c is nodes[0][1]
                                        for c in ast.walk(lp))]
        le = [lp for lp in loops if any(c is edges[0][1]
                                        for b in lp.body for c in ast.walk(b))]
        ok = bool(ln) and norm(ln[0].iter) == P and \
            [norm(a) for a in nodes[0][1].args] == [norm(ln[0].target)]
        outer = [lp for lp in le if norm(lp.iter) == P]
        inner = [lp for lp in le if U.phas(
            lp.iter, 'self._get_dependency_tasks(%s, __t)' % P)]
        ok = ok and len(outer) == 1 and len(inner) == 1 and \
            U.phas(inner[0].iter, 'self._get_dependency_tasks(%s, %s)'
                   % (P, norm(outer[0].target))) and \
            [norm(a) for a in edges[0][1].args] == [
                norm(inner[0].target), norm(outer[0].target)] and \
            not [x for lp in loops for b in lp.body for x in ast.walk(b)
                 if isinstance(x, (ast.Break, ast.Continue, ast.If))]
        rets = [x for x in own_nodes(bg.node) if isinstance(x, ast.Return)]
        ok = ok and all(norm(r_.value) == norm(edges[0][1].func.value)
                        for r_ in rets) and bool(rets)
    rule.check(ok, ctx.construct(bg, extra='edge dependency -> task for '
                                 'every requires entry'),
               'the dependency graph does not contain every task and an '
               'edge from each required task to the task that requires it '
               '(a reversed or missing edge starts tasks before their '
               'prerequisites / runs tasks the target does not depend on)',
               ctx.loc(bg))
    gd = prog.func(RWC + '._get_dependency_tasks')
    dcfg = ctx.cfg(gd)
    adds = [(n, c) for n, c in dcfg.calls(lambda c: U.call_name(c) == 'add')]
    okd = len(adds) == 1
    if okd:
        names = [k for k, v in U._single_defs(gd.node).items()
                 if U.phas(v, 'self.wf_spec.get_task_requires(%s)'
                           % gd.params[2]) and isinstance(v, ast.Call)]
        okd = len(names) == 1
        if okd:
            from mstatic.pattern import match
            facts = [(a, t) for a, t in U.guard_atoms(dcfg, adds[0][0])
                     if not (U.names_in(a) <= {names[0], 'len'})]
            eq = [a for a, t in facts if t and isinstance(a, ast.Compare) and
                  isinstance(a.ops[0], (ast.Eq, ast.In))]
            nm = names[0]
            own = [(norm(a), t) for a, t in U.guard_atoms(dcfg, adds[0][0])
                   if U.names_in(a) <= {nm, 'len'}]
            okd = all(x in (('len(%s) == 0' % nm, False), (nm, True),
                            ('0 < len(%s)' % nm, True)) for x in own)
            okd = okd and len(facts) == 1 and len(eq) == 1 and \
                'get_name()' in norm(eq[0]) and \
                norm(adds[0][1].args[0]) in norm(eq[0])
            rets = [x for x in own_nodes(gd.node)
                    if isinstance(x, ast.Return)]
            okd = okd and any(norm(r_.value) == norm(adds[0][1].func.value)
                              for r_ in rets)
    rule.check(okd, ctx.construct(gd, extra='specs named in requires'),
               'the dependencies of a task are not exactly the task specs '
               'whose name is listed in its (task-defaults merged) '
               'requires', ctx.loc(gd))
    tg = prog.func(RWC + '._get_target_task_specification')
    from mstatic.rules import dt
    defs = U._single_defs(tg.node)
    sp = [k for k, v in defs.items() if U.phas(v, 'self.wf_spec.get_tasks()')
          and 'get(' in norm(v)]
    okt = len(sp) == 1
    if okt:
        t = dt.Table(ctx, tg, [(sp[0], (None, OBJ))])
        rs = t.stmt_nodes(lambda a: isinstance(a, ast.Raise))
        rt = t.stmt_nodes(lambda a: isinstance(a, ast.Return))
        okt = len(rs) == 1 and len(rt) == 1 and \
            t.inputs_at(rs[0]) == {(None,)} and \
            t.inputs_at(rt[0]) == {(OBJ,)} and \
            norm(rt[0].ast.value) == sp[0] and \
            "self.wf_ex.params.get('task_name')" in norm(
                U.canon_expr(tg.node, defs[sp[0]]), 300)
    rule.check(okt, ctx.construct(tg, extra='target from the execution '
                                  'parameters, unknown refused'),
               'the target task is not the spec named by the execution\'s '
               'task_name parameter / an unknown name is not refused',
               ctx.loc(tg))
    return 3


def cache_rule(ctx, r8):
    """The execution cache is (re)loaded for the spec whose inbound tasks
    are looked up in it."""
    prog = ctx.prog
    n8 = 0
    for q, f in sorted(prog.funcs.items()):
        if not q.startswith(DWC + '.'):
            continue
        loads = [n for n in own_nodes(f.node) if isinstance(n, ast.Call) and
                 U.call_name(n) == '_prepare_task_executions_cache']
        inb = [n for n in own_nodes(f.node) if isinstance(n, ast.Call) and
               U.call_name(n) == 'find_inbound_task_specs']
        if not loads or not inb:
            continue
        src = {norm(n.args[0]) for n in inb if n.args}
        for c in loads:
            n8 += 1
            r8.check(bool(c.args) and norm(c.args[0]) in src,
                     ctx.construct(f, c),
                     'the cache is (re)loaded for %s but the inbound tasks '
                     'looked up in it are those of %s: executions of those '
                     'tasks are missing from the cache and are taken for '
                     '"not started yet" (a dead route looks possible, the '
                     'join waits for ever)'
                     % (norm(c.args[0]) if c.args else None, sorted(src)),
                     ctx.loc(f, c))
    if n8 < 2:
        raise AnalysisError('C04.R8: cache loads not found')


def run(ctx):
    prog, sd = ctx.prog, ctx.sd
    S = sd.consts
    completed = sd.pred_set('is_completed')

    # ---- R1 schema ------------------------------------------------------
    r1 = ctx.rule('R1', 'unique constraint on task_executions.unique_key',
                  'QSHAPE/schema')
    k, ta = prog.class_attr(MODELS + '.TaskExecution', '__table_args__')
    ok = ta is not None and any(
        isinstance(x, ast.Call) and U.call_name(x) == 'UniqueConstraint' and
        any(isinstance(a, ast.Constant) and a.value == 'unique_key'
            for a in x.args) and len(x.args) == 1
        for x in ast.walk(ta))
    r1.check(ok, MODELS + '.TaskExecution :: UniqueConstraint(unique_key)',
             'TaskExecution.__table_args__ has no UniqueConstraint on '
             'unique_key alone', prog.loc(MODELS + '.TaskExecution'))

    # ---- R2 every command is configured as a join ---------------------------
    r2 = ctx.rule('R2', 'commands for join tasks get unique_key and '
                  'wait=True', 'PAIR/GD')
    f = prog.func(DWC + '._find_next_commands_for_task')
    cfg = ctx.cfg(f)
    cc = U.calls_in(cfg, 'create_command')
    cj = U.calls_in(cfg, '_configure_if_join')
    ap = [(n, c) for n, c in U.calls_in(cfg, 'append')
          if dotted(c.func.value) == 'cmds']
    if not (cc and cj and ap):
        raise AnalysisError('C04.R2: _find_next_commands_for_task lost its '
                            'create/configure/append calls')
    r2.check(cfg.must_pass(cc[0][0], [cj[0][0]] + [cfg.rexit]) and
             cfg.dominates(cj[0][0], ap[0][0]),
             ctx.construct(f, extra='configure before append'),
             'a command can be appended without passing _configure_if_join',
             ctx.loc(f))
    rr = prog.func(DWC + '.rerun_tasks')
    r2.check(any(isinstance(x, ast.For) and any(
        isinstance(y, ast.Call) and U.call_name(y) == '_configure_if_join'
        for y in ast.walk(x)) and dotted(x.iter) == 'cmds'
        for x in own_nodes(rr.node)),
        ctx.construct(rr, extra='configure rerun commands'),
        'rerun commands are not passed through _configure_if_join',
        ctx.loc(rr))
    cf = prog.func(DWC + '._configure_if_join')
    cfgc = ctx.cfg(cf)
    stores = {t.attr: (cfgc.stmt_node(st), st)
              for t, st in U.attr_stores(cf.node) if dotted(t.value) == 'cmd'}
    r2.check('unique_key' in stores and 'wait' in stores and
             norm(stores['wait'][1].value) == 'True',
             ctx.construct(cf, extra='sets unique_key and wait'),
             '_configure_if_join no longer sets both unique_key and '
             'wait=True', ctx.loc(cf))
    # the stores are reached whenever the spec has a join
    IN, keys = sd.analyze(cfgc, cf, [('cmd.task_spec.get_join()',
                                      (None, OBJ))])
    ex_vals = sd.values_at(IN, keys, cfgc.exit, 'cmd.task_spec.get_join()')
    if 'wait' in stores:
        wn = stores['wait'][0]
        r2.check(cfgc.must_pass(cfgc.entry, [wn]) or
                 _join_exits_pass(cfgc, cf, sd, wn),
                 ctx.construct(cf, extra='join => configured'),
                 'a command whose task spec has join can leave '
                 '_configure_if_join unconfigured', ctx.loc(cf))
    uk = prog.func(DWC + '._get_join_unique_key')
    # what the key is made of: the returned expression(s) only
    kexprs = [x.value for x in own_nodes(uk.node)
              if isinstance(x, ast.Return) and x.value is not None]
    kexprs = [U.canon_expr(uk.node, e) for e in kexprs]
    names = {x.id for e in kexprs for x in ast.walk(e)
             if isinstance(x, ast.Name)}
    attrs = {norm(x) for e in kexprs for x in ast.walk(e)
             if isinstance(x, ast.Attribute)}
    r2.check('self.wf_ex.id' in attrs and
             any('get_name' in a for a in attrs) and
             not (names - {'self', 'cmd'}),
             ctx.construct(uk), 'join unique key depends on something other '
             'than the execution id and the task name', ctx.loc(uk))

    # ---- R3 create-once -----------------------------------------------------
    r3 = ctx.rule('R3', 'the join execution is created once, under the '
                  'named lock, after a lookup by unique key', 'GD')
    df = prog.func(TASK + '.defer')
    cfg = ctx.cfg(df)
    cr = U.calls_in(cfg, '_create_task_execution')
    if not cr:
        raise AnalysisError('C04.R3: Task.defer no longer creates the '
                            'execution')
    for n, c in cr:
        locks = U.inside_with(cfg, n, 'named_lock')
        r3.check(bool(locks) and any(
            'self.unique_key' in norm(w.ast.items[0].context_expr)
            for w in locks), ctx.construct(df, c),
            'creation is not inside with named_lock(self.unique_key)',
            ctx.loc(df, c))
        # lookups by unique key (any state) made inside the lock
        look = []
        for d, sub in cfg.calls(
                lambda x: U.call_name(x) == 'get_task_executions'):
            if U.kwarg(sub, 'unique_key') is not None and \
                    U.kwarg(sub, 'state') is None and \
                    any(w in U.inside_with(cfg, d, 'named_lock')
                        for w in locks):
                look.append(d)
        # feasibility-aware must-pass: with the lookups blocked the creation
        # must be unreachable (self.task_ex is None when the lock is taken,
        # so the `if not self.task_ex:` around the lookup is always entered)
        INb, kb = sd.analyze(cfg, df, [('self.task_ex', (None, OBJ))],
                             block={d.id for d in look})
        r3.check(bool(look) and not INb[n.id],
                 ctx.construct(df, extra='lookup inside the lock'),
                 'the creation can be reached without a state-independent '
                 'lookup by unique_key made inside the lock',
                 ctx.loc(df, c))
        IN, keys = sd.analyze(cfg, df, [('self.task_ex', (None, OBJ))])
        vals = sd.values_at(IN, keys, n, 'self.task_ex')
        r3.check(vals == {None}, ctx.construct(df, extra='create only when '
                                               'absent'),
                 'creation reachable although an execution was found',
                 ctx.loc(df, c))
    # an existing join execution is not restarted by a further trigger
    cfg = ctx.cfg(df)
    INs, ks = sd.analyze(cfg, df, [('self.task_ex.state', sd.state_domain)])
    for n, c in U.calls_in(cfg, 'set_state'):
        vals = sd.values_at(INs, ks, n, 'self.task_ex.state')
        bad = vals & (completed | {S['RUNNING'], S['RUNNING_DELAYED']})
        r3.check(not bad, ctx.construct(df, c),
                 'a further trigger moves the existing join execution back '
                 'to WAITING although it is %s: it is refreshed and started '
                 'again (join: one / join: N run once per late branch)'
                 % sorted(bad), ctx.loc(df, c))
    # a deferred join is WAITING: that is the only state the refresh acts on
    for n, c in cr:
        st = U.kwarg(c, 'state')
        r3.check(st is not None and sd.const_state(st) == S['WAITING'],
                 ctx.construct(df, c, extra='created WAITING'),
                 'the join execution is not created in state WAITING: the '
                 'refresh that would start it only acts on WAITING tasks',
                 ctx.loc(df, c))
    for n, c in U.calls_in(cfg, 'set_state'):
        r3.check(bool(c.args) and sd.const_state(c.args[0]) == S['WAITING'],
                 ctx.construct(df, c, extra='deferred to WAITING'),
                 'defer() moves the execution to a state other than WAITING',
                 ctx.loc(df, c))
    fast = [(d, sub) for d, sub in cfg.calls(
        lambda x: U.call_name(x) == 'get_task_executions')
        if not U.inside_with(cfg, d, 'named_lock')]
    for d, sub in fast:
        st = U.kwarg(sub, 'state')
        r3.check(st is not None and sd.const_state(st) == S['WAITING'] and
                 U.kwarg(sub, 'unique_key') is not None and
                 U.kwarg(sub, 'workflow_execution_id') is not None,
                 ctx.construct(df, sub, extra='fast path: WAITING only'),
                 'the lock-free fast path accepts an execution that is not '
                 'WAITING (or not this join of this workflow): a finished '
                 'join of an earlier cycle iteration would swallow the new '
                 'trigger', ctx.loc(df, sub))
    cn = prog.func(RT + '.create_new')
    cfg = ctx.cfg(cn)
    IN, keys = sd.analyze(cfg, cn, [('self.waiting', (False, True))])
    for n, c in U.calls_in(cfg, '_create_task_execution'):
        vals = sd.values_at(IN, keys, n, 'self.waiting')
        r3.check(True not in vals, ctx.construct(cn, c),
                 'waiting (join) tasks fall through to the plain IDLE '
                 'creation', ctx.loc(cn, c))
    for n, c in U.calls_in(cfg, 'defer'):
        vals = sd.values_at(IN, keys, n, 'self.waiting')
        r3.check(vals == {True}, ctx.construct(cn, c),
                 'defer() is not limited to waiting tasks', ctx.loc(cn, c))

    # ---- R4 joins start only through the locked refresh -----------------------
    r4 = ctx.rule('R4', 'a waiting task starts only through '
                  '_refresh_task_state (lock, refresh, re-check, logical '
                  'state)', 'GD')
    for name in ('_run_new', '_run_existing'):
        f = prog.func(RT + '.' + name)
        cfg = ctx.cfg(f)
        IN, keys = sd.analyze(cfg, f, [('self.waiting', (False, True))])
        effs = U.calls_in(cfg, 'set_state', '_schedule_actions')
        if not effs:
            raise AnalysisError('C04.R4: effects of %s lost' % name)
        for n, c in effs:
            vals = sd.values_at(IN, keys, n, 'self.waiting')
            r4.check(True not in vals, ctx.construct(f, c),
                     '%s acts on a waiting task' % name, ctx.loc(f, c))
    rf = prog.func(TH + '._refresh_task_state')
    cfg = ctx.cfg(rf)
    IN, keys = sd.analyze(cfg, rf, [('task_ex.state', sd.state_domain),
                                    ('state', sd.state_domain)])
    for name, want in (('continue_task', S['RUNNING']),
                       ('complete_task', S['ERROR'])):
        got = U.calls_in(cfg, name)
        if not got:
            raise AnalysisError('C04.R4: _refresh_task_state no longer '
                                'calls %s' % name)
        for n, c in got:
            locks = U.inside_with(cfg, n, 'named_lock')
            r4.check(bool(locks) and 'task_ex.id' in norm(
                locks[0].ast.items[0].context_expr),
                ctx.construct(rf, extra=name + ' in lock'),
                '%s is not inside with named_lock(task_ex.id)' % name,
                ctx.loc(rf, c))
            refr = [d for d in cfg.dominators(n)
                    if U.node_has_call(cfg, d, 'refresh') and locks and
                    cfg.dominates(locks[0], d)]
            r4.check(bool(refr), ctx.construct(rf, extra=name + ' after '
                                               'refresh'),
                     'no db_api.refresh(task_ex) inside the lock dominates '
                     '%s' % name, ctx.loc(rf, c))
            tv = {v[0] for v in IN[n.id]}
            sv = {v[1] for v in IN[n.id]}
            r4.check(not (tv & (completed | {S['RUNNING']})),
                     ctx.construct(rf, extra=name + ' re-check'),
                     '%s reachable for task states %s after the refresh'
                     % (name, sorted(tv & (completed | {S['RUNNING']}))),
                     ctx.loc(rf, c))
            r4.check(S['WAITING'] in tv,
                     ctx.construct(rf, extra=name + ' for WAITING tasks'),
                     '%s is not reachable for a WAITING task: a join whose '
                     'preconditions are decided never moves on' % name,
                     ctx.loc(rf, c))
            r4.check(sv == {want}, ctx.construct(rf, extra=name + ' logical '
                                                 'state'),
                     '%s reachable for logical states %s'
                     % (name, sorted(map(str, sv))), ctx.loc(rf, c))
    # the logical state comes from the controller
    r4.check(any(isinstance(x, ast.Call) and
                 U.call_name(x) == 'get_logical_task_state'
                 for x in own_nodes(rf.node)),
             ctx.construct(rf, extra='logical state source'),
             'logical state is no longer computed by the controller',
             ctx.loc(rf))

    # ---- R5 backlog round trip --------------------------------------------------
    r5 = ctx.rule('R5', 'backlogged join commands keep wait/unique_key',
                  'AGREE')
    shared.backlog_round_trip(ctx, r5)

    # ---- R6 reverse workflow -------------------------------------------------
    r6 = ctx.rule('R6', 'reverse controller only emits satisfied, not yet '
                  'existing tasks the target depends on', 'GD')
    reverse_rules(ctx, r6)
    reverse_graph(ctx, r6)
    shared.requires_read_with_defaults(ctx, r6)
    from mstatic.rules import completion
    r12 = ctx.rule('R12', 'a completed task records every task it routes '
                   'to (the join verdict reads that record)', 'AGREE')
    completion.task_complete_followup(ctx, r12)

    # ---- R8 the execution cache covers what is looked up -----------------------
    r8 = ctx.rule('R8', 'the task-execution cache is loaded for the spec '
                  'whose inbound tasks are looked up in it', 'AGREE')
    cache_rule(ctx, r8)

    # ---- R7 termination devices ------------------------------------------------
    r7 = ctx.rule('R7', 'task-graph walks end on cyclic definitions',
                  'termination device')
    termination_devices(ctx, r7)

    # ---- R9 which joins are refreshed -------------------------------------------
    r9 = ctx.rule('R9', 'completing a task refreshes every join that can be '
                  'affected, through joins that were never created',
                  'GD+coverage')
    shared.affected_walk_stops(ctx, r9)
    shared.affected_tasks_cover_completed(ctx, r9)
    shared.refresh_covers_unfinished(ctx, r9)

    # ---- R11 the lock primitives the create-once rule relies on ------------------
    r11 = ctx.rule('R11', 'named_lock inserts a uniquely named row at once, '
                   'holds it for the body and deletes that row; '
                   'acquire_lock re-reads FOR UPDATE', 'GD/PAIR')
    from mstatic.rules import txqueue
    txqueue.lock_primitives(ctx, r11)

    # ---- R10 decision tables of the join logic ----------------------------------
    r10 = ctx.rule('R10', 'the join verdict (start / wait / fail) computed '
                   'from the inbound tasks is the prescribed one for every '
                   'combination of counts 0..3, cardinalities and inbound '
                   'execution states', 'DT (finite-domain evaluation)')
    from mstatic.rules import joinlogic
    joinlogic.join_logical_state(ctx, r10)
    joinlogic.induced_join_state(ctx, r10)
    joinlogic.possible_route(ctx, r10)
    joinlogic.route_cache_covers_inbound(ctx, r10)
    r10.floor(8)


def _join_exits_pass(cfg, f, sd, wait_node):
    """Every normal exit that skips the wait store is dominated by a test
    that makes the spec a non-join / the command a non-task command."""
    avoid = [wait_node]
    r = cfg.reach([s for s, k in cfg.entry.succ], avoid=avoid,
                  follow_exc=False)
    for x in r:
        if x.kind == 'stmt' and isinstance(x.ast, ast.Return):
            ga = U.guard_atoms(cfg, x)
            if not any(t_ is False and ('get_join' in norm(a_) or
                                        'isinstance' in norm(a_))
                       for a_, t_ in ga):
                return False
    return True
