"""C05 - a task sees exactly the data published by its causal predecessors;
evaluation never modifies stored context."""
import ast

from mstatic.core import AnalysisError, NotConst, dotted, norm, own_nodes
from mstatic.rules import util as U

DF = 'mistral.workflow.data_flow'
CV = 'mistral.workflow.context_versioning'
EXPR = 'mistral.expressions'

FIELDS = {'in_context', 'published', 'context', 'input'}
MUT = {'update', 'pop', 'clear', 'setdefault', 'popitem', 'append',
       'extend', 'insert', 'remove', '__setitem__', '__delitem__'}
# mistral_lib.utils helpers, established by reading them: mutate and return
# their first argument (return the second untouched when the first is None)
LIB_MUTATE_ARG0 = {'merge_dicts', 'update_dict'}

SKIP_MODULES = ('mistral.api', 'mistral.db', 'mistral.lang',
                'mistral.actions', 'mistral.auth', 'mistral.cmd',
                'mistral.config', 'mistral.ext', 'mistral.hacking',
                'mistral.context', 'mistral.rpc', 'mistral.notifiers',
                'mistral.executors', 'mistral.scheduler',
                'mistral.event_engine')

# functions allowed to write a persisted context field, with the field
WRITERS_OK = {
    'mistral.engine.tasks.Task._update_inbound_context':
        'in_context: inbound data recomputed when the task completes/reruns',
    'mistral.engine.workflows.Workflow._create_execution':
        'input: set once at creation',
    DF + '.add_execution_to_context': 'context: creation',
    DF + '.add_openstack_data_to_context': 'context: creation',
    DF + '.add_workflow_variables_to_context': 'context: creation (vars)',
    DF + '.publish_variables':
        'published (branch) and workflow context (global publish)',
}


def chain_field(e):
    cur = e
    while isinstance(cur, (ast.Attribute, ast.Subscript)):
        if isinstance(cur, ast.Attribute):
            if cur.attr in FIELDS:
                return cur.attr
            cur = cur.value
        else:
            cur = cur.value
    return None


def field_aliases(f):
    """local name -> field, for `x = <expr rooted at a persisted field>`
    (direct aliases only; dict()/deepcopy()/copy() break the alias)."""
    alias = {}
    for n in own_nodes(f.node):
        if isinstance(n, ast.Assign) and len(n.targets) == 1 and \
                isinstance(n.targets[0], ast.Name):
            v = n.value
            if isinstance(v, ast.IfExp):
                cands = [v.body, v.orelse]
            elif isinstance(v, ast.BoolOp):
                cands = v.values
            else:
                cands = [v]
            for c in cands:
                if isinstance(c, (ast.Attribute, ast.Subscript)):
                    fld = chain_field(c)
                    if fld:
                        alias[n.targets[0].id] = fld
    return alias


def mutations(f, is_target):
    """[(kind, node)] mutating an expression for which is_target(expr)."""
    out = []
    for n in own_nodes(f.node):
        tg = []
        if isinstance(n, ast.Assign):
            tg = n.targets
        elif isinstance(n, ast.AugAssign):
            tg = [n.target]
        elif isinstance(n, ast.Delete):
            tg = n.targets
        for t in tg:
            if isinstance(t, ast.Subscript) and is_target(t.value):
                out.append(('store', n))
        if isinstance(n, ast.Call):
            nm = U.call_name(n)
            if nm in MUT and isinstance(n.func, ast.Attribute) and \
                    is_target(n.func.value):
                out.append((nm, n))
            if nm in LIB_MUTATE_ARG0 and n.args and is_target(n.args[0]):
                out.append((nm, n))
    return out


def param_mutators(prog):
    """{qname: set(param index)} for functions of mistral.workflow /
    mistral.expressions / mistral.engine that mutate a parameter."""
    mods = ('mistral.workflow.', 'mistral.expressions', 'mistral.engine.')
    cand = [f for f in prog.funcs.values() if f.module.startswith(mods)]
    res = {}
    changed = True
    rounds = 0
    while changed and rounds < 5:
        changed = False
        rounds += 1
        for f in cand:
            params = f.params
            rebound = {}
            for n in own_nodes(f.node):
                if isinstance(n, ast.Assign):
                    for t in n.targets:
                        if isinstance(t, ast.Name) and t.id in params:
                            rebound.setdefault(t.id, n.lineno)
            for i, p in enumerate(params):
                if p in ('self', 'cls'):
                    continue

                def is_t(e, p=p):
                    return isinstance(e, ast.Name) and e.id == p and \
                        (p not in rebound or e.lineno < rebound[p])
                hit = bool(mutations(f, is_t))
                if not hit:
                    for n in own_nodes(f.node):
                        if isinstance(n, ast.Call):
                            nm = U.call_name(n)
                            for t in [q for q in res
                                      if q.rsplit('.', 1)[1] == nm]:
                                off = 1 if prog.funcs[t].cls else 0
                                for j in res[t]:
                                    k = j - off
                                    if 0 <= k < len(n.args) and \
                                            is_t(n.args[k]):
                                        hit = True
                if hit and i not in res.get(f.qname, set()):
                    res.setdefault(f.qname, set()).add(i)
                    changed = True
    return res


CLAUSE_ATTRS = {'_on_complete': 'all', '_on_success': 'state',
                '_on_error': 'state', '_on_skip': 'state'}


def _spec_provenance(cfg, node, e, depth=0):
    """Where a publish spec expression comes from: {'fresh'} (built for this
    call), {'cached:all'} (the on-complete clause's spec object, shared by
    every completion of the task spec), {'cached:state'} (the spec object of
    the clause chosen by the completion state), {'none'}; None = unknown."""
    if isinstance(e, ast.Constant) and e.value is None:
        return {'none'}
    if isinstance(e, (ast.IfExp, ast.BoolOp)):
        out = set()
        for x in ([e.body, e.orelse] if isinstance(e, ast.IfExp)
                  else e.values):
            sub = _spec_provenance(cfg, node, x, depth)
            if sub is None:
                return None
            out |= sub
        return out
    if isinstance(e, ast.Call):
        nm = U.call_name(e)
        if nm == 'PublishSpec':
            return {'fresh'}
        if nm == 'get_publish' and isinstance(e.func, ast.Attribute):
            r = e.func.value
            if isinstance(r, ast.Call) and U.call_name(r) == 'super':
                return {'fresh'}
            if e.args or e.keywords:
                return None
            d = dotted(r)
            if d and d.startswith('self.') and d[5:] in CLAUSE_ATTRS:
                return {'cached:' + CLAUSE_ATTRS[d[5:]]}
            if isinstance(r, ast.Name) and depth < 3:
                out = set()
                for dv in U.reaching_defs(cfg, r.id)[node.id]:
                    if dv == 'unbound':
                        continue
                    alts = [dv]
                    if isinstance(dv, ast.Call) and \
                            U.call_name(dv) == 'get' and \
                            isinstance(dv.func.value, ast.Dict):
                        # {state: clause, ...}.get(state): one of the values
                        # (or None, which the caller tests for)
                        alts = list(dv.func.value.values)
                    for av in alts:
                        dd = dotted(av) if not isinstance(av, str) else None
                        if dd and dd.startswith('self.') and \
                                dd[5:] in CLAUSE_ATTRS:
                            out.add('cached:' + CLAUSE_ATTRS[dd[5:]])
                        else:
                            return None
                return out or None
        return None
    if isinstance(e, ast.Name) and depth < 3:
        out = set()
        for dv in U.reaching_defs(cfg, e.id)[node.id]:
            if dv == 'unbound':
                continue
            if isinstance(dv, str):
                return None
            dn = cfg.node_of(dv)
            sub = _spec_provenance(cfg, dn, dv, depth + 1)
            if sub is None:
                return None
            out |= sub
        return out or None
    return None


def clause_by_state(ctx, rule):
    """Which on-clause publishes for which completion state: in
    DirectWorkflowTaskSpec.get_publish the clause is on-success for SUCCESS,
    on-error for ERROR and on-skip for SKIPPED (read off an if/elif chain on
    `state == states.X` or a {state: clause}.get(state) table)."""
    prog = ctx.prog
    f = prog.func('mistral.lang.v2.tasks.DirectWorkflowTaskSpec.get_publish')
    cfg = ctx.cfg(f)
    P = f.params[-1]
    want = {'SUCCESS': 'self._on_success', 'ERROR': 'self._on_error',
            'SKIPPED': 'self._on_skip'}
    names = sorted({x.func.value.id for x in own_nodes(f.node)
                    if isinstance(x, ast.Call) and
                    U.call_name(x) == 'get_publish' and
                    isinstance(x.func, ast.Attribute) and
                    isinstance(x.func.value, ast.Name)})
    if len(names) != 1:
        raise AnalysisError('get_publish: the local holding the chosen '
                            'clause not identified (%s)' % names)
    var = names[0]
    got = {}
    for n in cfg.nodes:
        if n.kind == 'stmt' and isinstance(n.ast, ast.Assign) and \
                dotted(n.ast.targets[0]) == var:
            v = n.ast.value
            if isinstance(v, ast.Call) and U.call_name(v) == 'get' and \
                    isinstance(v.func.value, ast.Dict) and v.args and \
                    norm(v.args[0]) == P and not U.guard_atoms(cfg, n):
                for k, vv in zip(v.func.value.keys, v.func.value.values):
                    got[(dotted(k) or '').split('.')[-1]] = norm(vv)
                continue
            for a, t in U.guard_atoms(cfg, n):
                if t and isinstance(a, ast.Compare) and \
                        isinstance(a.ops[0], ast.Eq) and norm(a.left) == P:
                    got[(dotted(a.comparators[0]) or '').split('.')[-1]] = \
                        norm(v)
    if not got:
        raise AnalysisError('get_publish: state -> clause choice not '
                            'understood')
    for st, cl in sorted(want.items()):
        rule.check(got.get(st) == cl,
                   ctx.construct(f, extra='%s -> %s' % (st, cl[6:])),
                   'a task completed with %s publishes the `publish` of %s, '
                   'not of its %s clause' % (st, got.get(st), cl[6:]),
                   ctx.loc(f))


def shared_publish_specs(ctx, rule):
    """Spec objects live in the per-process spec cache and are shared by
    every execution of a definition.  PublishSpec.merge() extends its
    receiver in place, so the receiver must be an object built for this
    call, or the spec object of the clause the completion state selected
    (what is merged into it is the same for every completion in that
    state).  Merging state-dependent content into the on-complete spec
    makes a later completion in another state publish variables of a
    clause that did not fire."""
    prog = ctx.prog
    n_sites = 0
    for q, f in sorted(prog.funcs.items()):
        if not q.startswith('mistral.'):
            continue
        cfg = None
        for n in own_nodes(f.node):
            if not (isinstance(n, ast.Call) and
                    isinstance(n.func, ast.Attribute) and
                    n.func.attr == 'merge' and len(n.args) == 1):
                continue
            cfg = cfg or ctx.cfg(f)
            node = cfg.node_of(n)
            recv = _spec_provenance(cfg, node, n.func.value)
            arg = _spec_provenance(cfg, node, n.args[0])
            if recv is None or arg is None:
                raise AnalysisError(
                    'C05.R10: cannot tell where the publish specs of %s in '
                    '%s come from' % (norm(n, 80), q))
            n_sites += 1
            bad = 'cached:all' in recv and (arg - {'cached:all', 'none'})
            rule.check(not bad, ctx.construct(f, n),
                       'the receiver of this in-place merge can be the '
                       'cached on-complete publish spec, and what is merged '
                       'into it (%s) depends on the completion state: the '
                       'variables of one clause leak into every later '
                       'completion of this task spec' % ', '.join(
                           sorted(arg)), ctx.loc(f, n))
    if n_sites < 2:
        raise AnalysisError('C05.R10: only %d publish spec merges found'
                            % n_sites)
    # merge() extends the receiver only: the left operand of every
    # merge_dicts in it is derived from self
    mg = prog.func('mistral.lang.v2.publish.PublishSpec.merge')
    mcs = [c for c in own_nodes(mg.node) if isinstance(c, ast.Call) and
           U.call_name(c) == 'merge_dicts']
    if len(mcs) < 3:
        raise AnalysisError('C05.R10: PublishSpec.merge lost its '
                            'merge_dicts calls')
    for c in mcs:
        rule.check('spec_to_merge' not in U.names_in(c.args[0]) and
                   'spec_to_merge' in U.names_in(c.args[1]),
                   ctx.construct(mg, c),
                   'PublishSpec.merge writes into the spec it was given '
                   '(merge_dicts updates its left operand in place)',
                   ctx.loc(mg, c))
    # nothing else assigns the sections of a publish spec
    for q, f in sorted(prog.funcs.items()):
        if q in ('mistral.lang.v2.publish.PublishSpec.__init__',
                 'mistral.lang.v2.publish.PublishSpec.merge'):
            continue
        if not q.startswith('mistral.lang.v2.publish.'):
            continue
        for n in own_nodes(f.node):
            if isinstance(n, ast.Attribute) and isinstance(
                    n.ctx, ast.Store) and n.attr in (
                    '_branch', '_global', '_atomic'):
                rule.fail(ctx.construct(f, n),
                          'a publish spec section is assigned outside '
                          '__init__/merge', ctx.loc(f, n))


def run(ctx):
    _run(ctx)
    r9 = ctx.rule('R9', 'the upstream tasks whose data a task sees are all '
                  'the tasks recorded as having triggered it', 'DT + AGREE')
    from mstatic.rules import cmdcalc
    cmdcalc.triggered_by_ids(ctx, r9)
    cmdcalc.upstream_query_choice(ctx, r9)
    from mstatic.rules import shared as _sh
    _sh.inbound_before_publish(ctx, r9)
    _sh.requires_read_with_defaults(ctx, r9)
    _sh.upstream_states_are_completed_states(ctx, r9)
    _sh.filters_never_dropped(ctx, r9)
    _sh.rerun_keeps_triggered_by(ctx, r9)
    r10 = ctx.rule('R10', 'cached publish spec objects are only extended '
                   'with content of their own scope', 'ownership/dataflow')
    shared_publish_specs(ctx, r10)
    r12 = ctx.rule('R12', 'the final context is folded over ALL completed '
                   'tasks: the batches partition the rows of the query '
                   '(shared with C02)', 'PAIR (arithmetic shape)')
    _sh.batches_cover_all_rows(ctx, r12)
    r11 = ctx.rule('R11', 'the on-clause that publishes is the one of the '
                   'completion state (success / error / skip)', 'DT')
    clause_by_state(ctx, r11)


def _run(ctx):
    prog = ctx.prog

    # ---- R1 evaluation is pure ---------------------------------------------
    r1 = ctx.rule('R1', 'expression evaluation never writes into its '
                  'context or the caller\'s data', 'effect')
    er = prog.func(EXPR + '.evaluate_recursively')
    cfg = ctx.cfg(er)
    cp = [x for x in cfg.nodes if x.kind == 'stmt' and
          isinstance(x.ast, ast.Assign) and
          dotted(x.ast.targets[0]) == 'data' and
          'deepcopy(data)' in norm(x.ast.value)]
    stores = [k for k in mutations(
        er, lambda e: isinstance(e, ast.Name) and e.id == 'data')]
    ok = bool(cp) and bool(stores) and all(
        cfg.dominates(cp[0], cfg.node_of(n) or cfg.stmt_node(n))
        for _k, n in stores)
    r1.check(ok, ctx.construct(er, extra='deep copy before any store'),
             'evaluate_recursively stores into `data` before / without '
             'rebinding it to a deep copy', ctx.loc(er))
    n_fn = 0
    for f in [x for x in prog.funcs.values()
              if x.module.startswith(EXPR)]:
        for p in ('context', 'data_context'):
            if p not in f.params:
                continue
            n_fn += 1
            m = mutations(f, lambda e, p=p: isinstance(e, ast.Name) and
                          e.id == p)
            r1.check(not m, ctx.construct(f, extra='param ' + p),
                     'expression code mutates its %s parameter: %s'
                     % (p, [norm(n, 60) for _k, n in m][:2]),
                     ctx.loc(f, m[0][1]) if m else '')
    if n_fn < 5:
        raise AnalysisError('C05.R1: only %d context-taking functions'
                            % n_fn)
    cvq = DF + '.ContextView'
    prog.cls(cvq)
    need = ['__setitem__', 'update', 'clear', 'pop', 'popitem',
            '__delitem__']
    for name in need:
        f = prog.funcs.get(cvq + '.' + name)
        ok = f is not None and any(
            (isinstance(n, ast.Call) and
             U.call_name(n) == '_raise_immutable_error') or
            isinstance(n, ast.Raise) for n in own_nodes(f.node))
        r1.check(ok, cvq + ' :: ' + name, 'ContextView.%s does not raise: '
                 'the view (and through dict semantics the data) could be '
                 'modified by an expression' % name, prog.loc(cvq))
    ri = prog.func(cvq + '._raise_immutable_error')
    r1.check(any(isinstance(n, ast.Raise) for n in own_nodes(ri.node)),
             ctx.construct(ri), '_raise_immutable_error no longer raises',
             ctx.loc(ri))

    # ---- R2 writers of stored context -----------------------------------------
    r2 = ctx.rule('R2', 'the set of functions that mutate a persisted '
                  'context field equals the frozen table', 'WMW+alias')
    found = {}
    for q, f in sorted(prog.funcs.items()):
        if f.module.startswith(SKIP_MODULES):
            continue
        alias = field_aliases(f)

        def is_t(e, alias=alias, f=f):
            if isinstance(e, ast.Name):
                return e.id in alias and not clean_rebind(ctx, f, e)
            return chain_field(e) is not None
        hits = mutations(f, is_t)
        for n in own_nodes(f.node):
            if isinstance(n, ast.Assign):
                for t in n.targets:
                    if isinstance(t, ast.Attribute) and t.attr in FIELDS \
                            and dotted(t.value) not in ('self', 'cls'):
                        hits.append(('assign', n))
        if hits:
            found[q] = hits
    for q, hits in found.items():
        f = prog.funcs[q]
        r2.check(q in WRITERS_OK, ctx.construct(f, hits[0][1]),
                 'writes a persisted context field (%s) but is not one of '
                 'the known writers' % norm(hits[0][1], 70),
                 ctx.loc(f, hits[0][1]), WRITERS_OK.get(q, ''))
    missing = set(WRITERS_OK) - set(found)
    if missing:
        raise AnalysisError('C05.R2: known writers no longer detected: %s'
                            % sorted(missing))
    # parameter-mutating helpers must not receive a persisted field
    pm = param_mutators(prog)
    n_calls = 0
    for q, f in sorted(prog.funcs.items()):
        if f.module.startswith(SKIP_MODULES):
            continue
        alias = field_aliases(f)
        for n in own_nodes(f.node):
            if not isinstance(n, ast.Call):
                continue
            nm = U.call_name(n)
            for t in [x for x in pm if x.rsplit('.', 1)[1] == nm]:
                off = 1 if prog.funcs[t].cls and \
                    isinstance(n.func, ast.Attribute) else 0
                for j in pm[t]:
                    k = j - off
                    if 0 <= k < len(n.args):
                        n_calls += 1
                        a = n.args[k]
                        bad = (isinstance(a, ast.Name) and a.id in alias) \
                            or (not isinstance(a, ast.Name) and
                                chain_field(a) is not None)
                        if bad and q not in WRITERS_OK:
                            r2.fail(ctx.construct(f, n),
                                    'passes a persisted context field to '
                                    '%s which mutates that parameter'
                                    % t.rsplit('.', 1)[1], ctx.loc(f, n))
    if n_calls < 5:
        raise AnalysisError('C05.R2: parameter-mutator call sites lost')
    r2.ok('param-mutating helpers :: call sites', '%d call sites pass only '
          'fresh contexts' % n_calls)
    # the in_context copy: deep copy under the default configuration
    gi = prog.func(CV + '.get_in_context_with_versions')
    cfg = ctx.cfg(gi)
    cps = [x for x in cfg.nodes if x.kind == 'stmt' and
           isinstance(x.ast, ast.Assign) and
           dotted(x.ast.targets[0]) == 'in_context' and
           'copy.deepcopy' in norm(x.ast.value)]
    muts = mutations(gi, lambda e: (dotted(e) or '').split('.')[0] ==
                     'in_context' or (isinstance(e, ast.Subscript) and
                                      dotted(e.value) == 'in_context'))
    ok = bool(cps) and bool(muts) and all(
        cfg.dominates(cps[0], cfg.node_of(n) or cfg.stmt_node(n))
        for _k, n in muts)
    rets = [x for x in cfg.nodes if x.kind == 'stmt' and
            isinstance(x.ast, ast.Return)]
    for x in rets:
        if not cfg.dominates(cps[0], x) if cps else True:
            ok = ok and U.guarded(
                cfg, x, 'cfg.CONF.context_versioning.enabled', False)
    try:
        enabled = config_default(prog, 'context_versioning', 'enabled')
        strategy = config_default(prog, 'engine', 'merge_strategy')
    except NotConst as e:
        raise AnalysisError('C05.R2: config defaults: %s' % e)
    r2.check(ok and enabled is True,
             ctx.construct(gi, extra='deep copy before version bump'),
             'under the default configuration the inbound context is not '
             'deep-copied before versions are added (the stored in_context '
             'would be modified)', ctx.loc(gi))
    eo = prog.func(DF + '.evaluate_task_outbound_context')
    asg = [n for n in own_nodes(eo.node) if isinstance(n, ast.Assign) and
           dotted(n.targets[0]) == 'in_context']
    r2.check(len(asg) == 1 and
             'get_in_context_with_versions(task_ex)' in norm(asg[0].value),
             ctx.construct(eo, extra='works on the copy'),
             'outbound context is not built on the copy returned by '
             'get_in_context_with_versions', ctx.loc(eo))

    # ---- R3 published overrides inherited ------------------------------------------
    r3 = ctx.rule('R3', 'published data overrides inherited data and bumps '
                  'its versions', 'dataflow')
    calls = [n for n in own_nodes(eo.node) if isinstance(n, ast.Call) and
             U.call_name(n) in LIB_MUTATE_ARG0]
    if not calls:
        raise AnalysisError('C05.R3: merge call lost in '
                            'evaluate_task_outbound_context')
    for c in calls:
        r3.check(len(c.args) >= 2 and dotted(c.args[0]) == 'in_context' and
                 'published' in norm(c.args[1]) and
                 not any(k.arg == 'overwrite' and
                         isinstance(k.value, ast.Constant) and
                         k.value.value is False for k in c.keywords),
                 ctx.construct(eo, c),
                 'published data is not on the overriding (right) side of '
                 'the merge', ctx.loc(eo, c))
    bump = [n for n in own_nodes(gi.node) if isinstance(n, ast.AugAssign)
            and isinstance(n.op, ast.Add) and norm(n.value) == '1']
    loop = [n for n in own_nodes(gi.node) if isinstance(n, ast.For) and
            dotted(n.iter) == 'updated_keys']
    src = [n for n in own_nodes(gi.node) if isinstance(n, ast.Assign) and
           dotted(n.targets[0]) == 'updated_keys' and
           '_get_updated_keys(task_published)' in norm(n.value)]
    r3.check(bool(bump) and bool(loop) and bool(src) and
             any(x is bump[0] for x in ast.walk(loop[0])),
             ctx.construct(gi, extra='version +1 per published key'),
             'the version of every published key is not incremented by one',
             ctx.loc(gi))

    # what a completed task publishes: branch variables go to
    # task_ex.published, global variables into the workflow context, both
    # evaluated against the task's view; nothing when there is no spec
    pv = prog.func('mistral.workflow.data_flow.publish_variables')
    pcfg = ctx.cfg(pv)
    pubs = [st for t, st in U.attr_stores(pv.node)
            if norm(t) == 'task_ex.published']
    glob = [(n, c) for n, c in pcfg.calls(
        lambda c: U.call_name(c) == 'merge_dicts' and c.args and
        'workflow_execution.context' in norm(c.args[0]) or
        U.call_name(c) == 'merge_dicts' and c.args and
        norm(c.args[0]) == 'wf_ex.context')]
    spec_v = [x for x in own_nodes(pv.node) if isinstance(x, ast.Assign) and
              isinstance(x.value, ast.Call) and
              U.call_name(x.value) == 'get_publish']
    sv = dotted(spec_v[0].targets[0]) if spec_v else None
    okp = len(pubs) == 1 and len(glob) == 1 and sv is not None
    if okp:
        pn = pcfg.stmt_node(pubs[0])
        gn = glob[0][0]
        okp = U.guarded(pcfg, pn, sv, True) and \
            U.guarded(pcfg, gn, sv, True) and \
            U.phas(pubs[0].value, 'expr.evaluate_recursively(__b, __ctx)') \
            and norm(spec_v[0].value.args[0]) == 'task_ex.state'
    r3.check(okp, ctx.construct(pv, extra='branch and global publishing'),
             'publish_variables does not store the evaluated branch '
             'variables in task_ex.published and merge the evaluated global '
             'variables into the workflow context whenever the task has a '
             'publish spec for its state', ctx.loc(pv))
    sd = ctx.sd
    INp, kp = sd.analyze(pcfg, pv, [('task_ex.state', sd.state_domain)])
    gpc = U.calls_in(pcfg, 'get_publish')
    pvals = sd.values_at(INp, kp, gpc[0][0], 'task_ex.state') if gpc \
        else set()
    Sx = sd.consts
    r3.check(pvals == {Sx['SUCCESS'], Sx['ERROR'], Sx['SKIPPED']},
             ctx.construct(pv, extra='publishing states'),
             'variables are published for task states %s, expected exactly '
             'SUCCESS, ERROR and SKIPPED' % sorted(map(str, pvals)),
             ctx.loc(pv))
    if okp:
        def src_of(e):
            nm = [y.id for y in ast.walk(e) if isinstance(y, ast.Name)]
            defs = [x for x in own_nodes(pv.node)
                    if isinstance(x, ast.Assign) and
                    dotted(x.targets[0]) in nm and
                    isinstance(x.value, ast.Call) and
                    U.call_name(x.value) in ('get_branch', 'get_global')]
            return {U.call_name(x.value) for x in defs}
        r3.check(src_of(pubs[0].value.args[0]) == {'get_branch'} and
                 src_of(glob[0][1].args[1]) == {'get_global'},
                 ctx.construct(pv, extra='branch vs global'),
                 'branch variables and global variables are stored in each '
                 "other's place", ctx.loc(pv))
    ps = prog.func('mistral.lang.v2.publish.PublishSpec.merge')
    mcfg = ctx.cfg(ps)
    for sec in ('branch', 'global', 'atomic'):
        sts = [st for t, st in U.attr_stores(ps.node)
               if norm(t) == 'self._' + sec]
        okm = len(sts) == 1
        if okm:
            sn = mcfg.stmt_node(sts[0])
            okm = U.guarded(mcfg, sn, '__o.get_%s()' % sec, True) and \
                U.guarded(mcfg, sn, ps.params[1], True) and \
                U.phas(sts[0].value, 'utils.merge_dicts({} if self._%s is '
                       'None else self._%s, __o.get_%s())'
                       % (sec, sec, sec))
        r3.check(okm, ctx.construct(ps, extra=sec + ' section'),
                 'merging publish specs does not merge the %s section of the '
                 'other spec into this one (creating it when absent)' % sec,
                 ctx.loc(ps))

    # ---- R4 one key function ------------------------------------------------------
    r4 = ctx.rule('R4', 'writer and reader compute version keys the same '
                  'way', 'AGREE')
    w = prog.func(CV + '._get_published_keys_recursively')
    r = prog.func(CV + '._merge_ctx')

    def key_exprs(f, var):
        out = set()
        for n in own_nodes(f.node):
            if isinstance(n, ast.Assign) and \
                    dotted(n.targets[0]) == 'new_prefix':
                txt = norm(strip_kw(n.value), 300)
                txt = txt.replace(var, 'K')
                txt = ' '.join(txt.replace('"', "'").split())
                out.add(txt)
        return out
    kw = key_exprs(w, 'key')
    kr = key_exprs(r, 'k')
    # md5 call: strip keyword args inside
    kw = {x.replace(", usedforsecurity=False", '') for x in kw}
    r4.check(bool(kw) and kw == kr, CV + ' :: version key expression',
             'version keys are computed differently by the writer %s and '
             'the reader %s' % (sorted(kw), sorted(kr)), ctx.loc(r))
    version_paths(ctx, r4)
    merge_shape(ctx, r4)
    for f in (w, r):
        guards = [norm(n.test) for n in own_nodes(f.node)
                  if isinstance(n, ast.If) and 'hash_version_keys' in
                  norm(n.test)]
        r4.check(len(guards) == 1 and guards[0] ==
                 'cfg.CONF.context_versioning.hash_version_keys',
                 ctx.construct(f, extra='hash option'),
                 'hashing of version keys is not controlled by the same '
                 'option on both sides', ctx.loc(f))
    # merge direction: the right value wins only with a strictly greater
    # version; versions merge with max
    cfg = ctx.cfg(r)
    over = [n for n in own_nodes(r.node) if isinstance(n, ast.Assign) and
            norm(n.targets[0]) == 'ctx_left[k]' and norm(n.value) == 'v']
    okd = False
    for n in over:
        sn = cfg.stmt_node(n)
        okd = okd or U.guarded(cfg, sn, 'r_ver > l_ver', True)
    r4.check(okd, ctx.construct(r, extra='merge direction'),
             'an existing left value is overwritten without "right version '
             '> left version"', ctx.loc(r))
    lv = [n for n in own_nodes(r.node) if isinstance(n, ast.Assign) and
          dotted(n.targets[0]) in ('l_ver', 'r_ver')]
    okv = len(lv) == 2 and all(
        ('ver_left' in norm(n.value)) == (dotted(n.targets[0]) == 'l_ver')
        for n in lv)
    r4.check(okv, ctx.construct(r, extra='version sources'),
             'l_ver / r_ver are not read from the left / right version map',
             ctx.loc(r))
    mv = prog.func(CV + '._merge_versions')
    r4.check(any(isinstance(n, ast.Call) and U.call_name(n) == 'max'
                 for n in own_nodes(mv.node)),
             ctx.construct(mv), 'merged versions are not the maximum',
             ctx.loc(mv))

    # ---- R5 lookup priority ------------------------------------------------------------
    r5 = ctx.rule('R5', 'ContextView arguments are ordered branch data, '
                  'workflow context, workflow input', 'AGREE')
    r5.floor(8)
    for q, f in sorted(prog.funcs.items()):
        for n in own_nodes(f.node):
            if isinstance(n, ast.Call) and U.call_name(n) == 'ContextView':
                kinds = [view_arg_kind(a) for a in n.args]
                cons = ctx.construct(f, n)
                if 'unknown' in kinds:
                    r5.fail(cons, 'ContextView argument of unknown kind: %s'
                            % [norm(a) for a, k in zip(n.args, kinds)
                               if k == 'unknown'], ctx.loc(f, n))
                    continue
                rank = {'task': 0, 'branch': 1, 'env': 1, 'wfctx': 2,
                        'input': 3}
                seq = [rank[k] for k in kinds]
                r5.check(seq == sorted(seq) and
                         (kinds.count('task') <= 1) and
                         ('task' not in kinds or kinds[0] == 'task'),
                         cons, 'lookup priority is %s (expected task, '
                         'branch/env, workflow context, input)' % kinds,
                         ctx.loc(f, n), str(kinds))
                # within the branch data, a context handed in by the caller
                # (the outbound context: inbound + what the task has just
                # published) wins over the stored inbound context
                par = [i for i, a in enumerate(n.args)
                       if U.names_in(a) & set(f.params) - {'self'} and
                       view_arg_kind(a) == 'branch' and
                       not any((dotted(x) or '').endswith('.in_context')
                               for x in ast.walk(a))]
                sto = [i for i, a in enumerate(n.args)
                       if (dotted(a) or '').endswith('.in_context')]
                if par and sto:
                    r5.check(max(par) < min(sto),
                             ctx.construct(f, n, extra='given context '
                                           'before stored inbound context'),
                             'the stored inbound context shadows the context '
                             'given by the caller: a variable the task has '
                             'just re-published is read with its inbound '
                             '(stale) value, e.g. by break-on / continue-on',
                             ctx.loc(f, n))
    cvi = prog.func(cvq + '.__init__')
    gi_ = prog.func(cvq + '.__getitem__')
    r5.check(any(isinstance(n, ast.For) and dotted(n.iter) == 'self.dicts'
                 for n in own_nodes(gi_.node)) and
             'reversed' not in ast.unparse(gi_.node),
             ctx.construct(gi_), 'lookup does not scan the dictionaries in '
             'the given order', ctx.loc(gi_))
    r5.check(strategy == 'replace', 'mistral.config :: engine.merge_strategy',
             'default merge strategy is %r (rules are stated for replace)'
             % strategy, 'mistral/config.py')

    # ---- R6 causal selection ----------------------------------------------------------------
    r6 = ctx.rule('R6', 'inbound context is computed from the tasks that '
                  'triggered this one', 'dataflow')
    ui = prog.func('mistral.engine.tasks.Task._update_inbound_context')
    calls = [n for n in own_nodes(ui.node) if isinstance(n, ast.Call) and
             U.call_name(n) == 'get_task_inbound_context']
    src = [n for n in own_nodes(ui.node) if isinstance(n, ast.Assign) and
           dotted(n.targets[0]) == 'triggered_by' and
           '_get_triggered_by_ids()' in norm(n.value)]
    r6.check(bool(calls) and bool(src) and
             U.kwarg(calls[0], 'triggered_by') is not None and
             dotted(U.kwarg(calls[0], 'triggered_by')) == 'triggered_by',
             ctx.construct(ui), 'the ids recorded in triggered_by are not '
             'passed to get_task_inbound_context', ctx.loc(ui))
    gt = prog.func('mistral.workflow.base.WorkflowController.'
                   'get_task_inbound_context')
    calls = [n for n in own_nodes(gt.node) if isinstance(n, ast.Call) and
             U.call_name(n) == '_get_upstream_task_executions']
    r6.check(bool(calls) and U.kwarg(calls[0], 'triggered_by') is not None,
             ctx.construct(gt), 'triggered_by is dropped before the '
             'upstream lookup', ctx.loc(gt))

    # the tasks whose data a join sees are those that ROUTED to it: inbound
    # by the definition is not enough (a conditional transition that was
    # not taken does not make its source a causal predecessor)
    gu = prog.func('mistral.workflow.direct_workflow.DirectWorkflowController'
                   '._get_upstream_task_executions')
    ucfg = ctx.cfg(gu)
    JOIN = '%s.get_join()' % gu.params[1]
    ROUTED = '%s.get_name() in [__t[0] for __t in __e.next_tasks]' \
        % gu.params[1]
    n_join_ret = 0
    for x in ucfg.nodes:
        if not (x.kind == 'stmt' and isinstance(x.ast, ast.Return) and
                x.ast.value is not None):
            continue
        if not U.guarded(ucfg, x, JOIN, True):
            continue
        n_join_ret += 1
        v = x.ast.value
        okj = False
        if isinstance(v, ast.Name):
            apps = [n for n, c in ucfg.calls(
                lambda c: U.call_name(c) == 'append' and
                dotted(c.func.value) == v.id)]
            inits = [st for st in own_nodes(gu.node)
                     if isinstance(st, ast.Assign) and
                     dotted(st.targets[0]) == v.id]
            okj = bool(apps) and all(U.guard_match(ucfg, n, ROUTED, True)
                                     for n in apps) and \
                all(norm(st.value) == '[]' for st in inits)
        elif isinstance(v, ast.ListComp):
            okj = any(U.phas(i, ROUTED) for g_ in v.generators
                      for i in g_.ifs)
        r6.check(okj, ctx.construct(gu, x.ast),
                 'the upstream tasks of a join are not restricted to the '
                 'tasks whose recorded next_tasks contain the join (data of '
                 'a task that did not route to the join would be merged in)',
                 ctx.loc(gu, x.ast))
    if n_join_ret < 1:
        raise AnalysisError('C05.R6: join branch of '
                            '_get_upstream_task_executions lost')
    for n, c in U.calls_in(ucfg, '_get_task_executions'):
        if U.guarded(ucfg, n, JOIN, False):
            r6.check(U.kwarg(c, 'processed') is not None and
                     (not U.guarded(ucfg, n, 'triggered_by', True) or
                      U.phas(U.kwarg(c, 'id') or ast.Constant(None),
                             "{'in': triggered_by}")),
                     ctx.construct(gu, extra='parent of a non-join task'),
                     'the single parent of a non-join task is not selected '
                     'among processed tasks / by the recorded trigger ids',
                     ctx.loc(gu, c))

    # ---- R7 merge results are not lost --------------------------------------------------------
    r7 = ctx.rule('R7', 'a merge whose left side may be None does not '
                  'discard its result', 'must-use')
    n_sites = 0
    for q, f in sorted(prog.funcs.items()):
        nullable = nullable_names(prog, f)
        for n in own_nodes(f.node):
            if isinstance(n, ast.Expr) and isinstance(n.value, ast.Call) and \
                    U.call_name(n.value) in LIB_MUTATE_ARG0 and \
                    n.value.args:
                n_sites += 1
                a = n.value.args[0]
                d = dotted(a)
                isnull = d in nullable
                r7.check(not isnull, ctx.construct(f, n.value),
                         'result of %s discarded although its first '
                         'argument %s can be None (%s): the merge is lost'
                         % (U.call_name(n.value), d, nullable.get(d)),
                         ctx.loc(f, n))
    if n_sites < 4:
        raise AnalysisError('C05.R7: only %d discarded-merge sites'
                            % n_sites)

    # ---- R8 accumulators ----------------------------------------------------------------------
    r8 = ctx.rule('R8', 'contexts that are accumulated over a loop carry '
                  'what earlier iterations contributed', 'dataflow')
    accumulators(ctx, r8)
    versioned_merges_only(ctx, r8)
    every_published_key_versioned(ctx, r8)


# (function, accumulated variable): the variable is initialised before a
# loop, re-assigned inside it and returned; every in-loop re-assignment must
# be computed from the previous value.
ACCUMULATORS = [
    ('mistral.workflow.direct_workflow.DirectWorkflowController.'
     'evaluate_workflow_final_context', 'ctx'),
    ('mistral.workflow.data_flow.evaluate_upstream_context',
     'published_vars'),
]


def accumulators(ctx, rule):
    prog = ctx.prog
    for q, var in ACCUMULATORS:
        f = prog.func(q)
        loops = [x for x in own_nodes(f.node)
                 if isinstance(x, (ast.For, ast.While))]
        inloop = []
        for lp in loops:
            for x in ast.walk(lp):
                if isinstance(x, ast.Assign) and any(
                        dotted(t) == var for t in x.targets):
                    if x not in inloop:
                        inloop.append(x)
        if not inloop:
            raise AnalysisError('C05.R8: %s no longer accumulates %s in a '
                                'loop' % (q, var))
        for x in inloop:
            uses = {y.id for y in ast.walk(x.value)
                    if isinstance(y, ast.Name)}
            rule.check(var in uses, ctx.construct(f, x),
                       '%s is re-assigned inside the loop from a value that '
                       'does not depend on its previous value: what earlier '
                       'iterations (batches / upstream tasks) contributed '
                       'is dropped' % var, ctx.loc(f, x))
    # the additive context, when given, is the merge base
    eu = prog.func('mistral.workflow.data_flow.evaluate_upstream_context')
    cfg = ctx.cfg(eu)
    base = [x for x in own_nodes(eu.node) if isinstance(x, ast.Assign) and
            dotted(x.targets[0]) == 'ctx' and
            dotted(x.value) == 'additive_context']
    rule.check(len(base) == 1 and U.guarded(
        cfg, cfg.stmt_node(base[0]), 'additive_context', True),
        ctx.construct(eu, extra='additive context is the merge base'),
        'a given additive context is not used as the base of the version '
        'merge', ctx.loc(eu))
    merges = [n for n, c in cfg.calls(
        lambda c: U.call_name(c) == 'merge_context_by_version')]
    rets = [x for x in cfg.nodes if x.kind == 'stmt' and
            isinstance(x.ast, ast.Return) and dotted(x.ast.value) == 'ctx']
    rule.check(bool(merges) and bool(rets) and all(
        norm(c.args[0]) == 'ctx' for n, c in cfg.calls(
            lambda c: U.call_name(c) == 'merge_context_by_version')),
        ctx.construct(eu, extra='merged into ctx, ctx returned'),
        'upstream contexts are not merged into the returned context',
        ctx.loc(eu))


CTX_PRODUCERS = ('evaluate_upstream_context',
                 'evaluate_task_outbound_context')


def versioned_merges_only(ctx, rule):
    """With context versioning enabled, the contexts of different tasks
    are combined by version (merge_context_by_version, reached through
    evaluate_upstream_context(..., additive_context=...)).  A plain
    merge_dicts of task contexts lets the operand order decide, i.e. the
    order in which the DB lists end tasks / upstream tasks: it is only
    acceptable on the arm where versioning is switched off."""
    prog = ctx.prog
    n = 0
    for q, f in sorted(prog.funcs.items()):
        if not (q.startswith('mistral.workflow.') or
                q.startswith('mistral.engine.')):
            continue
        cs = [c for c in own_nodes(f.node) if isinstance(c, ast.Call) and
              U.call_name(c) == 'merge_dicts']
        if not cs:
            continue
        cfg = ctx.cfg(f)
        for c in cs:
            txt = ' '.join(norm(U.canon_expr(f.node, a), 400)
                           for a in c.args)
            if not any(p_ + '(' in txt for p_ in CTX_PRODUCERS):
                continue
            n += 1
            node = cfg.node_of(c)
            off = U.guarded(cfg, node,
                            'cfg.CONF.context_versioning.enabled', False) \
                or U.guarded(cfg, node,
                             'CONF.context_versioning.enabled', False)
            rule.check(off, ctx.construct(f, c),
                       'task contexts are combined with a plain merge_dicts '
                       'on a path where context versioning is enabled: the '
                       'later operand wins whatever the versions say, so the '
                       'result depends on the order the tasks are listed',
                       ctx.loc(f, c))
    if n < 2:
        raise AnalysisError('C05: only %d plain merges of task contexts '
                            'found (expected the two versioning-off arms)'
                            % n)


def clean_rebind(ctx, f, name_node):
    """The use of local `name` at name_node is dominated by an assignment
    of that name from an expression that is not rooted at a persisted
    field (deepcopy / dict(...) / fresh value): the alias is broken."""
    cfg = ctx.cfg(f)
    use = cfg.node_of(name_node)
    if use is None:
        return False
    for d in cfg.dominators(use):
        if d.kind == 'stmt' and isinstance(d.ast, ast.Assign) and \
                len(d.ast.targets) == 1 and \
                dotted(d.ast.targets[0]) == name_node.id:
            v = d.ast.value
            direct = isinstance(v, (ast.Attribute, ast.Subscript,
                                    ast.IfExp, ast.BoolOp, ast.Name))
            # nearest dominating assignment decides
            return not direct
    return False


def strip_kw(node, names=('usedforsecurity',)):
    import copy as _copy
    node = _copy.deepcopy(node)
    for x in ast.walk(node):
        if isinstance(x, ast.Call):
            x.keywords = [k for k in x.keywords if k.arg not in names]
    return node


def view_arg_kind(a):
    t = norm(a)
    if 'get_current_task_dict' in t:
        return 'task'
    if 'get_workflow_environment_dict' in t:
        return 'env'
    if isinstance(a, ast.IfExp):
        ks = {view_arg_kind(a.body), view_arg_kind(a.orelse)} - {'empty'}
        return ks.pop() if len(ks) == 1 else ('empty' if not ks
                                              else 'unknown')
    if isinstance(a, ast.BoolOp):
        ks = {view_arg_kind(v) for v in a.values} - {'empty'}
        return ks.pop() if len(ks) == 1 else 'unknown'
    if isinstance(a, ast.Dict) and not a.keys:
        return 'empty'
    d = dotted(a)
    if d is None:
        return 'unknown'
    last = d.split('.')[-1]
    if last == 'context':
        return 'wfctx'
    if last == 'input':
        return 'input'
    if last in ('ctx', 'in_context', 'input_dict', 'task_ctx',
                'final_context', 'base_input_dict'):
        return 'branch'
    if last == 'wf_ctx':
        # ad-hoc action base-input evaluation: the caller's context view
        return 'wfctx'
    return 'unknown'


def nullable_names(prog, f):
    """dotted name -> reason, for values that may be None: assigned from
    `.get(k)` without default (locally, or to self.<attr> in __init__)."""
    out = {}

    def scan(fn, prefix_self):
        for n in own_nodes(fn.node):
            if isinstance(n, ast.Assign) and len(n.targets) == 1:
                t = dotted(n.targets[0])
                v = n.value
                if t and isinstance(v, ast.Call) and \
                        U.call_name(v) == 'get' and len(v.args) == 1 and \
                        not v.keywords:
                    if prefix_self and not t.startswith('self.'):
                        continue
                    out[t] = 'assigned from %s' % norm(v, 50)
    scan(f, False)
    if f.cls:
        init = prog.funcs.get(f.cls + '.__init__')
        if init is not None and init is not f:
            scan(init, True)
    # re-assignment in this function from a non-None expression clears it
    for n in own_nodes(f.node):
        if isinstance(n, ast.Assign) and len(n.targets) == 1:
            t = dotted(n.targets[0])
            if t in out and not (isinstance(n.value, ast.Call) and
                                 U.call_name(n.value) == 'get' and
                                 len(n.value.args) == 1):
                out.pop(t, None)
    return out


def config_default(prog, group, opt):
    """Fold the default of cfg.XxxOpt('<opt>', default=...) in config.py."""
    tree = prog.module('mistral.config')
    for n in ast.walk(tree):
        if isinstance(n, ast.Call) and n.args and \
                isinstance(n.args[0], ast.Constant) and \
                n.args[0].value == opt and \
                (dotted(n.func) or '').startswith('cfg.'):
            for k in n.keywords:
                if k.arg == 'default':
                    return prog.eval_const('mistral.config', k.value)
            return None
    raise NotConst('option %s.%s not found' % (group, opt))


def version_paths(ctx, rule):
    """Version keys are full dotted paths: both the writer and the reader
    recurse into nested dictionaries passing the prefix extended by the
    current key, and look versions up under that extended key."""
    prog = ctx.prog
    for q in (CV + '._get_published_keys_recursively', CV + '._merge_ctx'):
        f = prog.func(q)
        if 'prefix' not in f.params:
            raise AnalysisError('%s lost its prefix parameter' % q)
        pidx = f.params.index('prefix')
        loops = [x for x in own_nodes(f.node) if isinstance(x, ast.For)]
        if not loops:
            raise AnalysisError('%s lost its key loop' % q)
        kv = {y.id for y in ast.walk(loops[0].target)
              if isinstance(y, ast.Name)}

        def names(e):
            return {y.id for y in ast.walk(e) if isinstance(y, ast.Name)}

        def full_path(e, depth=0):
            """e depends on the loop key and on `prefix` (through local
            definitions)."""
            nm = names(e)
            if 'prefix' in nm and nm & kv:
                return True
            if depth > 3:
                return False
            for v in nm:
                defs = [x for x in own_nodes(f.node)
                        if isinstance(x, ast.Assign) and
                        any(dotted(t) == v for t in x.targets)]
                if defs and all(full_path(d.value, depth + 1) or
                                v in names(d.value) for d in defs) and \
                        any(full_path(d.value, depth + 1) for d in defs):
                    return True
            return False
        rec = [x for x in own_nodes(f.node) if isinstance(x, ast.Call) and
               U.call_name(x) == f.name]
        if not rec:
            raise AnalysisError('%s no longer recurses' % q)
        for c in rec:
            a = U.kwarg(c, 'prefix')
            if a is None and len(c.args) > pidx:
                a = c.args[pidx]
            rule.check(a is not None and full_path(a),
                       ctx.construct(f, extra='recursion extends the prefix'),
                       'the recursion into a nested dictionary does not pass '
                       'the prefix extended by the current key: nested '
                       'leaves get version keys without their parent path',
                       ctx.loc(f, c))
        for c in [x for x in own_nodes(f.node) if isinstance(x, ast.Call) and
                  U.call_name(x) in ('_get_version', 'append')]:
            if U.call_name(c) == 'append' and \
                    dotted(c.func.value) != f.params[0]:
                continue
            a = c.args[0] if c.args else None
            rule.check(a is not None and full_path(a),
                       ctx.construct(f, c),
                       'a version key is not the full path (prefix + key)',
                       ctx.loc(f, c))


def every_published_key_versioned(ctx, rule):
    """The writer of the version bookkeeping: every key of what a task
    published - at every nesting level, whatever its value (None, '', 0
    included) - is recorded exactly when it is a leaf and recursed into
    exactly when it is a mapping.  A key that is skipped keeps its old
    version: the merge then prefers another branch's stale value."""
    prog = ctx.prog
    f = prog.func(CV + '._get_published_keys_recursively')
    cfg = ctx.cfg(f)
    acc, pub = f.params[0], f.params[1]
    loops = [x for x in own_nodes(f.node) if isinstance(x, ast.For) and
             dotted(x.iter) == pub and isinstance(x.target, ast.Name)]
    if len(loops) != 1:
        raise AnalysisError('published keys: the key loop is lost')
    key = loops[0].target.id
    D = 'isinstance(%s[%s], dict)' % (pub, key)
    apps = [(n, c) for n, c in cfg.calls(
        lambda c: U.call_name(c) == 'append' and
        dotted(c.func.value) == acc)]
    recs = [(n, c) for n, c in cfg.calls(
        lambda c: U.call_name(c) == f.name)]
    ok = len(apps) == 1 and len(recs) == 1
    if ok:
        ok = U.guarded(cfg, apps[0][0], D, False) and \
            U.only_guards(cfg, apps[0][0], [(D, False)]) and \
            U.guarded(cfg, recs[0][0], D, True) and \
            U.only_guards(cfg, recs[0][0], [(D, True)]) and \
            norm(recs[0][1].args[1]) == '%s[%s]' % (pub, key) and \
            not [x for x in ast.walk(loops[0])
                 if isinstance(x, (ast.Continue, ast.Break, ast.Return))]
    rule.check(ok, ctx.construct(f, extra='every key: leaf recorded, mapping '
                                 'descended'),
               'not every published key gets a version: the leaf is '
               'recorded / the mapping is descended under a condition other '
               'than "the value is (not) a dict", or the loop is left early',
               ctx.loc(f))


def merge_shape(ctx, rule):
    """Structure of the version merge and of the version bookkeeping: which
    branch handles which kind of value."""
    prog = ctx.prog
    mc = prog.func(CV + '._merge_ctx')
    cfg = ctx.cfg(mc)
    BOTH = ['isinstance(left_v, dict)', 'isinstance(v, dict)']
    rec = [n for n, c in cfg.calls(lambda c: U.call_name(c) == '_merge_ctx')]
    ver = [n for n, c in cfg.calls(lambda c: U.call_name(c) == '_get_version')]
    rule.check(bool(rec) and all(
        all(U.guarded(cfg, n, p_, True) for p_ in BOTH) and
        U.guarded(cfg, n, 'k in ctx_left', True) for n in rec),
        ctx.construct(mc, extra='recursion for nested dictionaries'),
        'the merge does not recurse exactly when both sides hold a '
        'dictionary under an existing key', ctx.loc(mc))
    rule.check(len(ver) == 2 and all(
        U.guarded(cfg, n, 'isinstance(left_v, dict) and isinstance(v, dict)',
                  False) and U.guarded(cfg, n, 'k in ctx_left', True)
        for n in ver), ctx.construct(mc, extra='versions decide leaves'),
        'leaf values under an existing key are not decided by their '
        'versions', ctx.loc(mc))
    for x in cfg.nodes:
        if x.kind == 'stmt' and isinstance(x.ast, ast.Return) and \
                x.ast.value is not None:
            v = dotted(x.ast.value)
            if v == 'ctx_right':
                rule.check(U.guarded(cfg, x, 'ctx_left is None', True),
                           ctx.construct(mc, x.ast),
                           'the right context is returned although a left '
                           'one exists', ctx.loc(mc, x.ast))
    mv = prog.func(CV + '._merge_versions')
    vcfg = ctx.cfg(mv)
    ins = [st for st in own_nodes(mv.node) if isinstance(st, ast.Assign) and
           norm(st.targets[0]) == 'ver_left[key]' and
           norm(st.value) == 'ver_right[key]']
    rule.check(all(U.guarded(vcfg, vcfg.stmt_node(st), 'key in ver_left',
                             False) for st in ins),
               ctx.construct(mv, extra='missing versions copied'),
               'a version is copied from the right although the left has '
               'one', ctx.loc(mv))
    pk = prog.func(CV + '._get_published_keys_recursively')
    kcfg = ctx.cfg(pk)
    apps = [n for n, c in kcfg.calls(
        lambda c: U.call_name(c) == 'append' and
        dotted(c.func.value) == pk.params[0])]
    recs = [n for n, c in kcfg.calls(lambda c: U.call_name(c) == pk.name)]
    rule.check(bool(apps) and bool(recs) and all(
        U.guarded(kcfg, n, 'isinstance(published[key], dict)', False)
        for n in apps) and all(
        U.guarded(kcfg, n, 'isinstance(published[key], dict)', True)
        for n in recs), ctx.construct(pk, extra='leaves get versions'),
        'version keys are not recorded exactly for the non-dictionary '
        'leaves of what was published', ctx.loc(pk))
    # which merge: versioned iff enabled; deep merge iff strategy == merge
    eu = prog.func('mistral.workflow.data_flow.evaluate_upstream_context')
    ecfg = ctx.cfg(eu)
    EN = 'cfg.CONF.context_versioning.enabled'
    vm = [n for n, c in ecfg.calls(
        lambda c: U.call_name(c) == 'merge_context_by_version')]
    pm = [n for n, c in ecfg.calls(
        lambda c: U.call_name(c) == 'merge_dicts')]
    rule.check(bool(vm) and all(U.guarded(ecfg, n, EN, True) for n in vm) and
               bool(pm) and all(U.guarded(ecfg, n, EN, False) for n in pm),
               ctx.construct(eu, extra='versioned merge iff enabled'),
               'the version merge is not used exactly when context '
               'versioning is enabled', ctx.loc(eu))
    for x in ecfg.nodes:
        if x.kind == 'stmt' and isinstance(x.ast, ast.Return) and \
                isinstance(x.ast.value, ast.Dict) and not x.ast.value.keys:
            rule.check(U.guarded(ecfg, x, eu.params[0], False) or
                       U.guarded(ecfg, x, 'len(%s) == 0' % eu.params[0],
                                 True),
                       ctx.construct(eu, extra='empty only without '
                                     'upstream tasks'),
                       'an empty context is returned although there are '
                       'upstream tasks', ctx.loc(eu, x.ast))
    eo = prog.func('mistral.workflow.data_flow.'
                   'evaluate_task_outbound_context')
    ocfg = ctx.cfg(eo)
    ST = "CONF.engine.merge_strategy == 'merge'"
    md = [n for n, c in ocfg.calls(
        lambda c: U.call_name(c) == 'merge_dicts')]
    ud = [n for n, c in ocfg.calls(
        lambda c: U.call_name(c) == 'update_dict')]
    rule.check(bool(md) and bool(ud) and
               all(U.guarded(ocfg, n, ST, True) for n in md) and
               all(U.guarded(ocfg, n, ST, False) for n in ud),
               ctx.construct(eo, extra='deep merge iff strategy is merge'),
               'published data is not deep-merged exactly under the "merge" '
               'strategy (and replaced otherwise)', ctx.loc(eo))
    # first dictionary that has the key wins
    gi = prog.func('mistral.workflow.data_flow.ContextView.__getitem__')
    gcfg = ctx.cfg(gi)
    okg = False
    for x in gcfg.nodes:
        if x.kind == 'stmt' and isinstance(x.ast, ast.Return) and \
                x.ast.value is not None:
            for b in U.guard_match(gcfg, x, 'key in __d', True):
                okg = norm(x.ast.value) == '%s[key]' % norm(b['__d'])
    loops = [y for y in own_nodes(gi.node) if isinstance(y, ast.For) and
             norm(y.iter) == 'self.dicts']
    rule.check(okg and bool(loops), ctx.construct(gi),
               'ContextView lookup does not return the value of the first '
               'dictionary that has the key', ctx.loc(gi))
