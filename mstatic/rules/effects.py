"""Required effects happen under exactly their enabling conditions.

The guard rules of the properties say where an effect must NOT happen.  The
seeded changes of round two showed that the realistic breakage is the
opposite: a condition is added or narrowed so that an effect the property
needs (a wake-up, a hand-off, a continuation, a recursion, a re-arm) is
skipped in some situations.  A narrowing through a tracked state is decided
semantically by the state-domain evaluator (the "coverage" rules); a
narrowing through ANY OTHER condition (a flag, an argument, a config value,
the result of a query) is invisible to it.

This table lists the effects the properties depend on and, for each, the
non-state facts that dominate it on the pinned tree - its enabling
condition.  The rule requires that no other non-state fact dominates the
effect.  Facts are the normalised guard atoms of rules/util.py (negation,
conjunction, comparison direction are canonical) with single-definition
locals replaced by their defining expression, so they are phrased over
parameters, attributes and calls and do not depend on the names of locals
or on the spelling of the `if`.  State tests are ignored here (they belong
to the state-domain rules).  An effect that disappears is an analysis error
(the anchor moved); a new legitimate condition has to be added to the table
with the property it was checked against - that is the intended review
point, the same as for the frozen who-may-write tables.

Each line: (properties, function, effect, [(fact, truth)...]); an effect is
the name of a call, or `=attr` for an attribute store.
"""
import ast
import re

from mstatic.core import AnalysisError, norm
from mstatic.rules import util as U

TABLE = [
    (('C08',), 'mistral.engine.policies._fail_task_if_incomplete', 'complete_task',
     []),
    (('C04', 'C01', 'C12', 'C11'), 'mistral.engine.task_handler._check_affected_tasks', 'find_indirectly_affected_task_executions',
     [('states.is_completed(task.task_ex.workflow_execution.state)', False), ('task.is_completed()', True),
      # the same test spelled through the predicate (Task.is_completed is
      # states.is_completed(self.task_ex.state))
      ('states.is_completed(task.task_ex.state)', True)]),
    (('C04', 'C01', 'C12'), 'mistral.engine.task_handler._check_affected_tasks', 'register_operation',
     []),
    (('C04', 'C01', 'C12'), 'mistral.engine.task_handler._check_affected_tasks.<locals>._schedule_if_needed', '_schedule_refresh_task_state',
     [('jobs_exist', False)]),
    (('C04', 'C01'), 'mistral.engine.task_handler._refresh_task_state', 'continue_task',
     [('task_ex', True)]),
    (('C04', 'C01'), 'mistral.engine.task_handler._refresh_task_state', 'complete_task',
     [('task_ex', True)]),
    (('C01', 'C06'), 'mistral.engine.task_handler._on_action_complete', 'on_action_complete',
     [('action_ex.task_execution', True)]),
    (('C01', 'C06'), 'mistral.engine.task_handler._on_action_complete', '_check_affected_tasks',
     [('action_ex.task_execution', True)]),
    (('C10',), 'mistral.engine.task_handler._on_action_update', 'on_action_update',
     [('task_ex', True)]),
    (('C01', 'C04'), 'mistral.engine.task_handler.run_task', 'run',
     []),
    (('C01', 'C04'), 'mistral.engine.task_handler.run_task', '_schedule_refresh_task_state',
     [('task.waiting', True), ('task.rerun', True)]),
    (('C04', 'C01'), 'mistral.engine.task_handler.create_task', '_schedule_refresh_task_state',
     [('_build_task_from_command(wf_cmd).waiting', True), ('_build_task_from_command(wf_cmd).rerun', True)]),
    (('C01', 'C08', 'C11'), 'mistral.engine.task_handler.complete_task', 'complete',
     [('task_ex', True)]),
    (('C08', 'C01'), 'mistral.engine.task_handler.continue_task', 'run',
     [('task_ex', True)]),
    (('C08', 'C01'), 'mistral.engine.task_handler.continue_task', 'set_state',
     [('task_ex', True)]),
    (('C11',), 'mistral.engine.workflow_handler.stop_workflow', 'stop_workflow',
     []),
    (('C11',), 'mistral.engine.workflow_handler.stop_workflow', 'stop',
     []),
    (('C10',), 'mistral.engine.workflow_handler.pause_workflow', 'pause_workflow',
     []),
    (('C10',), 'mistral.engine.workflow_handler.pause_workflow', 'pause',
     []),
    (('C10',), 'mistral.engine.workflow_handler.resume_workflow', 'resume_workflow',
     []),
    (('C10',), 'mistral.engine.workflow_handler.resume_workflow', 'resume',
     []),
    (('C12',), 'mistral.engine.workflow_handler.rerun_workflow', 'rerun',
     []),
    (('C01',), 'mistral.engine.workflow_handler.check_and_complete', 'check_and_complete',
     [('db_api.load_workflow_execution(wf_ex_id)', True)]),
    (('C20',), 'mistral.engine.workflow_handler._check_and_fix_integrity', '_schedule_check_and_fix_integrity',
     [('db_api.load_workflow_execution(wf_ex_id)', True), ('0 <= CONF.engine.execution_integrity_check_delay', True)]),
    (('C20',), 'mistral.engine.workflow_handler._check_and_fix_integrity', 'schedule_on_action_complete',
     [('CONF.engine.execution_integrity_check_delay < interval', True), ('t_ex.executions', True), ('CONF.engine.execution_integrity_check_delay <= timeutils.delta_seconds(t_ex.updated_at or t_ex.created_at, timeutils.utcnow())', True), ('db_api.load_workflow_execution(wf_ex_id)', True), ('0 <= CONF.engine.execution_integrity_check_delay', True)]),
    (('C01', 'C03', 'C10'), 'mistral.engine.tasks.Task.complete', 'dispatch_workflow_commands',
     [('self.set_state(state, state_info)', True)]),
    (('C01', 'C03', 'C10'), 'mistral.engine.tasks.Task.complete', 'register_workflow_completion_check',
     [('self.set_state(state, state_info)', True)]),
    (('C01', 'C03', 'C10'), 'mistral.engine.tasks.Task.complete', 'publish_variables',
     [('self.set_state(state, state_info)', True)]),
    (('C01', 'C03', 'C10'), 'mistral.engine.tasks.Task.complete', '_after_task_complete',
     [('self.set_state(state, state_info)', True)]),
    (('C01', 'C03', 'C10'), 'mistral.engine.tasks.Task.complete', 'continue_workflow',
     [('self.set_state(state, state_info)', True)]),
    (('C10',), 'mistral.engine.tasks.Task.update', 'set_state',
     []),
    (('C10',), 'mistral.engine.tasks.Task.update', 'register_workflow_completion_check',
     []),
    (('C01',), 'mistral.engine.tasks.Task.register_workflow_completion_check', 'register_operation',
     [('wf_base.get_controller(self.wf_ex, self.wf_spec).may_complete_workflow(self.task_ex)', True)]),
    (('C06', 'C08', 'C04'), 'mistral.engine.tasks.RegularTask._run_new', '_schedule_actions',
     [('self.waiting', False)]),
    (('C06', 'C08', 'C04'), 'mistral.engine.tasks.RegularTask._run_new', '_before_task_start',
     [('self.waiting', False)]),
    (('C12', 'C08', 'C04'), 'mistral.engine.tasks.RegularTask._run_existing', '_schedule_actions',
     [('self.waiting', False)]),
    (('C12', 'C08', 'C04'), 'mistral.engine.tasks.RegularTask._run_existing', '_reset_actions',
     [('self.waiting', False)]),
    (('C01',), 'mistral.engine.tasks.RegularTask.on_action_complete', 'complete',
     []),
    (('C07',), 'mistral.engine.tasks.WithItemsTask.on_action_complete', 'complete',
     [('self.is_with_items_completed()', True)]),
    (('C07',), 'mistral.engine.tasks.WithItemsTask.on_action_complete', '_schedule_actions',
     [('self._has_more_iterations()', True), ('self._get_concurrency()', True), ('self.is_with_items_completed()', False)]),
    (('C07',), 'mistral.engine.tasks.WithItemsTask.on_action_complete', '_increase_capacity',
     []),
    (('C07',), 'mistral.engine.tasks.WithItemsTask._schedule_actions', 'schedule',
     [('self._get_input_dicts(self._get_with_items_values())', True)]),
    (('C07',), 'mistral.engine.tasks.WithItemsTask._schedule_actions', '_decrease_capacity',
     [('self._get_input_dicts(self._get_with_items_values())', True)]),
    (('C01',), 'mistral.engine.tasks.RegularTask._schedule_actions', 'schedule',
     []),
    (('C09',), 'mistral.engine.workflows.Workflow._succeed_workflow', '_send_result_to_parent_workflow',
     [('self.wf_ex.task_execution_id', True)]),
    (('C09',), 'mistral.engine.workflows.Workflow._fail_workflow', '_send_result_to_parent_workflow',
     [('self.wf_ex.task_execution_id', True)]),
    (('C09',), 'mistral.engine.workflows.Workflow._cancel_workflow', '_send_result_to_parent_workflow',
     [('self.wf_ex.task_execution_id', True)]),
    (('C09',), 'mistral.engine.workflows.Workflow._send_result_to_parent_workflow', 'register_operation',
     []),
    (('C01', 'C11'), 'mistral.engine.workflows.Workflow.check_and_complete', '_succeed_workflow',
     [('wf_base.get_controller(self.wf_ex, self.wf_spec).all_errors_handled()', True), ('wf_base.get_controller(self.wf_ex, self.wf_spec).any_cancels()', False), ('db_api.get_incomplete_task_executions_count(workflow_execution_id=self.wf_ex.id) <= 0', True)]),
    (('C01', 'C11'), 'mistral.engine.workflows.Workflow.check_and_complete', '_fail_workflow',
     [('wf_base.get_controller(self.wf_ex, self.wf_spec).all_errors_handled()', False), ('wf_base.get_controller(self.wf_ex, self.wf_spec).any_cancels()', False), ('db_api.get_incomplete_task_executions_count(workflow_execution_id=self.wf_ex.id) <= 0', True)]),
    (('C01', 'C11'), 'mistral.engine.workflows.Workflow.check_and_complete', '_cancel_workflow',
     [('wf_base.get_controller(self.wf_ex, self.wf_spec).any_cancels()', True), ('db_api.get_incomplete_task_executions_count(workflow_execution_id=self.wf_ex.id) <= 0', True)]),
    (('C11',), 'mistral.engine.workflows.Workflow.stop', '_cancel_workflow',
     []),
    (('C11',), 'mistral.engine.workflows.Workflow.stop', '_fail_workflow',
     []),
    (('C11',), 'mistral.engine.workflows.Workflow.stop', '_succeed_workflow',
     []),
    (('C10',), 'mistral.engine.workflows.Workflow.pause', 'set_state',
     []),
    (('C10',), 'mistral.engine.workflows.Workflow.pause', 'schedule_on_action_update',
     [('self.wf_ex.task_execution_id', True)]),
    (('C10',), 'mistral.engine.workflows.Workflow.resume', 'set_state',
     []),
    (('C10',), 'mistral.engine.workflows.Workflow.resume', '_continue_workflow',
     []),
    (('C10',), 'mistral.engine.workflows.Workflow.resume', 'schedule_on_action_update',
     [('self.wf_ex.task_execution_id', True)]),
    (('C12',), 'mistral.engine.workflows.Workflow.rerun', '_continue_workflow',
     []),
    (('C10',), 'mistral.engine.workflows.Workflow._continue_workflow', 'dispatch_workflow_commands',
     [('list([c for c in cmds if not isinstance(c, commands.PauseWorkflow)]) or self._get_backlog()', True)]),
    (('C12',), 'mistral.engine.workflows.Workflow._recursive_rerun', 'mark_task_running',
     [('self.wf_ex.task_execution_id', True)]),
    (('C01', 'C10'), 'mistral.engine.dispatcher._process_commands', 'create_task',
     [('isinstance(cmd, (commands.RunTask, commands.RunExistingTask))', True), ('cmds', True)]),
    (('C01', 'C10'), 'mistral.engine.dispatcher._process_commands', 'register_operation',
     [('isinstance(cmd, (commands.RunTask, commands.RunExistingTask))', True), ('cmds', True)]),
    (('C01', 'C10'), 'mistral.engine.dispatcher._process_commands', '_save_command_to_backlog',
     [('cmds', True)]),
    (('C01', 'C10'), 'mistral.engine.dispatcher.dispatch_workflow_commands', '_process_commands',
     []),
    (('C06', 'C01'), 'mistral.engine.action_handler.on_action_complete', 'complete',
     []),
    (('C06', 'C01'), 'mistral.engine.action_handler.on_action_complete', 'schedule_on_action_complete',
     [('action_ex.task_execution', True)]),
    (('C10',), 'mistral.engine.action_handler.on_action_update', 'update',
     []),
    (('C10',), 'mistral.engine.action_handler.on_action_update', 'schedule_on_action_update',
     [('action_ex.task_execution', True)]),
    (('C06',), 'mistral.engine.default_engine.DefaultEngine.on_action_complete', 'on_action_complete',
     []),
    (('C01',), 'mistral.engine.default_engine.DefaultEngine.start_workflow', 'check_and_complete',
     []),
    (('C13',), 'mistral.scheduler.default_scheduler.DefaultScheduler._process_memory_job', '_invoke_job',
     [('self._capture_scheduled_job(scheduled_job)', True)]),
    (('C13',), 'mistral.scheduler.default_scheduler.DefaultScheduler._process_memory_job', '_delete_scheduled_job',
     [('self._capture_scheduled_job(scheduled_job)', True)]),
    (('C13',), 'mistral.scheduler.default_scheduler.DefaultScheduler._process_store_jobs', '_invoke_job',
     []),
    (('C13',), 'mistral.scheduler.default_scheduler.DefaultScheduler.schedule', '_schedule_in_memory',
     []),
    (('C17',), 'mistral.services.periodic.process_cron_triggers_v2', 'start_workflow',
     [('advance_cron_trigger(trigger)', True)]),
    (('C17',), 'mistral.services.periodic.advance_cron_trigger', 'update_cron_trigger',
     [('t.remaining_executions == 0', False)]),
    (('C17',), 'mistral.services.periodic.advance_cron_trigger', 'delete_cron_trigger',
     [('t.remaining_executions == 0', True)]),
    (('C20',), 'mistral.services.action_heartbeat_checker.handle_expired_actions', 'on_action_complete',
     [('action_exs', True)]),
    (('C18',), 'mistral.services.expiration_policy._delete_executions', '_delete_until_depleted',
     [('expiration_time is None', False)]),
    (('C18',), 'mistral.services.expiration_policy._delete', 'delete_workflow_execution',
     []),
    (('C05',), 'mistral.workflow.data_flow.publish_variables', 'evaluate_recursively',
     []),
    (('C01',), 'mistral.workflow.base.WorkflowController.continue_workflow', '_find_next_commands',
     [('self._is_completed()', False)]),
    (('C01',), 'mistral.workflow.direct_workflow.DirectWorkflowController._find_next_commands_for_task', 'create_command',
     [('t_s or t_n in commands.ENGINE_CMD_CLS', True)]),
    (('C06',), 'mistral.executors.default_executor.DefaultExecutor._do_run_action', 'on_action_complete',
     [('action_ex_id', True), ('action.is_sync() or result.is_error()', True), ('thread.is_alive()', False), ('redelivered and (not safe_rerun)', False)]),
    (('C09',), 'mistral.engine.actions.WorkflowAction.schedule', 'register_operation',
     [('cfg.CONF.engine.start_subworkflows_via_rpc', True)]),
    # ---- second batch: stores, policies, scheduler, services -------------
    (('C07', 'C06'), 'mistral.engine.task_handler._scheduled_on_action_complete', '_on_action_complete',
     [('action_ex', True)]),
    (('C07', 'C10'), 'mistral.engine.task_handler._scheduled_on_action_update', '_on_action_update',
     [('action_ex', True)]),
    (('C10', 'C01'), 'mistral.engine.tasks.Task.complete', '=next_tasks',
     [('self.set_state(state, state_info)', True)]),
    (('C10', 'C01'), 'mistral.engine.tasks.Task.complete', '=has_next_tasks',
     [('self.set_state(state, state_info)', True)]),
    (('C10', 'C01'), 'mistral.engine.tasks.Task.complete', '=error_handled',
     [('self.set_state(state, state_info)', True)]),
    (('C10', 'C01'), 'mistral.engine.tasks.Task.complete', '=processed',
     [('self.set_state(state, state_info)', True)]),
    (('C10',), 'mistral.engine.workflows.Workflow._continue_workflow', '=processed',
     [('t_ex.processed', False)]),
    (('C10',), 'mistral.engine.workflows.Workflow._continue_workflow', 'check_and_complete',
     [('cmds', False), ('self._get_backlog()', False)]),
    (('C09', 'C07'), 'mistral.engine.workflows.Workflow.set_state', '=accepted',
     [('wf_ex is None', False)]),
    (('C09',), 'mistral.engine.workflows.Workflow._send_result_to_parent_workflow', 'Result',
     []),
    (('C01',), 'mistral.workflow.direct_workflow.DirectWorkflowController._find_next_tasks', 'append',
     [('not cond or expr.evaluate(cond, ctx_view)', True), ('task_ex.state == states.SUCCESS or skip_is_empty', True)]),
    (('C12',), 'mistral.workflow.base.WorkflowController.rerun_tasks', 'RunExistingTask',
     [('self._is_paused_or_completed()', False)]),
    (('C12',), 'mistral.workflow.base.WorkflowController.skip_tasks', 'SkipTask',
     [('self._is_paused_or_completed()', False)]),
    (('C08',), 'mistral.engine.policies.RetryPolicy.after_task_complete', 'schedule',
     [("hasattr(task.task_spec, 'get_join') and task.task_spec.get_join()", False), ('retry_no < self.count', True), ('stop_continue_flag', False), ('self.count == 0', False), ('task.get_state() == states.ERROR and break_on_evaluation', False)]),
    (('C08',), 'mistral.engine.policies.RetryPolicy.after_task_complete', '_schedule_refresh_task_state',
     [("hasattr(task.task_spec, 'get_join')", True), ('task.task_spec.get_join()', True), ('retry_no < self.count', True), ('stop_continue_flag', False), ('self.count == 0', False), ('task.get_state() == states.ERROR and break_on_evaluation', False)]),
    (('C08',), 'mistral.engine.policies.RetryPolicy.after_task_complete', 'set_state',
     [("hasattr(task.task_spec, 'get_join')", True), ('task.task_spec.get_join()', True), ('retry_no < self.count', True), ('stop_continue_flag', False), ('self.count == 0', False), ("hasattr(task.task_spec, 'get_join') and task.task_spec.get_join()", False), ('task.get_state() == states.ERROR and break_on_evaluation', False)]),
    (('C08',), 'mistral.engine.policies.WaitBeforePolicy.before_task_start', 'schedule',
     [("task.get_policy_context('wait_before_policy').get('skip')", False), ('self.delay == 0', False)]),
    (('C08',), 'mistral.engine.policies.WaitAfterPolicy.after_task_complete', 'schedule',
     [("task.get_policy_context('wait_after_policy').get('skip')", False), ('self.delay == 0', False)]),
    (('C08',), 'mistral.engine.policies.TimeoutPolicy.before_task_start', 'schedule',
     [('self.delay == 0', False)]),
    (('C08',), 'mistral.engine.policies.PauseBeforePolicy.before_task_start', 'pause_workflow',
     [('self.expr', True)]),
    (('C08',), 'mistral.engine.policies.FailOnPolicy.after_task_complete', 'set_state',
     [('self.fail_on', True)]),
    (('C08',), 'mistral.engine.policies.construct_policies_list', 'append',
     [('policy', True)]),
    (('C13',), 'mistral.scheduler.default_scheduler.DefaultScheduler._dispatcher', 'submit',
     [('(self._heap[0][0] - utils.utc_now_sec()).total_seconds() <= 0', True), ('self._heap', True), ('self._stopped', False)]),
    (('C13',), 'mistral.scheduler.default_scheduler.DefaultScheduler._dispatcher', 'heappop',
     [('(self._heap[0][0] - utils.utc_now_sec()).total_seconds() <= 0', True), ('self._heap', True), ('self._stopped', False)]),
    (('C13',), 'mistral.scheduler.default_scheduler.DefaultScheduler._capture_scheduled_job', 'update_scheduled_job',
     []),
    (('C20',), 'mistral.services.action_heartbeat_checker.handle_expired_actions', 'get_task_execution',
     [('action_ex.task_execution_id', True), ('action_exs', True)]),
    (('C20',), 'mistral.services.action_heartbeat_checker.start', 'start',
     [('CONF.action_heartbeat.check_interval and CONF.action_heartbeat.max_missed_heartbeats', True)]),
    (('C20',), 'mistral.services.action_heartbeat_sender.start', 'start',
     [('CONF.action_heartbeat.check_interval and CONF.action_heartbeat.max_missed_heartbeats', True)]),
    (('C18',), 'mistral.services.expiration_policy.run_execution_expiration_policy', '_delete_executions',
     []),
    (('C06', 'C10'), 'mistral.engine.default_engine.DefaultEngine.on_action_update', 'on_action_update',
     []),
    (('C01', 'C06'), 'mistral.engine.task_handler.create_task', 'create_new',
     [('first_run', True)]),
    (('C12',), 'mistral.engine.task_handler._build_task_after_rpc', 'reset',
     [('reset', True)]),
    (('C12',), 'mistral.engine.tasks.RegularTask._reset_actions', '=accepted',
     []),
    (('C20',), 'mistral.engine.workflow_handler._schedule_check_and_fix_integrity', 'schedule',
     [('0 <= CONF.engine.execution_integrity_check_delay', True)]),
    (('C12',), 'mistral.engine.workflow_handler.rerun_workflow', '_schedule_check_and_fix_integrity',
     [('wf_ex.task_execution_id', True)]),
    (('C07',), 'mistral.engine.tasks.WithItemsTask._increase_capacity', 'update',
     [('self._get_concurrency()', True), ('ctx[self._CAPACITY] < self._get_concurrency()', True)]),
    (('C07',), 'mistral.engine.tasks.WithItemsTask._decrease_capacity', 'update',
     []),
    (('C04',), 'mistral.engine.tasks.Task.defer', '_create_task_execution',
     [('self.task_ex', False)]),
    (('C04',), 'mistral.engine.tasks.Task.defer', 'set_state',
     [('self.task_ex', True), ('self.task_ex', False)]),
    (('C04',), 'mistral.workflow.reverse_workflow.ReverseWorkflowController._is_satisfied_task', 'add',
     [('self.wf_spec.get_task_requires(task_spec)', True), ('self._get_task_executions(name=task_spec.get_name())', False)]),
    (('C05',), 'mistral.workflow.direct_workflow.DirectWorkflowController.evaluate_workflow_final_context', 'evaluate_upstream_context',
     [('cfg.CONF.context_versioning.enabled', True)]),
    # ---- third batch -------------------------------------------------------
    (('C01', 'C04', 'C12'), 'mistral.engine.task_handler._build_task_from_command', '_create_task',
     [('isinstance(cmd, wf_cmds.RunExistingTask)', True), ('isinstance(cmd, wf_cmds.RunTask)', True), ('isinstance(cmd, wf_cmds.RunExistingTask)', False), ('isinstance(cmd, wf_cmds.SkipTask)', True), ('isinstance(cmd, wf_cmds.RunTask)', False)]),
    (('C04',), 'mistral.workflow.direct_workflow.DirectWorkflowController._configure_if_join', '=unique_key',
     [('cmd.task_spec.get_join()', True), ('isinstance(cmd, (commands.RunTask, commands.RunExistingTask))', True)]),
    (('C04',), 'mistral.workflow.direct_workflow.DirectWorkflowController._configure_if_join', '=wait',
     [('cmd.task_spec.get_join()', True), ('isinstance(cmd, (commands.RunTask, commands.RunExistingTask))', True)]),
    (('C10', 'C04'), 'mistral.workflow.commands.restore_command_from_dict', '=wait',
     [('isinstance(cmd, RunTask)', True)]),
    (('C10', 'C04'), 'mistral.workflow.commands.restore_command_from_dict', '=unique_key',
     [('isinstance(cmd, RunTask)', True)]),
    (('C07',), 'mistral.engine.tasks.WithItemsTask._schedule_actions', '_prepare_runtime_context',
     [('self._is_new()', True)]),
    (('C07',), 'mistral.engine.tasks.WithItemsTask._schedule_actions', 'complete',
     [('self._get_input_dicts(self._get_with_items_values())', False), ('self._get_input_dicts(self._get_with_items_values())', True)]),
    (('C05',), 'mistral.workflow.data_flow.ContextView.__init__', '=dicts',
     [("CONF.engine.merge_strategy == 'merge'", False), ("CONF.engine.merge_strategy == 'merge'", True)]),
    (('C09',), 'mistral.engine.default_engine.DefaultEngine.on_action_complete', 'Result',
     [('result is None', True), ('wf_action', True)]),
    # ---- refusals: `!Exc` = every `raise Exc(...)` of the function.  A
    # refusal that gains a (non-state) condition is a check that is skipped;
    # the state conditions of refusals are decided by the STATE rules
    (('C19',), 'mistral.utils.egress.validate_url', '!UrlNotAllowedException',
     [("parse.urlsplit(url).scheme in ('http', 'https')", False), ('parse.urlsplit(url).hostname', False), ("parse.urlsplit(url).scheme in ('http', 'https')", True), ('CONF.action_std_http.allowed_hosts', True), ('parse.urlsplit(url).hostname in CONF.action_std_http.allowed_hosts', False), ('parse.urlsplit(url).hostname', True), ('address in network', True), ('CONF.action_std_http.allowed_hosts and parse.urlsplit(url).hostname not in CONF.action_std_http.allowed_hosts', False)]),
    (('C15',), 'mistral.db.v2.sqlalchemy.api._check_modify_access', '!NotAllowedException',
     [('context.ctx().is_admin', False), ('db_obj.project_id == security.get_project_id()', False), ('context.has_ctx()', True)]),
    (('C15',), 'mistral.db.v2.sqlalchemy.api.update_resource_member', '!DBEntityNotFoundError',
     [('member_id == security.get_project_id()', False), ('res_member', False), ('member_id == security.get_project_id()', True)]),
    (('C15',), 'mistral.db.v2.sqlalchemy.api.update_workflow_definition', '!NotAllowedException',
     [("c_t.project_id == get_workflow_definition(identifier, namespace=values.get('namespace')).project_id", False), ("get_workflow_definition(identifier, namespace=values.get('namespace')).scope == 'public'", True), ("values['scope'] == 'private'", True), ("e_t.project_id == get_workflow_definition(identifier, namespace=values.get('namespace')).project_id", False)]),
    (('C15',), 'mistral.db.v2.sqlalchemy.api.delete_workflow_definition', '!DBError',
     [('cron_triggers', True), ('event_triggers', True), ('cron_triggers', False)]),
    (('C15',), 'mistral.api.controllers.v2.member.MembersController.post', '!WorkflowException',
     [('member_info.member_id', False)]),
    (('C15',), 'mistral.api.controllers.v2.member.MembersController.put', '!WorkflowException',
     [('member_info.status', False)]),
    (('C16',), 'mistral.api.controllers.v2.execution.ExecutionsController.delete', '!NotAllowedException',
     [('states.is_completed(db_api.get_workflow_execution(id, fields=(db_models.WorkflowExecution.state,))[0])', False), ('force', False)]),
    (('C16',), 'mistral.api.controllers.v2.execution.ExecutionsController.put.<locals>._compute_delta', '!InputException',
     [('len(delta.values()) <= 0', True), ("delta.get('description')", True), ("delta.get('state')", True), ('0 < len(delta.values())', True), ("delta.get('env')", True), ("delta['state'] == states.RUNNING", False), ("delta.get('description') and delta.get('state')", False)]),
    (('C16',), 'mistral.api.controllers.v2.execution.ExecutionsController.put', '!InputException',
     [("states.is_completed(delta.get('state'))", False), ("delta.get('state') == states.RUNNING", False), ("states.is_paused(delta.get('state'))", False), ("delta.get('state')", True)]),
    (('C16',), 'mistral.api.controllers.v2.task.TasksController.put', '!WorkflowException',
     [('task.workflow_name or None', True), ('(task.workflow_name or None) == wf_ex.name', False), ('task.state == states.RUNNING', False), ('task.state == states.SKIPPED', False), ('(task.workflow_name or None) and (task.workflow_name or None) != wf_ex.name', False), ('task_ex.state == states.ERROR', False), ('task.state != states.RUNNING and task.state != states.SKIPPED', False), ('task.reset is Unset', True), ('task.state == states.RUNNING', True), ('task_ex.state == states.ERROR', True), ('task_spec.get_with_items()', False), ('reset', False), ('task.reset is Unset', False)]),
    (('C16',), 'mistral.api.controllers.v2.action_execution.ActionExecutionsController.put', '!InvalidResultException',
     [('action_ex.state in SUPPORTED_TRANSITION_STATES', False)]),
    (('C16',), 'mistral.api.controllers.v2.action_execution.ActionExecutionsController.delete', '!NotAllowedException',
     [('cfg.CONF.api.allow_action_execution_deletion', False), ('db_api.get_action_execution(id).task_execution_id', True), ('cfg.CONF.api.allow_action_execution_deletion', True), ('states.is_completed(db_api.get_action_execution(id).state)', False), ('db_api.get_action_execution(id).task_execution_id', False)]),
    (('C14',), 'mistral.lang.base.instantiate_spec', '!InvalidModelException',
     [('isinstance(data, dict)', False), ("hasattr(spec_cls, '_polymorphic_key')", True), ('issubclass(spec_cls, BaseSpecList)', False)]),
    (('C14',), 'mistral.lang.base.instantiate_spec', '!DSLParsingException',
     [('isinstance(data.get(key_name, key_default), (dict, list))', True), ('isinstance(data, dict)', True), ("hasattr(spec_cls, '_polymorphic_key')", True), ('issubclass(spec_cls, BaseSpecList)', False), ("hasattr(cls, '_polymorphic_value')", False), ('concrete_spec_cls is None', True), ('isinstance(data.get(key_name, key_default), (dict, list))', False)]),
]

# effects in front of which no state test is legitimate either: the late
# completion of a task (by the wait-after / retry / timeout job, by a
# refreshed join) is needed in a workflow of ANY state - a stopped workflow
# still has to see its delayed tasks reach their final state
STRICT = {
    ('mistral.engine.task_handler.complete_task', 'complete'),
    # which completed tasks wake the joins behind them: every completed
    # state (a CANCELLED or ERROR inbound task decides a join as well)
    ('mistral.engine.task_handler._check_affected_tasks',
     'find_indirectly_affected_task_executions'),
}

# atoms that are state tests: decided by the state-domain rules
STATEISH = re.compile(r'\.state\b|\bstates\.|\bget_state\(\)|'
                      r'\.is_completed\(\)|^state\b|\bstate ==|'
                      r'\bstate !=')


def _paths(txt):
    """Access paths (names / attribute chains / called names) of a fact."""
    try:
        tree = ast.parse(txt, mode='eval')
    except SyntaxError:
        return {txt}
    out = set()
    for x in ast.walk(tree):
        if isinstance(x, ast.Attribute):
            d = U.dotted(x)
            if d:
                out.add(d)
        elif isinstance(x, ast.Name):
            out.add(x.id)
    # keep only maximal paths (a.b.c subsumes a.b and a)
    return {p_ for p_ in out
            if not any(q != p_ and q.startswith(p_ + '.') for q in out)}


def _bound(txt):
    """(operator, side of the constant, constant, other operand) of an
    order comparison with a numeric constant."""
    try:
        e = ast.parse(txt, mode='eval').body
    except SyntaxError:
        return None
    if not (isinstance(e, ast.Compare) and len(e.ops) == 1 and
            isinstance(e.ops[0], (ast.Lt, ast.LtE))):
        return None
    a, b = e.left, e.comparators[0]
    for side, c, o in (('l', a, b), ('r', b, a)):
        if isinstance(c, ast.Constant) and isinstance(c.value, (int, float)) \
                and not isinstance(c.value, bool):
            return (type(e.ops[0]).__name__, side, c.value, norm(o, 200))
    return None


def enabling_facts(cfg, f, node, all_=False):
    out = []
    for a, t in U.guard_atoms(cfg, node):
        ca = U.canon_expr(f.node, a)
        txt = norm(ca, 200)
        if STATEISH.search(txt) and not all_:
            # a compound fact (the negation of `A and B`, `A or B` holding)
            # is a state test only when every operand is one: `published and
            # state != SKIPPED` is also a condition on `published`
            parts = ca.values if isinstance(ca, ast.BoolOp) else [ca]
            if all(STATEISH.search(norm(p_, 200)) for p_ in parts):
                continue
        out.append((txt, t))
    return out


def required_effects(ctx, rule, prop):
    prog = ctx.prog
    n = 0
    for entry in TABLE:
        props, fq, eff, allowed = entry[:4]
        # STRICT entries: tests of a state count as facts too - the effect
        # is needed whatever the state of the objects around it is (listed
        # where the pinned tree has no state test in front of the effect)
        strict = (fq, eff) in STRICT
        if prop not in props:
            continue
        f = prog.funcs.get(fq)
        if f is None:
            raise AnalysisError('required-effects: %s not found' % fq)
        cfg = ctx.cfg(f)
        deny = eff.startswith('!')
        if deny:
            sites = []
            for x in cfg.nodes:
                if x.kind == 'stmt' and isinstance(x.ast, ast.Raise) and \
                        x.ast.exc is not None:
                    e = x.ast.exc
                    d = U.dotted(e.func if isinstance(e, ast.Call) else e)
                    if d and d.split('.')[-1] == eff[1:]:
                        sites.append((x, x.ast))
        elif eff.startswith('='):
            # an attribute store `<obj>.<attr> = ...`
            sites = []
            for t, st in U.attr_stores(f.node):
                if t.attr == eff[1:] and cfg.stmt_node(st) is not None:
                    sites.append((cfg.stmt_node(st), st))
        else:
            sites = cfg.calls(lambda c, e=eff: U.call_name(c) == e)
        if not sites:
            raise AnalysisError('required-effects: %s no longer calls %s'
                                % (fq, eff))
        for node, c in sites:
            n += 1
            known = set()
            for txt, _t in allowed:
                known |= _paths(txt)
            # a fact over the same variables as a known enabling fact is
            # the same test spelled differently (`x` / `x is True or x`);
            # what is reported is a condition on something NEW
            # ... except the plain negation of a known fact, which is the
            # opposite condition, not a respelling of it
            facts_here = enabling_facts(cfg, f, node, all_=strict)
            negated = [x for x in facts_here
                       if x not in allowed and (x[0], not x[1]) in allowed
                       and not any(y[0] == x[0] and y[1] == x[1]
                                   for y in allowed)]
            # a known fact may legitimately appear with both truth values at
            # different sites (then both are listed): only report when the
            # site shows the negation and NOT the listed polarity
            negated = [x for x in negated
                       if (x[0], not x[1]) not in facts_here]
            extra = [x for x in facts_here
                     if x not in allowed and
                     not (_paths(x[0]) and _paths(x[0]) <= known)] + negated
            # a bound moved by one (`0 <= x` listed, `0 < x` found) is not a
            # respelling: the boundary value changes sides
            for x in facts_here:
                if x in allowed or x in extra:
                    continue
                bx = _bound(x[0])
                if bx is None:
                    continue
                for y in allowed:
                    by = _bound(y[0])
                    if by is not None and by[1:] == bx[1:] and \
                            x[1] == y[1] and by[0] != bx[0]:
                        extra.append(x)
                        break
            rule.check(not extra, ctx.construct(f, extra=eff + ' enabled'),
                       '%s is additionally conditioned on %s: the effect / '
                       'refusal is skipped in situations where the property '
                       'needs it (known enabling facts: %s)'
                       % (eff, extra, allowed or 'none'), ctx.loc(f, c))
    return n
