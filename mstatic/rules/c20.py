"""C20 - lost executors and stuck tasks are detected and the run moves on
exactly once."""
import ast

from mstatic import qshape
from mstatic.core import AnalysisError, dotted, norm, own_nodes
from mstatic.rules import util as U
from mstatic.rules import c03
from mstatic.statedom import OBJ

DB = 'mistral.db.v2.sqlalchemy.api'
HC = 'mistral.services.action_heartbeat_checker'
WH = 'mistral.engine.workflow_handler'
MODELS = 'mistral.db.v2.sqlalchemy.models'


def nullable_columns(prog, model):
    """Names of columns of <model> declared nullable=True (class body or
    module-level `Model.col = sa.Column(...)`)."""
    out = set()
    tree = prog.module(MODELS)

    def col_nullable(v):
        if isinstance(v, ast.Call) and U.call_name(v) == 'deferred' and \
                v.args:
            v = v.args[0]
        if isinstance(v, ast.Call) and U.call_name(v) == 'Column':
            k = U.kwarg(v, 'nullable')
            return k is not None and norm(k) == 'True'
        return False
    for n in tree.body:
        if isinstance(n, ast.Assign) and len(n.targets) == 1:
            d = dotted(n.targets[0]) or ''
            if d.startswith(model + '.') and col_nullable(n.value):
                out.add(d.split('.', 1)[1])
        if isinstance(n, ast.ClassDef) and n.name == model:
            for s in n.body:
                if isinstance(s, ast.Assign) and col_nullable(s.value):
                    out.add(dotted(s.targets[0]))
    return out


def run(ctx):
    prog, sd = ctx.prog, ctx.sd
    S = sd.consts
    completed = sd.pred_set('is_completed')

    # ---- R1 expiry query -------------------------------------------------
    r1 = ctx.rule('R1', 'only RUNNING synchronous actions with an old '
                  'heartbeat are selected; heartbeats refresh it', 'QSHAPE')
    q = prog.func(DB + '.get_running_expired_sync_action_executions')
    cfg = ctx.cfg(q)
    ops, base, rets = qshape.query_ops(cfg, q.node)
    alw = [o for o in ops if o.always]
    r1.check(any(o.name == 'filter' and o.call.args and
                 isinstance(o.call.args[0], ast.Compare) and
                 isinstance(o.call.args[0].ops[0], (ast.Lt, ast.LtE)) and
                 U.phas(U.inline_locals(q.node, o.call.args[0].left),
                        '___.ActionExecution.last_heartbeat') and
                 isinstance(U.inline_locals(q.node, o.call.args[0].left),
                            ast.Attribute) and
                 dotted(o.call.args[0].comparators[0]) == 'expiration_time'
                 for o in alw),
             ctx.construct(q, extra='last_heartbeat < threshold'),
             'no "last_heartbeat < expiration_time" filter on every path '
             '(actions with fresh heartbeats would be expired)', ctx.loc(q))
    r1.check(any((o.name == 'filter_by' and 'is_sync=True' in o.args_text())
                 or (o.name == 'filter' and 'is_sync' in o.args_text() and
                     'True' in o.args_text()) for o in alw),
             ctx.construct(q, extra='sync only'),
             'asynchronous actions are not excluded on every path',
             ctx.loc(q))
    r1.check(any(o.name == 'filter' and len(o.call.args) == 1 and U.phas(
        U.inline_locals(q.node, o.call.args[0]),
        '___.ActionExecution.state == states.RUNNING') and
        isinstance(o.call.args[0], ast.Compare) for o in alw),
             ctx.construct(q, extra='RUNNING only'),
             'finished actions are not excluded on every path', ctx.loc(q))
    he = prog.func(HC + '.handle_expired_actions')
    ed = [n for n in own_nodes(he.node) if isinstance(n, ast.Assign) and
          dotted(n.targets[0]) == 'exp_date']
    ok = len(ed) == 1 and isinstance(ed[0].value, ast.BinOp) and \
        isinstance(ed[0].value.op, ast.Sub) and \
        'utc_now_sec()' in norm(ed[0].value.left) and \
        norm(ed[0].value.right) in (
            'datetime.timedelta(seconds=max_missed * interval)',
            'datetime.timedelta(seconds=interval * max_missed)')
    r1.check(ok, ctx.construct(he, extra='threshold'),
             'the threshold is not now - max_missed * interval', ctx.loc(he))
    gq = [n for n in own_nodes(he.node) if isinstance(n, ast.Call) and
          U.call_name(n) == 'get_running_expired_sync_action_executions']
    r1.check(bool(gq) and dotted(gq[0].args[0]) == 'exp_date',
             ctx.construct(he, extra='threshold passed'),
             'the threshold is not what is passed to the query', ctx.loc(he))
    k, lh = prog.class_attr(MODELS + '.ActionExecution', 'last_heartbeat')
    r1.check(lh is not None and U.phas(
        lh, '___.utc_now_sec() + datetime.timedelta('
        'seconds=CONF.action_heartbeat.first_heartbeat_timeout)'), MODELS + '.ActionExecution :: last_heartbeat '
             'default', 'a new action does not get the first-heartbeat grace '
             'period as its initial deadline', 'mistral/db/v2/sqlalchemy/'
             'models.py')
    uh = prog.func(DB + '.update_action_execution_heartbeat')
    nowv = {dotted(n.targets[0]) for n in own_nodes(uh.node)
            if isinstance(n, ast.Assign) and
            U.phas(n.value, '___.utc_now_sec()')}
    r1.check(any(U.phas(uh.node, "{'last_heartbeat': %s}" % v)
                 for v in nowv) or
             U.phas(uh.node, "{'last_heartbeat': ___.utc_now_sec()}"),
             ctx.construct(uh),
        'a heartbeat does not set last_heartbeat to now', ctx.loc(uh))
    # heartbeats arrive under the executor's project-less context: the
    # update must not be tenant-scoped (it would match no row of a
    # project-owned action when authentication is enabled)
    r1.check(U.phas(uh.node, 'session.query(models.ActionExecution)') and
             not any(isinstance(x, ast.Call) and
                     U.call_name(x) in ('_secure_query', 'model_query')
                     for x in own_nodes(uh.node)),
             ctx.construct(uh, extra='not tenant-scoped'),
             'the heartbeat update goes through the tenant-scoped query: '
             'heartbeats sent by the executor (no project in its context) '
             'are silently dropped and live actions are expired',
             ctx.loc(uh))
    r1.check(U.phas(uh.node, '___.filter(___.ActionExecution.id == %s)'
                    '.update(___)' % uh.params[0]),
             ctx.construct(uh, extra='the reported action only'),
             'the heartbeat is not written to exactly the action execution '
             'whose id was reported', ctx.loc(uh))

    # ---- R6 every running action gets its heartbeat ------------------------------
    r6 = ctx.rule('R6', 'the sender reports every running action on every '
                  'pass (no truncation / sampling of the id set)',
                  'dataflow')
    HS = 'mistral.services.action_heartbeat_sender'
    sf = prog.func(HS + '.send_action_heartbeats')
    scfg = ctx.cfg(sf)
    snd = [(n, c) for n, c in scfg.calls(
        lambda c: U.call_name(c) == 'process_action_heartbeats')]
    if len(snd) != 1:
        raise AnalysisError('C20.R6: heartbeat send lost')
    n, c = snd[0]
    # every definition of the value that is sent, back to the running set:
    # only copies (list / set / tuple / sorted), no slicing, filtering or
    # sampling
    bad = []
    seen_set = False
    todo = [c.args[0]] if c.args else []
    visited = set()
    while todo:
        e = todo.pop()
        if isinstance(e, ast.Name):
            if e.id == '_running_actions':
                seen_set = True
                continue
            if e.id in visited:
                continue
            visited.add(e.id)
            defs_ = [x.value for x in own_nodes(sf.node)
                     if isinstance(x, ast.Assign) and
                     any(isinstance(t_, ast.Name) and t_.id == e.id
                         for t_ in x.targets)]
            if not defs_:
                bad.append(norm(e))
            todo += defs_
        elif isinstance(e, ast.Call) and isinstance(e.func, ast.Name) and \
                e.func.id in ('list', 'set', 'tuple', 'sorted',
                              'frozenset') and len(e.args) == 1:
            todo.append(e.args[0])
        else:
            bad.append(norm(e, 60))
    facts = [(norm(a), t) for a, t in U.guard_atoms(scfg, n)]
    r6.check(seen_set and not bad and
             facts in ([('_running_actions', True)], []),
             ctx.construct(sf, c, extra='all running actions'),
             'the ids sent are not the whole set of running actions (%s; '
             'conditions %s): actions left out get no heartbeat and are '
             'expired although their executor is alive'
             % (bad[:2], facts), ctx.loc(sf, c))

    # ---- R5 the checker thread survives a failing pass -------------------------
    r5 = ctx.rule('R5', 'a failing pass does not end the heartbeat checker '
                  'thread', 'GD (handlers)')
    from mstatic.rules import shared as _sh2
    _sh2.service_loops_survive(ctx, r5, which=('action_heartbeat_checker',))

    # ---- R2 batch isolation ----------------------------------------------------
    r2 = ctx.rule('R2', 'one broken action does not stop the batch; every '
                  'selected action is handled', 'GD')
    cfg = ctx.cfg(he)
    ok = False
    for t in ast.walk(he.node):
        if isinstance(t, ast.Try):
            for h in t.handlers:
                if any('DBEntityNotFoundError' in x
                       for x in U.handler_types(h)) and any(
                        isinstance(x, ast.Continue) for x in ast.walk(h)) \
                        and not any(isinstance(x, ast.Raise)
                                    for x in ast.walk(h)):
                    ok = True
    r2.check(ok, ctx.construct(he, extra='missing parent => continue'),
             'a missing task/workflow of one action aborts the whole batch',
             ctx.loc(he))
    # skipping is only harmless while every pass sees ALL expired actions:
    # once the selection is truncated (an effective LIMIT), the skipped
    # rows - which stay RUNNING and expired - are selected again and can
    # fill every batch, and no other lost action is ever expired
    qf = prog.func(DB + '.get_running_expired_sync_action_executions')
    eff = False
    for x in own_nodes(qf.node):
        if isinstance(x, (ast.Assign, ast.Return)) and x.value is not None \
                and any(isinstance(y, ast.Call) and
                        U.call_name(y) in ('limit', 'slice')
                        for y in ast.walk(x.value)):
            eff = True
        if isinstance(x, ast.Return) and isinstance(x.value, ast.Subscript):
            eff = True
    skips = [x for lp in ast.walk(he.node) if isinstance(lp, ast.For)
             for x in ast.walk(lp) if isinstance(x, ast.Continue)]
    r2.check(not (eff and skips),
             ctx.construct(he, extra='skipped actions cannot fill the batch'),
             'the selection of expired actions is truncated (LIMIT) while '
             'the loop skips some of them without changing them: the same '
             'rows fill every batch and the actions behind them are never '
             'expired', ctx.loc(qf))
    # lookups keyed by a nullable column must be guarded by a test that it
    # is set (a stand-alone action has no task: the raising getter would
    # make the checker skip it for ever)
    nullable = nullable_columns(prog, 'ActionExecution')
    if 'task_execution_id' not in nullable:
        raise AnalysisError('C20.R2: ActionExecution.task_execution_id is '
                            'no longer declared nullable')
    n_look = 0
    for n, c in cfg.calls(lambda c: U.call_name(c).startswith('get_')
                          if U.call_name(c) else False):
        for a in c.args:
            d = dotted(a) or ''
            if d.startswith('action_ex.') and d.split('.', 1)[1] in nullable:
                n_look += 1
                IN, keys = sd.analyze(cfg, he, [(d, (None, OBJ))])
                vals = sd.values_at(IN, keys, n, d)
                r2.check(None not in vals, ctx.construct(he, c),
                         'raising lookup keyed by the nullable column %s is '
                         'not guarded by a test that it is set: an action '
                         'without a task is skipped as "broken" on every '
                         'pass and never failed' % d, ctx.loc(he, c))
    if n_look < 1:
        raise AnalysisError('C20.R2: task lookup in handle_expired_actions '
                            'lost')
    # every raising lookup made per action is inside the not-found guard
    # (an escaping DBEntityNotFoundError rolls the whole batch back and the
    # same batch is selected again on every pass)
    enc = cfg.enclosing_trys if hasattr(cfg, 'enclosing_trys') else None
    loops_ast = [x for x in own_nodes(he.node) if isinstance(x, ast.For) and
                 dotted(x.iter) == 'action_exs']
    n_get = 0
    for lp in loops_ast:
        for c in ast.walk(lp):
            if not (isinstance(c, ast.Call) and
                    isinstance(c.func, ast.Attribute) and
                    dotted(c.func.value) == 'db_api' and
                    c.func.attr.startswith('get_')):
                continue
            n_get += 1
            covered = False
            for t in ast.walk(lp):
                if isinstance(t, ast.Try) and any(
                        y is c for b in t.body for y in ast.walk(b)):
                    for h in t.handlers:
                        ht = U.handler_types(h)
                        if any(x.split('.')[-1] in (
                                'DBEntityNotFoundError', 'DBError',
                                'MistralException', 'Exception')
                                for x in ht) and not any(
                                isinstance(y, ast.Raise)
                                for y in ast.walk(h)):
                            covered = True
            r2.check(covered, ctx.construct(he, c),
                     'a raising lookup (%s) made for one action of the '
                     'batch is outside the DBEntityNotFoundError guard: one '
                     'action whose parent vanished aborts and rolls back '
                     'the whole batch' % U.call_dotted(c), ctx.loc(he, c))
    if n_get < 2:
        raise AnalysisError('C20.R2: per-action lookups lost (%d)' % n_get)
    # every selected action reaches on_action_complete unless skipped by
    # the not-found handler
    oc = U.calls_in(cfg, 'on_action_complete')
    loops = [x for x in cfg.nodes if x.kind == 'for' and
             dotted(x.ast.iter) == 'action_exs']
    r2.check(bool(oc) and bool(loops) and
             any(x is oc[0][1] for x in ast.walk(loops[0].ast)),
             ctx.construct(he, extra='completed in the loop'),
             'expired actions are not completed inside the batch loop',
             ctx.loc(he))
    ph = prog.func('mistral.engine.default_engine.DefaultEngine.'
                   'process_action_heartbeats')
    okp = False
    for lp in [x for x in own_nodes(ph.node) if isinstance(x, ast.For)]:
        for t in ast.walk(lp):
            if isinstance(t, ast.Try) and any(
                    'DBEntityNotFoundError' in x for h in t.handlers
                    for x in U.handler_types(h)) and not any(
                    isinstance(x, ast.Raise) for h in t.handlers
                    for x in ast.walk(h)):
                okp = any(isinstance(x, ast.Call) and U.call_name(x) ==
                          'update_action_execution_heartbeat'
                          for x in ast.walk(t))
    r2.check(okp, ctx.construct(ph), 'one unknown action id aborts the '
             'heartbeat update of the others', ctx.loc(ph))

    # ---- R3 normal error path; disabled when unconfigured ------------------------
    r3 = ctx.rule('R3', 'expired actions are completed through the normal '
                  'error path with a heartbeat message', 'GD')
    res = [n for n in own_nodes(he.node) if isinstance(n, ast.Call) and
           U.call_name(n) == 'Result']
    r3.check(bool(res) and U.kwarg(res[0], 'error') is not None and
             'eartbeat' in norm(U.kwarg(res[0], 'error')),
             ctx.construct(he, extra='error result'),
             'the action is not completed with a heartbeat error result',
             ctx.loc(he))
    r3.check(bool(oc) and 'action_handler' in U.call_dotted(oc[0][1]) and
             [dotted(a) for a in oc[0][1].args] == ['action_ex', 'result'],
             ctx.construct(he, extra='through action_handler'),
             'completion bypasses action_handler.on_action_complete (task '
             'and workflow error handling would not run)', ctx.loc(he))
    # late genuine result is rejected: same guard as C03.R5
    f = prog.func('mistral.engine.actions.RegularAction.complete')
    fcfg = ctx.cfg(f)
    for t, st in U.attr_stores(f.node):
        if dotted(t.value) == 'self.action_ex' and t.attr == 'state':
            sn = fcfg.stmt_node(st)
            vals = c03._pre_state_values(ctx, f, sn, 'self.action_ex.state')
            r3.check(not (vals & completed), ctx.construct(f, st),
                     'a late result can overwrite an expired action',
                     ctx.loc(f, st))
    for mod in (HC, 'mistral.services.action_heartbeat_sender'):
        stf = prog.func(mod + '.start')
        scfg = ctx.cfg(stf)
        en = [x for x in own_nodes(stf.node) if isinstance(x, ast.Assign)
              and isinstance(x.value, ast.BoolOp) and
              isinstance(x.value.op, ast.And) and
              {norm(v) for v in x.value.values} == {'interval',
                                                    'max_missed'}]
        var = dotted(en[0].targets[0]) if en else 'enabled'
        IN, keys = sd.analyze(scfg, stf, [(var, (None, 0, OBJ))])
        thr = [(n, c) for n, c in scfg.calls(
            lambda c: U.call_name(c) in ('Timer', 'Thread', 'start'))]
        okk = bool(en) and bool(thr) and all(
            sd.values_at(IN, keys, n, var) == {OBJ} for n, c in thr)
        r3.check(okk, ctx.construct(stf, extra='disabled when unconfigured'),
                 'the thread starts although interval or max_missed is '
                 'falsy', ctx.loc(stf))

    # ---- R5 heartbeats are reported exactly while the action runs ---------------------
    r5 = ctx.rule('R5', 'an action is registered with the heartbeat sender '
                  'before it runs and removed on every exit', 'PAIR')
    ra = prog.func('mistral.executors.default_executor.DefaultExecutor.'
                   'run_action')
    okp = False
    for t in ast.walk(ra.node):
        if isinstance(t, ast.Try) and t.finalbody:
            adds = [x for b in t.body for x in ast.walk(b)
                    if isinstance(x, ast.Call) and U.call_name(x) ==
                    'add_action']
            runs = [x for b in t.body for x in ast.walk(b)
                    if isinstance(x, ast.Call) and U.call_name(x) ==
                    '_do_run_action']
            rem = [x for b in t.finalbody for x in ast.walk(b)
                   if isinstance(x, ast.Call) and U.call_name(x) ==
                   'remove_action']
            okp = bool(adds) and bool(runs) and bool(rem) and \
                adds[0].lineno < runs[0].lineno and \
                norm(adds[0].args[0]) == norm(rem[0].args[0]) == \
                'action_ex_id'
    r5.check(okp, ctx.construct(ra), 'the action is not added to the '
             'heartbeat sender before running and removed in a finally '
             'block (a finished action would be reported alive for ever, or '
             'a running one never)', ctx.loc(ra))
    sl = prog.func('mistral.services.action_heartbeat_sender._loop')
    r5.check(U.phas(sl.node, '___.process_action_heartbeats(___)') or
             any(isinstance(x, ast.Call) and
                 U.call_name(x) == 'process_action_heartbeats'
                 for q2, g in prog.funcs.items()
                 if q2.startswith('mistral.services.action_heartbeat_sender.')
                 for x in own_nodes(g.node)),
             ctx.construct(sl), 'the sender loop no longer reports running '
             'actions to the engine', ctx.loc(sl))

    # ---- R4 integrity check ----------------------------------------------------------
    r4 = ctx.rule('R4', 'the integrity check is guarded, rescheduled and '
                  'recovers stuck tasks through the normal path', 'GD')
    ic = prog.func(WH + '._check_and_fix_integrity')
    cfg = ctx.cfg(ic)
    IN, keys = sd.analyze(cfg, ic, [('wf_ex.state', sd.state_domain),
                                    ('wf_ex', (None, OBJ))],
                          kill=lambda c: ())
    rs = U.calls_in(cfg, '_schedule_check_and_fix_integrity')
    rec = U.calls_in(cfg, 'schedule_on_action_complete')
    scan = U.calls_in(cfg, 'get_task_executions')
    if not (rs and rec and scan):
        raise AnalysisError('C20.R4: _check_and_fix_integrity structure '
                            'lost')
    # the child handed to the normal completion path is the current one:
    # the most recent execution of the task (after a rerun / a retry the
    # earlier children are superseded results; a regular task takes its
    # state from the execution it is told about)
    for _n, c in rec:
        a = c.args[0] if c.args else None
        last = isinstance(a, ast.Subscript) and (
            (isinstance(a.slice, ast.UnaryOp) and
             isinstance(a.slice.op, ast.USub) and
             isinstance(a.slice.operand, ast.Constant) and
             a.slice.operand.value == 1) or
            norm(a.slice) == 'len(%s) - 1' % norm(a.value))
        chosen = isinstance(a, ast.Name) and any(
            isinstance(x, ast.Attribute) and x.attr == 'accepted'
            for x in ast.walk(ic.node))
        r4.check(last or chosen,
                 ctx.construct(ic, extra='recovers with the latest child'),
                 'the stuck task is completed with %s, not with its most '
                 'recent child execution: after a rerun the task takes the '
                 'superseded result of the first attempt' % norm(a),
                 ctx.loc(ic, c))
    for n, c in rs + rec + scan:
        v = IN[n.id]
        r4.check(all(x[1] == OBJ and x[0] not in completed for x in v),
                 ctx.construct(ic, extra=U.call_name(c) + ' guarded'),
                 '%s reachable for a missing or finished workflow'
                 % U.call_name(c), ctx.loc(ic, c))
    # the chain of checks is started only with the execution (and on
    # rerun): it must re-arm itself for EVERY unfinished state, a paused
    # workflow included - resume does not start a new chain
    for n, c in rs:
        vals = {x[0] for x in IN[n.id]}
        missing = set(sd.ALL) - completed - vals
        r4.check(not missing, ctx.construct(ic, extra='re-armed for every '
                                            'unfinished state'),
                 'the check does not reschedule itself while the workflow '
                 'is %s: the chain ends and tasks that get stuck later '
                 '(after resume) are never recovered' % sorted(missing),
                 ctx.loc(ic, c))
    r4.check(cfg.dominates(rs[0][0], scan[0][0]),
             ctx.construct(ic, extra='reschedule before scanning'),
             'the check does not reschedule itself before scanning (an '
             'error during the scan would end the checks)', ctx.loc(ic))
    neg = False
    for x in cfg.nodes:
        if x.kind == 'stmt' and isinstance(x.ast, ast.Return):
            if U.guarded(cfg, x, 'check_after_seconds < 0', True) and \
                    len(U.guard_atoms(cfg, x)) == 1:
                neg = True
    r4.check(neg, ctx.construct(ic, extra='negative delay disables'),
             'a negative delay does not disable the check', ctx.loc(ic))
    st_kw = U.kwarg(scan[0][1], 'state')
    r4.check(st_kw is not None and norm(st_kw) == 'states.RUNNING',
             ctx.construct(ic, extra='RUNNING tasks only'),
             'tasks other than RUNNING are considered stuck', ctx.loc(ic))
    for n, c in rec:
        r4.check(U.guarded(cfg, n, 'all_finished', True) and
                 U.guarded(cfg, n, '__i > check_after_seconds', True) and
                 U.guarded(cfg, n, 'delta < check_after_seconds', False) and
                 U.guarded(cfg, n, 'child_executions', True),
                 ctx.construct(ic, extra='recovery conditions'),
                 'recovery is not limited to old RUNNING tasks whose '
                 'children have all finished', ctx.loc(ic, c))
    # every RUNNING task is examined: the scan loop is only left at its end
    # (tasks come ordered by id, not by age: a fresh task must not end the
    # scan before a stuck one behind it is seen)
    sl = [x for x in own_nodes(ic.node) if isinstance(x, ast.For) and
          any(c is rec[0][1] for b in x.body for c in ast.walk(b))]
    early = [y for lp in sl for b in lp.body for y in ast.walk(b)
             if isinstance(y, (ast.Break, ast.Return))]
    r4.check(len(sl) >= 1 and not early,
             ctx.construct(ic, extra='all RUNNING tasks scanned'),
             'the scan over the RUNNING tasks can be left early (%s): a '
             'recently updated task that sorts first hides a stuck one'
             % [norm(y) for y in early], ctx.loc(ic))
    af = [x for x in own_nodes(ic.node) if isinstance(x, ast.Assign) and
          dotted(x.targets[0]) == 'all_finished']
    r4.check(bool(af) and U.call_name(af[0].value) == 'all' and
             'is_completed(c_ex.state)' in norm(af[0].value, 300),
             ctx.construct(ic, extra='all children completed'),
             'all_finished is not "every child execution is completed"',
             ctx.loc(ic))
    for q2 in ('mistral.engine.workflow_handler.start_workflow',
               'mistral.engine.workflow_handler.rerun_workflow',
               'mistral.engine.workflows.Workflow._recursive_rerun'):
        g2 = prog.func(q2)
        r4.check(any(isinstance(x, ast.Call) and U.call_name(x) ==
                     '_schedule_check_and_fix_integrity'
                     for x in own_nodes(g2.node)),
                 ctx.construct(g2, extra='schedules the check'),
                 'the integrity check is not scheduled', ctx.loc(g2))
    # every execution gets its own check chain, sub-workflows included: the
    # check only looks at the tasks of the execution it was scheduled for
    sw = prog.func('mistral.engine.workflow_handler.start_workflow')
    scfg = ctx.cfg(sw)
    arm = U.calls_in(scfg, '_schedule_check_and_fix_integrity')
    r4.check(len(arm) == 1 and not U.guard_atoms(scfg, arm[0][0]) and
             scfg.must_pass(scfg.entry, [arm[0][0]], exits=[scfg.exit]) and
             norm(arm[0][1].args[0]) == 'wf.wf_ex',
             ctx.construct(sw, extra='armed for every execution'),
             'the integrity check is not armed unconditionally when an '
             'execution is started (%s): the check covers the tasks of one '
             'execution only, so an execution without its own chain (a '
             'sub-workflow) keeps a stuck task for ever'
             % [(norm(a), t_) for n_, _c in arm
                for a, t_ in U.guard_atoms(scfg, n_)], ctx.loc(sw))
    icq = [c for c in own_nodes(ic.node) if isinstance(c, ast.Call) and
           U.call_name(c) == 'get_task_executions']
    r4.check(len(icq) == 1 and norm(U.kwarg(icq[0], 'workflow_execution_id')
                                    or ast.Constant(None)) in (
                 'wf_ex.id', 'wf_ex_id'),
             ctx.construct(ic, extra='tasks of this execution'),
             'the integrity check does not scan the tasks of the execution '
             'it was scheduled for', ctx.loc(ic))
