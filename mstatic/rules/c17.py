"""C17 - a cron trigger fires once per due time and never more than its
count."""
import ast

from mstatic import qshape
from mstatic.core import AnalysisError, dotted, norm, own_nodes
from mstatic.rules import util as U

PER = 'mistral.services.periodic'
TRG = 'mistral.services.triggers'
DB = 'mistral.db.v2.sqlalchemy.api'


def cron_creation_tables(ctx, rule, ct, vf):
    """Finite-domain evaluation of trigger creation over (first time given,
    pattern given, count in {None, 0, 1, 2}): a trigger with only a first
    execution time gets count 1 (it fires once), the next execution time is
    the first time when given and the pattern's next occurrence otherwise;
    validation refuses: neither first time nor pattern, a first time less
    than a minute ahead, a count above 1 without a pattern."""
    from mstatic.rules import dt
    from mstatic.statedom import OBJ, UNK
    P = ct.params
    need = ('pattern', 'first_time', 'count')
    if any(p not in P for p in need):
        raise AnalysisError('C17.R4: create_cron_trigger parameters changed')
    cnt_dom = (None, 0, 1, 2)
    variables = [('first_time', (None, OBJ)), ('pattern', (None, OBJ)),
                 ('count', cnt_dom)]
    t = dt.Table(ctx, ct, variables, mutable=('first_time', 'count'))
    # the stored values
    ins = [c for _n, c in t.cfg.calls(
        lambda c: U.call_name(c) == 'create_cron_trigger')]
    dicts = [x for x in own_nodes(ct.node) if isinstance(x, ast.Dict) and
             any(isinstance(k, ast.Constant) and
                 k.value == 'remaining_executions' for k in x.keys)]
    if len(dicts) != 1 or not ins:
        raise AnalysisError('C17.R4: stored trigger values not found')
    d = dicts[0]
    vals = {k.value: v for k, v in zip(d.keys, d.values)
            if isinstance(k, ast.Constant)}
    dn = t.cfg.node_of(d)
    bad = []
    for v in t.full_at(dn):
        env = t.env(v)
        got = t.ev(vals['remaining_executions'], v)
        if env['first_time'] is not None and env['pattern'] is None and \
                not got:
            bad.append(env)
    # which original requests can reach the store with which count: the
    # count is only ever re-assigned to 1, under "first time only"
    stores = t.stmt_nodes(lambda a: isinstance(a, ast.Assign) and
                          dotted(a.targets[0]) == 'count')
    rule.check(len(stores) == 1 and
               isinstance(stores[0].ast.value, ast.Constant) and
               stores[0].ast.value.value == 1,
               ctx.construct(ct, extra='count only defaulted to 1'),
               'the count of a cron trigger is re-assigned to something '
               'other than the default 1 of a first-time-only trigger',
               ctx.loc(ct))
    if len(stores) == 1:
        t.check_exact(rule, stores[0],
                      lambda e: e['first_time'] is not None and
                      e['pattern'] is None and not e['count'],
                      'the count is defaulted to 1',
                      'first-time-only fires once')
    rule.check(not bad and norm(vals['remaining_executions']) == 'count',
               ctx.construct(ct, extra='stored count'),
               'a trigger with only first_execution_time is stored without '
               'a count (%s): it is never removed and fires again'
               % (bad[:1],), ctx.loc(ct, d))
    # next execution time
    nt = vals.get('next_execution_time')
    nname = dotted(nt) if nt is not None else None
    asg = t.stmt_nodes(lambda a: isinstance(a, ast.Assign) and
                       nname is not None and dotted(a.targets[0]) == nname)
    if len(asg) != 2:
        raise AnalysisError('C17.R4: next execution time assignments')
    for n in asg:
        val = n.ast.value
        if dotted(val) == 'first_time':
            t.check_exact(rule, n, lambda e: e['first_time'] is not None,
                          'the first execution time is used as next time',
                          'next time (first time given)')
        elif isinstance(val, ast.Call) and \
                U.call_name(val) == 'get_next_execution_time':
            rule.check(bool(val.args) and norm(val.args[0]) == 'pattern',
                       ctx.construct(ct, val, extra='from the pattern'),
                       'the next time is not computed from the pattern',
                       ctx.loc(ct, val))
            t.check_exact(rule, n, lambda e: e['first_time'] is None,
                          'the next time is computed from the pattern',
                          'next time (no first time)')
        else:
            rule.fail(ctx.construct(ct, n.ast, extra='next time'),
                      'unexpected source of next_execution_time',
                      ctx.loc(ct, n.ast))
    rule.check(norm(vals.get('first_execution_time')) == 'first_time' and
               norm(vals.get('pattern')) == 'pattern',
               ctx.construct(ct, extra='stored pattern / first time'),
               'pattern / first_execution_time are not stored as given',
               ctx.loc(ct, d))
    t.undecided(rule, 'first time, pattern and count', skip=lambda e: (
        True if any(isinstance(x, ast.Name) and x.id in
                    ('start_time', 'workflow_id', 'isinstance')
                    for x in ast.walk(e))
        else None), force=[s_.ast for s_ in stores])
    # ---- validation
    VP = vf.params
    if VP[:3] != ['pattern', 'first_time', 'count']:
        raise AnalysisError('C17.R4: validate_cron_trigger_input signature')
    soon = [x for x in own_nodes(vf.node) if isinstance(x, ast.Compare) and
            len(x.ops) == 1 and
            isinstance(x.ops[0], (ast.Lt, ast.LtE, ast.Gt, ast.GtE)) and
            'first_time' in U.names_in(x) and 'count' not in U.names_in(x)]
    if len(soon) != 1:
        raise AnalysisError('C17.R4: minimum first time test not found')
    ksoon = dt.text(soon[0])
    # orientation: the comparison is true when the first time is too early
    c0 = soon[0]
    left_is_first = 'first_time' in U.names_in(c0.left)
    early_when_true = isinstance(c0.ops[0], (ast.Lt, ast.LtE)) \
        if left_is_first else isinstance(c0.ops[0], (ast.Gt, ast.GtE))
    tv = dt.Table(ctx, vf, [('first_time', (None, OBJ)),
                            ('pattern', (None, OBJ)),
                            ('count', (None, 0, 1, 2, 3)),
                            (ksoon, (True, False))])
    # the minimum is now + 60 s
    mins = [x for x in own_nodes(vf.node) if isinstance(x, ast.Call) and
            U.call_name(x) == 'timedelta']
    rule.check(any(U.phas(x, 'datetime.timedelta(0, 60)') or
                   U.phas(x, 'datetime.timedelta(seconds=60)') or
                   U.phas(x, 'datetime.timedelta(minutes=1)') for x in mins),
               ctx.construct(vf, extra='one minute ahead'),
               'the minimum first execution time is not one minute ahead',
               ctx.loc(vf))

    def accepted(e):
        early = e[ksoon] if early_when_true else (not e[ksoon])
        if e['first_time'] is None and e['pattern'] is None:
            return False
        if e['first_time'] is not None and early:
            return False
        if e['first_time'] is not None and e['pattern'] is None and \
                e['count'] and e['count'] > 1:
            return False
        return True
    tv.check_exact(rule, tv.cfg.exit, accepted,
                   'a cron trigger request is accepted',
                   'validation table')
    tv.undecided(rule, 'first time, pattern, count and the minimum time',
                 skip=None)


def trust_context_table(ctx, rule):
    """security.create_context: with authentication enabled every trigger
    gets a trust-scoped context of *its* project, whatever else the row
    holds; the project-less admin context is only for deployments without
    authentication."""
    from mstatic.rules import dt
    f = ctx.prog.func('mistral.services.security.create_context')
    cfg = ctx.cfg(f)
    t = dt.Table(ctx, f, [('CONF.pecan.auth_enable', (True, False)),
                          ('trust_id', (None, 'OBJ')),
                          ('project_id', (None, 'OBJ'))])
    rets = [n for n in cfg.nodes if n.kind == 'stmt' and
            isinstance(n.ast, ast.Return) and
            isinstance(n.ast.value, ast.Call) and
            U.call_name(n.ast.value) == 'MistralContext']
    if len(rets) < 2:
        raise AnalysisError('C17.R4: create_context no longer returns two '
                            'MistralContext constructions')
    scoped = [n for n in rets if U.kwarg(n.ast.value, 'is_trust_scoped')
              is not None]
    admin = [n for n in rets if n not in scoped]
    for n in scoped:
        c = n.ast.value
        rule.check(norm(U.kwarg(c, 'project_id')) == 'project_id' and
                   norm(U.kwarg(c, 'trust_id')) == 'trust_id' and
                   U.kwarg(c, 'is_admin') is None,
                   ctx.construct(f, extra='trust-scoped context'),
                   'the trust-scoped context does not carry the given '
                   'project and trust (or is an admin context)',
                   ctx.loc(f, c))
    if not scoped or not admin:
        raise AnalysisError('C17.R4: create_context lost one of its two '
                            'kinds of context')
    for nodes, want, what, tag in (
            (scoped, True, 'the trust-scoped context is returned',
             'trust-scoped exactly when auth is enabled'),
            (admin, False, 'the project-less admin context is returned',
             'admin context only without auth')):
        got = set()
        for n in nodes:
            got |= t.inputs_at(n)
        exp = {v for v in t.init_inputs
               if dict(zip(t.keys, v))['CONF.pecan.auth_enable'] is want}
        extra, missing = sorted(got - exp, key=repr), \
            sorted(exp - got, key=repr)
        msg = ''
        if extra:
            msg += '%s although the property rules it out, e.g. for %s. ' \
                % (what, dict(zip(t.keys, extra[0])))
        if missing:
            msg += '%s is not returned for %s.' % (
                what, dict(zip(t.keys, missing[0])))
        rule.check(not extra and not missing,
                   ctx.construct(f, extra=tag), msg, ctx.loc(f, nodes[0].ast))
    # the keystone client is asked for the given trust
    kc = [c for _n, c in U.calls_in(cfg, 'client_for_trusts')]
    rule.check(bool(kc) and all(c.args and norm(c.args[0]) == 'trust_id'
                                for c in kc),
               ctx.construct(f, extra='client for the trust'),
               'the keystone client is not created for the given trust',
               ctx.loc(f))


def run(ctx):
    prog, sd = ctx.prog, ctx.sd

    # ---- R1 only the winner starts ---------------------------------------
    r1 = ctx.rule('R1', 'the workflow is started only by the processor '
                  'whose conditional update succeeded', 'GD')
    pc = prog.func(PER + '.process_cron_triggers_v2')
    cfg = ctx.cfg(pc)
    adv = [x for x in cfg.nodes if x.kind == 'stmt' and
           isinstance(x.ast, ast.Assign) and
           'advance_cron_trigger(trigger)' in norm(x.ast.value)]
    sw = U.calls_in(cfg, 'start_workflow')
    if not adv or not sw:
        raise AnalysisError('C17.R1: advance / start_workflow lost')
    var = dotted(adv[0].ast.targets[0])
    for n, c in sw:
        g = U.polarity_guard(cfg, n, lambda t: norm(t) == var)
        r1.check(g is not None and g[1] is True and
                 cfg.dominates(adv[0], n),
                 ctx.construct(pc, extra='start under the CAS result'),
                 'start_workflow is not dominated by the true result of '
                 'advance_cron_trigger (every processor would start the '
                 'workflow)', ctx.loc(pc, c))
    # per-trigger isolation: try/except inside the loop, finally resets ctx
    loops = [x for x in own_nodes(pc.node) if isinstance(x, ast.For)]
    ok = False
    for lp in loops:
        for s in lp.body:
            if isinstance(s, ast.Try):
                catches = any(t in ('Exception', 'BaseException')
                              for h in s.handlers
                              for t in U.handler_types(h))
                no_reraise = not any(isinstance(x, ast.Raise)
                                     for h in s.handlers
                                     for x in ast.walk(h))
                fin = any(isinstance(x, ast.Call) and
                          U.call_name(x) == 'set_ctx' and x.args and
                          norm(x.args[0]) == 'None'
                          for y in s.finalbody for x in ast.walk(y))
                inside = all(any(z is c for z in ast.walk(s))
                             for _n, c in sw)
                ok = catches and no_reraise and fin and inside
    r1.check(ok, ctx.construct(pc, extra='per-trigger isolation'),
             'a failing trigger is not isolated (try/except per trigger '
             'with the context reset in finally)', ctx.loc(pc))
    # ... and nothing that can fail for one trigger is computed for all of
    # them before the loop: the listing hands the rows over as they are
    gl = prog.func(TRG + '.get_next_cron_triggers')
    n_bad = []
    for lp in [x for x in own_nodes(gl.node)
               if isinstance(x, (ast.For, ast.ListComp, ast.GeneratorExp,
                                 ast.SetComp, ast.DictComp))]:
        for c in ast.walk(lp):
            if isinstance(c, ast.Call) and \
                    (dotted(c.func) or '').split('.')[0] != 'LOG':
                n_bad.append(c)
    r1.check(not n_bad and U.phas(gl.node, 'db_api.get_next_cron_triggers(___)'),
             ctx.construct(gl, extra='nothing per trigger before the loop'),
             'the listing of due triggers computes something per trigger '
             '(%s) outside the per-trigger try/except of the processing '
             'loop: one trigger it fails for (a one-shot without a pattern) '
             'aborts every pass before any trigger is processed'
             % (norm(n_bad[0]) if n_bad else ''),
             ctx.loc(gl, n_bad[0] if n_bad else None))

    # ---- R2 CAS on what was read, addressed to the row that was read ---------
    r2 = ctx.rule('R2', 'advance is a compare-and-swap on the '
                  'next_execution_time that was read, on that very row',
                  'GD')
    from mstatic.rules import shared as _shc
    _shc.cas_primitive_reports_loss(ctx, r2)
    _shc.facade_forwards_parameters(ctx, r2, names={
        'update_cron_trigger', 'delete_cron_trigger',
        'get_next_cron_triggers'})
    # who may write the schedule of a trigger: outside the DB layer only
    # advance_cron_trigger (the compare-and-swap below) updates a cron
    # trigger - an unconditional write elsewhere (e.g. "handing an
    # occurrence back" after a failed start) moves next_execution_time
    # backwards / the count up over another processor's advance
    n_w = 0
    for q, f in sorted(prog.funcs.items()):
        if not f.module.startswith('mistral.') or '.tests.' in f.module or \
                f.module.startswith('mistral.db.'):
            continue
        for c in own_nodes(f.node):
            if isinstance(c, ast.Call) and U.call_name(c) in (
                    'update_cron_trigger', 'create_or_update_cron_trigger'):
                n_w += 1
                r2.check(q == PER + '.advance_cron_trigger' and
                         U.kwarg(c, 'query_filter') is not None,
                         ctx.construct(f, extra='only the CAS updates a '
                                       'trigger'),
                         'a cron trigger is updated outside the '
                         'compare-and-swap of advance_cron_trigger (or '
                         'without a query_filter): the write does not '
                         'depend on the schedule that was read',
                         ctx.loc(f, c))
    if n_w < 1:
        raise AnalysisError('C17.R2: no update of a cron trigger found')
    ad = prog.func(PER + '.advance_cron_trigger')
    cfg = ctx.cfg(ad)
    up = U.calls_in(cfg, 'update_cron_trigger')
    dl = U.calls_in(cfg, 'delete_cron_trigger')
    if not up or not dl:
        raise AnalysisError('C17.R2: update/delete calls lost')
    n, c = up[0]
    qf = U.kwarg(c, 'query_filter')
    r2.check(isinstance(qf, ast.Dict) and len(qf.keys) == 1 and
             isinstance(qf.keys[0], ast.Constant) and
             qf.keys[0].value == 'next_execution_time' and
             norm(qf.values[0]) == 't.next_execution_time',
             ctx.construct(ad, extra='query_filter'),
             'the update is not conditional on the next_execution_time '
             'that was read', ctx.loc(ad, c))
    for (nn, cc) in up + dl:
        r2.check(bool(cc.args) and norm(cc.args[0]) == 't.id',
                 ctx.construct(ad, extra=U.call_name(cc) + ' by id'),
                 '%s addresses the trigger by %s, not by the id of the row '
                 'that was read (a lookup by name through the secure query '
                 'may find a public trigger of another project with the '
                 'same name)' % (U.call_name(cc),
                                 norm(cc.args[0]) if cc.args else None),
                 ctx.loc(ad, cc))
    rets = [x for x in own_nodes(ad.node) if isinstance(x, ast.Return)]
    r2.check(len(rets) == 1 and norm(rets[0].value) in (
        'modified_count > 0', '0 < modified_count'),
        ctx.construct(ad, extra='returns CAS result'),
        'advance does not return "rows modified > 0"', ctx.loc(ad))
    mc = [x for x in own_nodes(ad.node) if isinstance(x, ast.Assign) and
          'modified_count' in norm(x.targets[0])]
    r2.check(len(mc) == 3 and any(x.value is up[0][1] for x in mc) and
             any(x.value is dl[0][1] for x in mc),
             ctx.construct(ad, extra='count from the DB calls'),
             'modified_count is not taken from the update/delete calls',
             ctx.loc(ad))
    uf = prog.func(DB + '.update_cron_trigger')
    ucfg = ctx.cfg(uf)
    uom = U.calls_in(ucfg, 'update_on_match')
    ok = False
    for nn, cc in uom:
        ok = U.guarded(ucfg, nn, 'query_filter', True) and \
            U.plain_update_only_without_filter(ucfg)
    spec = [x for x in own_nodes(uf.node) if isinstance(x, ast.Call) and
            U.call_name(x) == 'CronTrigger' and
            any(k.arg is None and dotted(k.value) == 'query_filter'
                for k in x.keywords) and
            norm(U.kwarg(x, 'id')) == 'cron_trigger.id']
    lost = False
    for t in ast.walk(uf.node):
        if isinstance(t, ast.Try):
            for h in t.handlers:
                if any('NoRowsMatched' in x for x in U.handler_types(h)):
                    lost = any(isinstance(x, ast.Return) and
                               norm(x.value).endswith(', 0)')
                               for x in ast.walk(h))
    r2.check(ok and bool(spec) and lost,
             ctx.construct(uf, extra='filter => update_on_match'),
             'update_cron_trigger does not apply the filter through '
             'update_on_match on the row id / report 0 when it lost',
             ctx.loc(uf))
    df = prog.func(DB + '.delete_cron_trigger')
    got = [x for x in own_nodes(df.node) if isinstance(x, ast.Assign) and
           isinstance(x.value, ast.Call) and
           U.call_name(x.value) == 'get_cron_trigger' and x.value.args and
           norm(x.value.args[0]) == df.params[0]]
    row = dotted(got[0].targets[0]) if got else '?'
    r2.check(any(isinstance(x, ast.Return) and 'rowcount' in norm(x.value)
                 for x in own_nodes(df.node)) and
             U.phas(df.node, '___.delete().where(___.c.id == %s.id)' % row),
             ctx.construct(df, extra='deletes exactly the row that was read'),
             'delete_cron_trigger does not delete "id == id of the row '
             'that was read and access-checked"', ctx.loc(df))
    r2.check(any(isinstance(x, ast.Return) and 'rowcount' in norm(x.value)
                 for x in own_nodes(df.node)),
             ctx.construct(df, extra='returns affected rows'),
             'delete_cron_trigger does not return the affected row count',
             ctx.loc(df))

    # ---- R5 the expected value is the one the processor listed; the advance is
    # committed on its own; times are UTC ----------------------------------------------
    r5 = ctx.rule('R5', 'the compare-and-swap expects the row as it was '
                  'listed as due (not re-read), the advance commits before '
                  'the workflow is started, next times are computed in UTC',
                  'GD/WMW')
    from mstatic.rules import shared as _shr
    _shr.retried_functions_rerunnable(ctx, r5)
    tp = ad.params[0]
    rebind = [x for x in own_nodes(ad.node)
              if isinstance(x, (ast.Assign, ast.AugAssign, ast.AnnAssign)) and
              any(isinstance(t_, ast.Name) and t_.id == tp
                  for t_ in (x.targets if isinstance(x, ast.Assign)
                             else [x.target]))]
    refresh = [c for c in own_nodes(ad.node) if isinstance(c, ast.Call) and
               U.call_name(c) in ('refresh', 'expire_all', 'expire') and
               any(tp in U.names_in(a) for a in c.args)]
    r5.check(not rebind and not refresh,
             ctx.construct(ad, extra='expected value from the due list'),
             'advance_cron_trigger re-reads the trigger (%s) before the '
             'conditional update: the expected next_execution_time is then '
             'always the current one, a processor working from a stale list '
             'never loses the race and the occurrence fires twice'
             % [norm(x) for x in rebind + refresh][:1], ctx.loc(ad))
    TX = ('start_tx', 'commit_tx', 'end_tx', 'rollback_tx', 'transaction')
    for g in (pc, ad):
        tx = [c for c in own_nodes(g.node) if isinstance(c, ast.Call) and
              U.call_name(c) in TX]
        r5.check(not tx, ctx.construct(g, extra='advance commits on its own'),
                 'the processor opens a transaction of its own (%s) around '
                 'the advance / the start: the advance is no longer durable '
                 'before the workflow is handed to the engine, so a fault '
                 'after the hand-off rolls it back and the same occurrence '
                 'fires again' % [norm(c) for c in tx][:1], ctx.loc(g))
    from mstatic.rules import shared as _sh
    _sh.utc_time_sources(ctx, r5, ['mistral.services.triggers',
                                   'mistral.services.periodic'], 2)
    gn = prog.func(TRG + '.get_next_execution_time')
    rets = [x for x in own_nodes(gn.node) if isinstance(x, ast.Return)]
    r5.check(len(rets) == 1 and U.phas(
        rets[0].value,
        'croniter.croniter(%s, %s).get_next(datetime.datetime)'
        % tuple(gn.params[:2])),
        ctx.construct(gn, extra='next occurrence as a naive UTC datetime'),
        'the next execution time is not croniter(pattern, start).get_next('
        'datetime) of the (UTC) start time', ctx.loc(gn))

    # ---- R3 time and count arithmetic shape -----------------------------------
    r3 = ctx.rule('R3', 'next time moves forward from max(now, previous); '
                  'count decrements and deletes at zero', 'GD')
    nt = [x for x in own_nodes(ad.node) if isinstance(x, ast.Call) and
          U.call_name(x) == 'get_next_execution_time']
    ok = bool(nt) and len(nt[0].args) == 2 and \
        norm(nt[0].args[0]) == 't.pattern' and \
        isinstance(nt[0].args[1], ast.Call) and \
        U.call_name(nt[0].args[1]) == 'max' and \
        {norm(a) for a in nt[0].args[1].args} == {
            'timeutils.utcnow()', 't.next_execution_time'}
    r3.check(ok, ctx.construct(ad, extra='max(now, previous next)'),
             'next time is not computed from max(now, previous next time)',
             ctx.loc(ad))
    gn = prog.func(TRG + '.get_next_execution_time')
    r3.check(U.phas(gn.node, 'croniter.croniter(pattern, start_time)'
                    '.get_next(___)'),
             ctx.construct(gn), 'next execution time does not use '
             'croniter.get_next', ctx.loc(gn))
    dec = [x for x in own_nodes(ad.node) if isinstance(x, ast.AugAssign)
           and norm(x.target) == 't.remaining_executions']
    okd = False
    for x in dec:
        sn = cfg.stmt_node(x)
        okd = isinstance(x.op, ast.Sub) and norm(x.value) == '1' and \
            U.guarded(cfg, sn, 't.remaining_executions > 0', True) and \
            U.guarded(cfg, sn, 't.remaining_executions is None', False)
    r3.check(okd and len(dec) == 1,
             ctx.construct(ad, extra='decrement only when > 0'),
             'remaining_executions is not decremented by one exactly when '
             'it is > 0', ctx.loc(ad))
    for nn, cc in dl:
        r3.check(U.guarded(cfg, nn, 't.remaining_executions == 0', True),
                 ctx.construct(ad, extra='delete at zero'),
                 'the trigger is not deleted exactly when no executions '
                 'remain', ctx.loc(ad, cc))
    for nn, cc in up:
        r3.check(U.guarded(cfg, nn, 't.remaining_executions == 0', False),
                 ctx.construct(ad, extra='update otherwise'),
                 'the trigger is advanced although no executions remain',
                 ctx.loc(ad, cc))
        vals = cc.args[1] if len(cc.args) > 1 else None
        r3.check(isinstance(vals, ast.Dict) and {
            k.value: norm(v) for k, v in zip(vals.keys, vals.values)
            if isinstance(k, ast.Constant)} == {
                'next_execution_time': 'next_time',
                'remaining_executions': 't.remaining_executions'},
            ctx.construct(ad, extra='values written'),
            'the update does not write the new next time and the '
            'remaining count', ctx.loc(ad, cc))
    gq = prog.func(DB + '.get_next_cron_triggers')
    qcfg = ctx.cfg(gq)
    ops, base, rets_ = qshape.query_ops(qcfg, gq.node)
    r3.check(any(U.phas(o.call, '___.next_execution_time < time') or
                 U.phas(o.call, '___.next_execution_time <= time')
                 for o in ops),
             ctx.construct(gq, extra='only due triggers'),
             'due-trigger query does not filter next_execution_time < time',
             ctx.loc(gq))

    # ---- R4 what is started, on whose behalf; creation validates ---------------
    r6 = ctx.rule('R6', 'the request that starts the workflow is sent once '
                  '(no resend in the RPC client layer)', 'PAIR (paths)')
    from mstatic.rules import shared as _shr
    _shr.rpc_request_sent_once(ctx, r6)
    r4 = ctx.rule('R4', 'the workflow is started with the trigger\'s input '
                  'and params under its security context; creation '
                  'validates first', 'AGREE')
    pcfg = ctx.cfg(pc)
    for n, c in sw:
        args = [norm(a) for a in c.args]
        r4.check('trigger.workflow_input' in args and any(
            k.arg is None and norm(k.value) == 'trigger.workflow_params'
            for k in c.keywords), ctx.construct(pc, extra='input/params'),
            'the workflow is not started with the trigger\'s input and '
            'parameters', ctx.loc(pc, c))
        cc = [d for d in pcfg.dominators(n)
              if U.node_has_call(pcfg, d, 'create_context')]
        sc = [d for d in pcfg.dominators(n)
              if U.node_has_call(pcfg, d, 'set_ctx')]
        # the context in force when the workflow is started: the nearest
        # dominating set_ctx; its argument is the value of
        # create_context(trigger.trust_id, trigger.project_id)
        okc = False
        if sc:
            last = max(sc, key=lambda d: len(pcfg.dominators(d)))
            call = [x for x in pcfg.own_nodes(last)
                    if isinstance(x, ast.Call) and
                    U.call_name(x) == 'set_ctx'][0]
            a = call.args[0] if call.args else None
            vals = [a]
            if isinstance(a, ast.Name):
                vals = list(U.reaching_defs(pcfg, a.id)[last.id])
            okc = bool(vals) and all(
                isinstance(v, ast.Call) and
                U.call_name(v) == 'create_context' and
                [norm(x) for x in v.args] == ['trigger.trust_id',
                                              'trigger.project_id']
                for v in vals)
        r4.check(okc and bool(cc), ctx.construct(pc, extra='security context'),
                 'the workflow is not started under a context created from '
                 'the trigger\'s trust and project', ctx.loc(pc, c))
    trust_context_table(ctx, r4)
    ct = prog.func(TRG + '.create_cron_trigger')
    ccfg = ctx.cfg(ct)
    v = U.calls_in(ccfg, 'validate_cron_trigger_input')
    ins = U.calls_in(ccfg, 'create_cron_trigger')
    r4.check(bool(v) and bool(ins) and ccfg.dominates(v[0][0], ins[0][0]),
             ctx.construct(ct, extra='validate before insert'),
             'the trigger is stored without validating pattern / first time '
             '/ count first', ctx.loc(ct))
    cron_creation_tables(ctx, r4, ct, prog.func(
        TRG + '.validate_cron_trigger_input'))
    # the trigger is stored with a trust (it fires on behalf of its
    # project, long after the request's token has expired) and after the
    # workflow input was checked against the workflow's declared input
    for n, c in ins:
        arg = norm(c.args[0]) if c.args else None
        tr = [d for d in ccfg.dominators(n) if any(
            isinstance(x, ast.Call) and U.call_name(x) == 'add_trust_id' and
            x.args and norm(x.args[0]) == arg for x in ccfg.own_nodes(d))]
        r4.check(bool(tr), ctx.construct(ct, c, extra='trust attached'),
                 'the trigger is stored without a trust id: when it fires '
                 'there is no identity to start the workflow on behalf of '
                 'its project', ctx.loc(ct, c))
        vi = [d for d in ccfg.dominators(n) if any(
            isinstance(x, ast.Call) and U.call_name(x) == 'validate_input'
            and len(x.args) >= 2 and norm(x.args[1]) == 'workflow_input'
            for x in ccfg.own_nodes(d))]
        r4.check(bool(vi), ctx.construct(ct, c, extra='input validated'),
                 'the trigger is stored without checking its workflow input '
                 'against the workflow definition', ctx.loc(ct, c))
