"""C09 - a sub-workflow and its parent task stay consistent."""
import ast

from mstatic.core import AnalysisError, dotted, norm, own_nodes
from mstatic.rules import util as U
from mstatic.rules import shared
from mstatic.rules import c03
from mstatic.statedom import OBJ

WF = 'mistral.engine.workflows.Workflow'
ENG = 'mistral.engine.default_engine.DefaultEngine'
WA = 'mistral.engine.actions.WorkflowAction'


def run(ctx):
    _run(ctx)
    _resolution_rule(ctx)
    _namespace_priority(ctx)
    # re-running a task of a sub-workflow puts every enclosing workflow and
    # parent task back to RUNNING (shared with C12.R3)
    from mstatic.rules import c12 as _c12
    r9 = ctx.rule('R9', 'a re-run inside a sub-workflow propagates to all '
                  'parents, whatever their state', 'PAIR/GD')
    _c12.recursive_rerun(ctx, r9)
    # accounting over a task's children reads the polymorphic collection:
    # a sub-workflow is a child like a plain action (lost hand-offs are
    # recovered by the integrity check for both)
    from mstatic.rules import c07 as _c07
    r10 = ctx.rule('R10', 'child accounting uses task_ex.executions, not a '
                   'type-specific collection (shared with C07.R7)', 'WMW')
    _c07.child_collections(ctx, r10)


def _run(ctx):
    prog, sd, cg = ctx.prog, ctx.sd, ctx.cg
    S = sd.consts
    completed = sd.pred_set('is_completed')

    # ---- R1 hand-off exactly once per terminal CAS ----------------------
    r1 = ctx.rule('R1', 'each terminal setter hands the result to the '
                  'parent on the successful-CAS path, post-commit', 'PAIR+GD')
    for name in ('_succeed_workflow', '_fail_workflow', '_cancel_workflow'):
        f = prog.func(WF + '.' + name)
        cfg = ctx.cfg(f)
        cas = U.calls_in(cfg, 'set_state')
        snd = U.calls_in(cfg, '_send_result_to_parent_workflow')
        if len(cas) != 1:
            raise AnalysisError('C09.R1: %s has %d set_state calls'
                                % (name, len(cas)))
        r1.check(len(snd) == 1, ctx.construct(f, extra='one hand-off'),
                 '%s hands the result to the parent %d time(s)'
                 % (name, len(snd)), ctx.loc(f))
        for n, c in snd:
            r1.check(c03._cas_success_guard(cfg, n, cas[0][0]),
                     ctx.construct(f, extra='after successful CAS'),
                     'hand-off is not on the success edge of the CAS (a '
                     'loser of the race would report to the parent too)',
                     ctx.loc(f, c))
            g = U.polarity_guard(
                cfg, n, lambda t: norm(t) == 'self.wf_ex.task_execution_id')
            r1.check(g is not None and g[1] is True,
                     ctx.construct(f, extra='only sub-workflows'),
                     'hand-off is not limited to executions with a parent '
                     'task', ctx.loc(f, c))
        # the winner always hands off: from the CAS success edge every
        # normal path of a sub-workflow passes the hand-off
        IN, keys = sd.analyze(cfg, f, [('self.wf_ex.task_execution_id',
                                        (None, OBJ))], kill=lambda c: (),
                              block={n.id for n, _c in snd})
        exits = {v[0] for v in IN[cfg.exit.id]}
        # exits reachable with a parent id while skipping the hand-off must
        # be the loser / already-finished returns (before the CAS succeeded)
        ok = True
        if OBJ in exits:
            for x in cfg.nodes:
                if x.kind == 'stmt' and isinstance(x.ast, ast.Return) and \
                        IN[x.id]:
                    if c03._cas_success_guard(cfg, x, cas[0][0]):
                        ok = False
            blocked = {n.id for n, _c in snd}
            last = [p for p, k in cfg.exit.pred if k != 'return' and
                    IN[p.id] and p.id not in blocked]
            for p in last:
                if c03._cas_success_guard(cfg, p, cas[0][0]) and \
                        OBJ in {v[0] for v in IN[p.id]}:
                    ok = False
        r1.check(ok, ctx.construct(f, extra='winner always hands off'),
                 'a path after the successful CAS of a sub-workflow leaves '
                 '%s without handing the result to the parent (parent task '
                 'stays RUNNING)' % name, ctx.loc(f))
    sr = prog.func(WF + '._send_result_to_parent_workflow')
    cfg = ctx.cfg(sr)
    IN, keys = sd.analyze(cfg, sr, [('self.wf_ex.state', sd.state_domain)],
                          kill=lambda c: ())
    reg = U.calls_in(cfg, 'register_operation')
    if not reg:
        raise AnalysisError('C09.R1: post-commit registration lost')
    vals = sd.values_at(IN, keys, reg[0][0], 'self.wf_ex.state')
    r1.check(vals == {S['SUCCESS'], S['ERROR'], S['CANCELLED']},
             ctx.construct(sr, extra='covers the three final states'),
             'result is sent for workflow states %s' % sorted(map(str, vals)),
             ctx.loc(sr))
    site = [s for s in cg.posttx_sites if s[0] == sr.qname]
    r1.check(bool(site) and site[0][2] is False,
             ctx.construct(sr, extra='post-commit'),
             'the result is not sent as a post-commit (non transactional) '
             'operation', ctx.loc(sr))
    inner = prog.funcs.get(sr.qname + '.<locals>._send_result')
    ok = False
    if inner is not None:
        for n in own_nodes(inner.node):
            if isinstance(n, ast.Call) and \
                    U.call_name(n) == 'on_action_complete':
                wa = U.kwarg(n, 'wf_action')
                ok = wa is not None and norm(wa) == 'True' and \
                    norm(n.args[0]) == 'self.wf_ex.id'
    r1.check(ok, ctx.construct(sr, extra='wf_action=True'),
             'the parent is not notified through '
             'on_action_complete(<sub-workflow id>, result, wf_action=True)',
             ctx.loc(sr))
    # cancel flag only for CANCELLED
    for n in own_nodes(sr.node):
        if isinstance(n, ast.Call) and U.call_name(n) == 'Result' and \
                U.kwarg(n, 'cancel') is not None:
            cn = cfg.node_of(n)
            v = sd.values_at(IN, keys, cn, 'self.wf_ex.state')
            r1.check(v == {S['CANCELLED']}, ctx.construct(sr, n),
                     'cancel=True result built for states %s'
                     % sorted(map(str, v)), ctx.loc(sr, n))

    # ---- R2 parent loads the child output -----------------------------------
    r2 = ctx.rule('R2', 'wf_action completions rebuild the result from the '
                  'stored sub-workflow output', 'GD')
    oc = prog.func(ENG + '.on_action_complete')
    cfg = ctx.cfg(oc)
    IN, keys = sd.analyze(cfg, oc, [('wf_action', (False, True)),
                                    ('result', (None, OBJ))],
                          kill=lambda c: ())
    loads = U.calls_in(cfg, 'get_workflow_execution')
    loada = U.calls_in(cfg, 'get_action_execution')
    ok = bool(loads) and bool(loada) and \
        {v[0] for v in IN[loads[0][0].id]} == {True} and \
        {v[0] for v in IN[loada[0][0].id]} == {False}
    r2.check(ok, ctx.construct(oc, extra='loads the right model'),
             'wf_action does not select the workflow-execution lookup',
             ctx.loc(oc))
    rb = [n for n in own_nodes(oc.node) if isinstance(n, ast.Assign) and
          dotted(n.targets[0]) == 'result' and
          'action_ex.output' in norm(n.value)]
    okr = False
    for n in rb:
        sn = cfg.stmt_node(n)
        vs = IN[sn.id]
        okr = bool(vs) and all(v[0] is True and v[1] is None for v in vs)
    r2.check(okr, ctx.construct(oc, extra='result from stored output'),
             'a missing result of a sub-workflow is not rebuilt from its '
             'stored output', ctx.loc(oc))

    # ---- R3 inheritance ---------------------------------------------------------
    r3 = ctx.rule('R3', 'root id, parent task, index, namespace and '
                  'undeclared input are propagated with agreeing keys',
                  'AGREE+dataflow')
    sc = prog.func(WA + '.schedule')
    wp = None
    for n in own_nodes(sc.node):
        if isinstance(n, ast.Assign) and dotted(n.targets[0]) == 'wf_params' \
                and isinstance(n.value, ast.Dict):
            wp = n.value
    if wp is None:
        raise AnalysisError('C09.R3: wf_params dict lost')
    d = {k.value: norm(v) for k, v in zip(wp.keys, wp.values)
         if isinstance(k, ast.Constant)}
    r3.check(d.get('root_execution_id') == 'root_execution_id' and any(
        isinstance(n, ast.Assign) and
        dotted(n.targets[0]) == 'root_execution_id' and
        norm(n.value) == 'parent_wf_ex.root_execution_id or parent_wf_ex.id'
        for n in own_nodes(sc.node)),
        ctx.construct(sc, extra='root_execution_id'),
        'root_execution_id is not "parent root or parent id"', ctx.loc(sc))
    r3.check(d.get('task_execution_id') == 'self.task_ex.id',
             ctx.construct(sc, extra='task_execution_id'),
             'sub-workflow is not linked to the parent task', ctx.loc(sc))
    r3.check(d.get('index') == 'index', ctx.construct(sc, extra='index'),
             'item index is not propagated', ctx.loc(sc))
    r3.check(d.get('namespace') == "parent_wf_ex.params['namespace']",
             ctx.construct(sc, extra='namespace'),
             "the caller's namespace is not propagated", ctx.loc(sc))
    ce = prog.func(WF + '._create_execution')
    for key in ('task_execution_id', 'root_execution_id', 'index'):
        r3.check(U.reads_key(ce.node, key),
                 ctx.construct(ce, extra='reads ' + key),
                 'execution creation no longer reads params[%r]' % key,
                 ctx.loc(ce))
    # the engine entry point keeps the namespace the caller put into the
    # parameters: the namespace *of the definition* (the positional
    # argument, '' for a definition in the default namespace) replaces it
    # only when it names a namespace
    from mstatic.rules import dt as _dt
    es = prog.func('mistral.engine.default_engine.DefaultEngine.'
                   'start_workflow')
    ns = 'wf_namespace'
    if ns not in es.params:
        raise AnalysisError('C09.R3: DefaultEngine.start_workflow lost its '
                            'wf_namespace parameter')
    tt = _dt.Table(ctx, es, [(ns, (None, '', 'ns'))])
    sets = [n for n in tt.cfg.nodes if n.kind == 'stmt' and
            isinstance(n.ast, ast.Assign) and
            norm(n.ast.targets[0]) == "params['namespace']"]
    okn = len(sets) == 1 and norm(sets[0].ast.value) == ns and \
        tt.inputs_at(sets[0]) == {('ns',)}
    r3.check(okn, ctx.construct(es, extra="caller's namespace kept"),
             "params['namespace'] (the caller's namespace, which every "
             'descendant execution records) is replaced by the namespace of '
             'the definition also when that is empty / absent (%s)'
             % sorted(map(str, tt.inputs_at(sets[0]))) if sets else '',
             ctx.loc(es))
    # undeclared input -> params (assignment present under the test)
    loop = [n for n in own_nodes(sc.node) if isinstance(n, ast.For) and
            'input_dict.items()' in norm(n.iter)]
    ok = False
    scfg = ctx.cfg(sc)
    for lp in loop:
        if not (isinstance(lp.target, ast.Tuple) and
                len(lp.target.elts) == 2 and
                all(isinstance(e, ast.Name) for e in lp.target.elts)):
            continue
        kk, vv = lp.target.elts[0].id, lp.target.elts[1].id
        sets = [s_ for s_ in ast.walk(lp) if isinstance(s_, ast.Assign) and
                norm(s_.targets[0]) == 'wf_params[%s]' % kk and
                norm(s_.value) == vv]
        dels = [s_ for s_ in ast.walk(lp) if isinstance(s_, ast.Delete) and
                [norm(t) for t in s_.targets] == ['input_dict[%s]' % kk]]
        if len(sets) == 1 and len(dels) == 1:
            # moved exactly when the child does not declare the key
            ok = all(
                U.guarded(scfg, scfg.stmt_node(x),
                          '%s in wf_spec.get_input()' % kk, False) and
                U.only_guards(scfg, scfg.stmt_node(x), [
                    ('%s in wf_spec.get_input()' % kk, False)])
                for x in sets + dels)
    r3.check(ok, ctx.construct(sc, extra='undeclared input -> params'),
             'input keys not declared by the child are not moved into the '
             'execution parameters (dropped or left in the input)',
             ctx.loc(sc))
    # both start paths pass input_dict and wf_params
    starts = [n for n in own_nodes(sc.node) if isinstance(n, ast.Call) and
              U.call_name(n) == 'start_workflow']
    inner = prog.funcs.get(sc.qname + '.<locals>._start_subworkflow')
    if inner is not None:
        starts += [n for n in own_nodes(inner.node)
                   if isinstance(n, ast.Call) and
                   U.call_name(n) == 'start_workflow']
    ok = len(starts) == 2 and all(
        any(dotted(a) == 'input_dict' for a in c.args) and
        ('wf_params' in norm(c, 400)) for c in starts)
    r3.check(ok, ctx.construct(sc, extra='both start paths'),
             'a start path does not pass input_dict and wf_params',
             ctx.loc(sc))
    # the two paths are alternatives for the same request: they agree on
    # the definition, namespace, execution id and input (the
    # id is None on both: every start - a retry, a rerun, another item -
    # creates a NEW child; a derived id makes the second start find the
    # finished first child and create nothing)
    if len(starts) == 2:
        # (the fifth, the description text, is free to differ)
        a5 = [[norm(x) for x in c.args[:4]] for c in starts]
        r3.check(a5[0] == a5[1] and len(a5[0]) == 4,
                 ctx.construct(sc, extra='start paths agree'),
                 'the direct and the RPC start of a sub-workflow differ in '
                 'definition / namespace / execution id / input: %s / %s'
                 % (a5[0], a5[1]),
                 ctx.loc(sc))
        r3.check(all(len(c.args) > 2 and (
                     (isinstance(c.args[2], ast.Constant) and
                      c.args[2].value is None) or
                     (isinstance(c.args[2], ast.Call) and
                      U.call_name(c.args[2]) in ('generate_unicode_uuid',
                                                 'uuid4')))
                     for c in starts),
                 ctx.construct(sc, extra='fresh child per start'),
                 'a sub-workflow is started with a chosen execution id: a '
                 'second start of the same task (retry, rerun) collides '
                 'with the first child and starts nothing', ctx.loc(sc))

    # the RPC path carries the same arguments as the in-process path
    shared.rpc_client_payload_as_given(ctx, r3)

    # ---- R4 environment of the root execution ----------------------------------
    r5 = ctx.rule('R5', 'a sub-workflow counts as finished for its parent '
                  'exactly while it is in a completed state', 'GD+PAIR')
    shared.accepted_tracks_completion(ctx, r5)

    r4 = ctx.rule('R4', 'expressions are evaluated against the root '
                  'execution\'s environment', 'GD')
    ge = prog.func('mistral.workflow.data_flow.get_workflow_environment_dict')
    cfg = ctx.cfg(ge)
    rec = [(n, c) for n, c in U.calls_in(cfg,
                                         'get_workflow_environment_dict')]
    ok = False
    for n, c in rec:
        g = U.polarity_guard(cfg, n,
                             lambda t: norm(t) == 'wf_ex.root_execution_id')
        ok = g is not None and g[1] is True and \
            norm(c.args[0]) == 'wf_ex.root_execution' and \
            isinstance(n.ast, ast.Return)
    r4.check(ok, ctx.construct(ge), 'a sub-workflow does not delegate the '
             'environment lookup to its root execution', ctx.loc(ge))
    # ... whenever it has a root, whatever it carries itself (an env passed
    # down as an undeclared input or set by a rerun must not shadow the root's)
    for n, c in rec:
        facts = sorted((norm(a), t) for a, t in U.guard_atoms(cfg, n))
        r4.check(facts == [('wf_ex', True), ('wf_ex.root_execution_id', True)],
                 ctx.construct(ge, extra='delegates whenever there is a '
                               'root'),
                 'the delegation to the root execution is additionally '
                 'conditioned (%s): a descendant that carries an env of its '
                 'own evaluates against that one' % facts, ctx.loc(ge, c))
    own = [x for x in cfg.nodes if x.kind == 'stmt' and
           isinstance(x.ast, ast.Return) and
           U.phas(x.ast.value, "{'__env': ___}")]
    for x in own:
        facts = sorted((norm(a), t) for a, t in U.guard_atoms(cfg, x))
        r4.check(('wf_ex.root_execution_id', False) in facts,
                 ctx.construct(ge, extra='own env only for a root'),
                 'an execution that has a root answers with its own env',
                 ctx.loc(ge, x.ast))

    # ---- R6 the post-commit queue that carries the hand-off -------------------
    r6 = ctx.rule('R6', 'operations queued for after the commit (the '
                  'child -> parent result among them) run exactly when the '
                  'transaction that queued them returned normally',
                  'GD/PAIR')
    from mstatic.rules import txqueue
    txqueue.queue_shape(ctx, r6)


def _resolution_rule(ctx):
    """Sub-workflow name resolution: workbook-relative name first (only when
    the parent belongs to a workbook), then the plain name, both in the
    caller's namespace; an error when neither exists."""
    from mstatic.rules import dt
    from mstatic.statedom import OBJ
    prog = ctx.prog
    r7 = ctx.rule('R7', 'a sub-workflow name is resolved workbook-relative '
                  'first, then globally, in the caller\'s namespace',
                  'DT')
    f = prog.func('mistral.engine.utils.resolve_workflow_definition')
    P = f.params
    cfg = ctx.cfg(f)
    loads = [(n, c) for n, c in cfg.calls(
        lambda c: U.call_name(c) == 'load_workflow_definition')]
    cmpn = [x for x in own_nodes(f.node) if isinstance(x, ast.Compare) and
            len(x.ops) == 1 and isinstance(x.ops[0], (ast.Eq, ast.NotEq)) and
            {norm(x.left), norm(x.comparators[0])} == {P[0], P[1]}]
    if len(loads) != 2 or len(cmpn) != 1:
        raise AnalysisError('C09.R7: resolve_workflow_definition shape')
    kc = dt.text(cmpn[0])
    in_wb_when = isinstance(cmpn[0].ops[0], ast.NotEq)
    rel = [c for _n, c in loads if norm(c.args[0]) != P[3]]
    glob = [c for _n, c in loads if norm(c.args[0]) == P[3]]
    if len(rel) != 1 or len(glob) != 1:
        raise AnalysisError('C09.R7: relative / global lookups')
    krel, kglob = dt.text(rel[0]), dt.text(glob[0])
    # the result variable
    res = [dotted(x.targets[0]) for x in own_nodes(f.node)
           if isinstance(x, ast.Assign) and x.value is glob[0]]
    if len(res) != 1:
        raise AnalysisError('C09.R7: result variable')
    res = res[0]
    t = dt.Table(ctx, f, [(kc, (True, False)), (krel, (None, OBJ)),
                          (kglob, (None, OBJ))],
                 extra_vars=[(res, (None, OBJ))])

    def in_wb(e):
        return e[kc] if in_wb_when else (not e[kc])
    rn = [n for n, c in loads if c is rel[0]][0]
    gn = [n for n, c in loads if c is glob[0]][0]
    t.check_exact(r7, rn, in_wb, 'the workbook-relative name is looked up',
                  'relative lookup for workbook workflows')
    t.check_exact(r7, gn, lambda e: not in_wb(e) or e[krel] is None,
                  'the plain name is looked up',
                  'global lookup when the relative one found nothing')
    raises = t.stmt_nodes(lambda a: isinstance(a, ast.Raise))
    for n in raises:
        t.check_exact(r7, n, lambda e: (not in_wb(e) or e[krel] is None) and
                      e[kglob] is None,
                      'the resolution fails', 'error only when neither exists')
    rets = t.stmt_nodes(lambda a: isinstance(a, ast.Return))
    okv = bool(rets)
    for n in rets:
        for v in t.full_at(n):
            e = t.env(v)
            want = e[krel] if (in_wb(e) and e[krel] is not None) \
                else e[kglob]
            if t.ev(n.ast.value, v) != want or want is None:
                okv = False
    r7.check(okv, ctx.construct(f, extra='returns what was found'),
             'the definition returned is not the workbook-relative one when '
             'it exists and the global one otherwise', ctx.loc(f))
    # both lookups in the caller's namespace; the relative name is
    # "<workbook>.<name>"
    r7.check(all(len(c.args) >= 2 and norm(c.args[1]) == P[2]
                 for _n, c in loads),
             ctx.construct(f, extra='namespace passed to both lookups'),
             'a lookup ignores the namespace of the caller', ctx.loc(f))
    full = U.canon_expr(f.node, rel[0].args[0])
    r7.check(U.phas(full, "'%s.%s' % (__wb, " + P[3] + ")"),
             ctx.construct(f, extra='relative name is <workbook>.<name>'),
             'the workbook-relative name is not "<workbook>.<child name>"',
             ctx.loc(f, rel[0]))
    # the workbook name is what is left of the parent's full name once the
    # parent's own (spec) name is taken off: it depends on both
    wbs = U.pfind(full, "'%s.%s' % (__wb, " + P[3] + ")")
    dep = set()
    for _m, b in wbs:
        dep |= U.names_in(b['__wb'])
    r7.check({P[0], P[1]} <= dep,
             ctx.construct(f, extra='workbook = parent name minus parent '
                           'spec name'),
             'the workbook name is derived from %s only: for a workbook '
             'whose name contains a dot (or a parent name with more '
             'segments) the relative candidate is wrong and resolution '
             'silently falls through to a global workflow of the same short '
             'name' % sorted(dep), ctx.loc(f, rel[0]))
    t.undecided(r7, 'whether the parent belongs to a workbook and what the '
                'two lookups found')


def _namespace_priority(ctx):
    """load_workflow_definition looks in [caller's namespace, default ''] and
    the caller's namespace wins: ordered by namespace DESCENDING ('' sorts
    first ascending), first row taken."""
    from mstatic import qshape
    prog = ctx.prog
    r8 = ctx.rule('R8', 'a workflow of the caller\'s namespace takes '
                  'precedence over a same-named one in the default '
                  'namespace', 'QSHAPE')
    f = prog.func('mistral.db.v2.sqlalchemy.api.load_workflow_definition')
    P = f.params
    src = U.canon_expr(f.node, ast.Module(body=[], type_ignores=[])) \
        if False else None
    full = [U.canon_expr(f.node, x.value, 4) for x in own_nodes(f.node)
            if isinstance(x, ast.Return) and x.value is not None]
    defs = {}
    for x in own_nodes(f.node):
        if isinstance(x, ast.Assign) and isinstance(x.targets[0], ast.Name):
            defs.setdefault(x.targets[0].id, []).append(x.value)
    txt = ' '.join(norm(v, 400) for vs in defs.values() for v in vs) + \
        ' '.join(norm(v, 400) for v in full)
    r8.check('.namespace.in_([%s, \'\'])' % P[1] in txt or
             '.namespace.in_([\'\', %s])' % P[1] in txt,
             ctx.construct(f, extra='caller namespace or default'),
             'the lookup is not restricted to the caller\'s namespace and '
             'the default one', ctx.loc(f))
    r8.check('.name == %s' % P[0] in txt,
             ctx.construct(f, extra='by name'),
             'the lookup does not filter on the workflow name', ctx.loc(f))
    obs = [c for c in own_nodes(f.node) if isinstance(c, ast.Call) and
           U.call_name(c) == 'order_by']
    ok = False
    for c in obs:
        a = U.canon_expr(f.node, c.args[0], 4) if c.args else None
        if a is not None and isinstance(a, ast.Call) and \
                U.call_name(a) == 'desc' and \
                norm(a.func.value).endswith('.namespace'):
            cfg = ctx.cfg(f)
            n = cfg.node_of(c)
            # applied on every path to the return (an always-true guard
            # such as `if order_by is not None` is tolerated)
            facts = [(norm(U.canon_expr(f.node, a_)), t)
                     for a_, t in U.guard_atoms(cfg, n)]
            ok = all('order_by' in x[0] or '.desc()' in x[0]
                     for x in facts)
    firsts = [c for c in own_nodes(f.node) if isinstance(c, ast.Call) and
              U.call_name(c) == 'first']
    r8.check(ok and bool(firsts),
             ctx.construct(f, extra='namespace descending, first row'),
             'the candidates are not ordered by namespace descending before '
             'the first one is taken: the default-namespace definition wins '
             'and the child runs (and records) the wrong namespace',
             ctx.loc(f))
