"""C11 - stop and cancel end the whole execution tree; late results change
nothing."""
import ast

from mstatic.core import AnalysisError, dotted, norm, own_nodes
from mstatic.rules import util as U
from mstatic.rules import c03

WF = 'mistral.engine.workflows.Workflow'
WH = 'mistral.engine.workflow_handler'
TH = 'mistral.engine.task_handler'

# (function, state access path, effect call names): the effect must be
# unreachable for completed workflow states
QUIESCENCE = [
    ('mistral.engine.dispatcher._process_commands', 'wf_ex.state',
     ('create_task', 'skip_task', 'set_workflow_state')),
    (TH + '._check_affected_tasks', 'wf_ex.state',
     ('register_operation', 'find_indirectly_affected_task_executions')),
    (TH + '._refresh_task_state', 'wf_ex.state',
     ('continue_task', 'complete_task')),
    (WH + '.check_and_complete', 'wf_ex.state', ('check_and_complete',)),
    (WF + '.check_and_complete', 'self.wf_ex.state',
     ('_succeed_workflow', '_fail_workflow', '_cancel_workflow')),
    ('mistral.workflow.base.WorkflowController.continue_workflow',
     'self.wf_ex.state', ('_find_next_commands',)),
    ('mistral.workflow.base.WorkflowController.rerun_tasks',
     'self.wf_ex.state', ('RunExistingTask',)),
    ('mistral.workflow.base.WorkflowController.skip_tasks',
     'self.wf_ex.state', ('SkipTask',)),
    (WH + '._check_and_fix_integrity', 'wf_ex.state',
     ('schedule_on_action_complete', '_schedule_check_and_fix_integrity')),
]

PURE = {'isinstance', 'is_completed', 'is_paused', 'len', 'str', 'debug',
        'info', 'warning', 'get_controller',
        'get_workflow_spec_by_execution_id', 'is_paused_or_completed',
        'load_workflow_execution', 'delta_seconds', 'utcnow', 'all', 'max',
        'get_task_executions', 'get_incomplete_task_executions_count',
        'get_system_scheduler', 'SchedulerJob', '_get_integrity_check_key',
        'named_lock', 'load_task_execution', 'get_logical_task_state'}


def prog_funcs(ctx):
    return [(q, f) for q, f in ctx.prog.funcs.items()
            if f.module.startswith('mistral.engine.')]


def run(ctx):
    _run(ctx)
    from mstatic.rules import completion
    r7 = ctx.rule('R7', 'a cancelled with-items item ends the task: no '
                  'further item is started below a cancelled workflow '
                  '(shared with C07.R5/R8)', 'GD')
    from mstatic.rules import shared as _sh
    _sh.cancelled_item_ends_with_items(ctx, r7)
    r6 = ctx.rule('R6', 'the completion verdict: nothing for a finished or '
                  'paused workflow or while tasks are pending; CANCELLED '
                  'before SUCCESS before ERROR (shared with C01.R17)', 'DT')
    completion.check_and_complete_table(ctx, r6)
    r10 = ctx.rule('R10', 'the message stored as the result of a failed / '
                   'cancelled workflow is limited in the unit the limit is '
                   'configured in', 'AGREE (units)')
    n_c = 0
    for q, f in sorted(prog_funcs(ctx)):
        for c in own_nodes(f.node):
            if isinstance(c, ast.Call) and U.call_name(c) in (
                    'cut_by_kb', 'cut_by_char') and len(c.args) == 2:
                n_c += 1
                # a value in KB is a `*_kb` option itself; anything
                # computed from it (get_number_of_chars_from_kilobytes,
                # differences of lengths) is a number of characters
                kb = (dotted(U.canon_expr(f.node, c.args[1])) or
                      '').endswith('_kb')
                r10.check(kb == (U.call_name(c) == 'cut_by_kb'),
                          ctx.construct(f, c, extra='limit and cut agree'),
                          '%s is applied to %s: a limit configured in KB '
                          'cuts the text by characters (or the reverse) - '
                          'the message of a stopped workflow is truncated '
                          'to a fraction of what is allowed'
                          % (U.call_name(c), norm(c.args[1], 60)),
                          ctx.loc(f, c))
    if n_c < 3:
        raise AnalysisError('C11.R10: cut_by_* call sites: %d' % n_c)
    r9 = ctx.rule('R9', 'stop / cancel cascade over sub-workflows finds '
                  'them for an administrator acting on another project\'s '
                  'execution (shared with C10.R8)', 'dataflow')
    _sh.admin_context_lists_all_projects(ctx, r9)
    r8 = ctx.rule('R8', 'the operations queued for after the transaction '
                  '(reports of cancelled sub-workflows to their parents '
                  'among them) are run one by one: a failing one does not '
                  'drop the rest', 'GD (handlers)')
    _sh.batch_items_isolated(
        ctx, r8, 'mistral.engine.post_tx_queue._process_queue',
        lambda c: isinstance(c.func, ast.Name) and c.func.id == 'func',
        'post-transaction operations', under=('in_tx', False))


def _run(ctx):
    prog, sd = ctx.prog, ctx.sd
    S = sd.consts
    completed = sd.pred_set('is_completed')

    # ---- R1 quiescence guards -------------------------------------------
    r1 = ctx.rule('R1', 'engine continuation points are unreachable for '
                  'finished workflows', 'GD/STATE')
    r1.floor(9)
    for q, key, effects in QUIESCENCE:
        f = prog.func(q)
        cfg = ctx.cfg(f)

        def kill(c, key=key):
            nm = U.call_name(c)
            if nm in PURE or nm in effects:
                return ()
            if nm in ('refresh', 'expire_all'):
                # refresh(task_ex) does not reload the workflow row of the
                # tracked path unless it names it
                arg = dotted(c.args[0]) if c.args else None
                if nm == 'expire_all' or (arg and key.startswith(arg)):
                    return (key,)
                return ()
            return ()
        # ghost: the rule asks for a dominating test on the state as it was
        # read in this function; re-reads (refresh/expire_all) between the
        # test and the effect are covered by the setters' own guards (R4)
        IN, keys = sd.analyze(cfg, f, [(key, sd.state_domain)], kill=kill,
                              ghost={key})
        found = 0
        for n, c in cfg.calls(lambda c: U.call_name(c) in effects):
            if q.endswith('workflow_handler.check_and_complete') and \
                    U.call_name(c) == 'check_and_complete' and \
                    not isinstance(c.func, ast.Attribute):
                continue
            found += 1
            vals = sd.values_at(IN, keys, n, key)
            bad = vals & completed
            r1.check(not bad, ctx.construct(f, extra=U.call_name(c)),
                     '%s reachable although the workflow is %s'
                     % (U.call_name(c), sorted(bad)), ctx.loc(f, c))
        if not found:
            raise AnalysisError('C11.R1: no effect %s found in %s'
                                % (effects, q))

    # ---- R2 stop recursion and dispatch -----------------------------------
    r2 = ctx.rule('R2', 'stop reaches the terminal setters and recurses '
                  'into unfinished sub-workflows exactly for CANCELLED',
                  'GD/EXH')
    sw = prog.func(WH + '.stop_workflow')
    cfg = ctx.cfg(sw)
    IN, keys = sd.analyze(cfg, sw, [('state', sd.state_domain),
                                    ('sub_wf_ex.state', sd.state_domain)],
                          kill=lambda c: ())
    rec = [(n, c) for n, c in U.calls_in(cfg, 'stop_workflow')]
    own = [(n, c) for n, c in cfg.calls(
        lambda c: U.call_name(c) == 'stop' and
        isinstance(c.func, ast.Attribute))]
    if not own:
        raise AnalysisError('C11.R2: stop_workflow structure lost')
    if not rec:
        # there is no "all descendants" column (root_execution_id names the
        # top of the tree, not the execution being cancelled): the only
        # complete walk is children of this execution's tasks, recursively
        r2.fail(ctx.construct(sw, extra='recursion into sub-workflows'),
                'stop_workflow no longer calls itself for the sub-workflows '
                'of its tasks: cancelling an execution in the middle of a '
                'tree leaves everything below it running', ctx.loc(sw))
        return
    for n, c in rec:
        vals = {v[0] for v in IN[n.id]}
        subs = {v[1] for v in IN[n.id]}
        r2.check(vals == {S['CANCELLED']}, ctx.construct(sw, extra='recurse '
                 'only for CANCELLED'),
                 'sub-workflows are stopped for requested states %s'
                 % sorted(map(str, vals)), ctx.loc(sw, c))
        r2.check(not (subs & completed),
                 ctx.construct(sw, extra='unfinished sub-workflows only'),
                 'finished sub-workflows are stopped again', ctx.loc(sw, c))
        r2.check(any(cfg.paths_between(o, n) for o, _c in own) and
                 not any(cfg.paths_between(n, o) for o, _c in own),
                 ctx.construct(sw, extra='workflow first'),
                 'the workflow itself is not stopped before its '
                 'sub-workflows', ctx.loc(sw, c))
    from mstatic.rules import shared
    shared.subworkflow_recursion_unrestricted(ctx, r2, WH + '.stop_workflow',
                                              'stop_workflow')
    shared.rearrange_tail(ctx, r2)
    # no early exit between wf.stop and the recursion for CANCELLED
    on, _oc = own[0]
    test_nodes = [x for x in cfg.nodes if x.kind == 'test' and
                  'CANCELLED' in norm(x.ast)]
    r2.check(bool(test_nodes) and cfg.must_pass(on, test_nodes + [
        x for x in cfg.nodes if x.kind == 'raise_exit']),
        ctx.construct(sw, extra='cancel test reached'),
        'a path from wf.stop leaves stop_workflow without testing for '
        'CANCELLED', ctx.loc(sw))
    st = prog.func(WF + '.stop')
    cfg = ctx.cfg(st)
    INs, ks = sd.analyze(cfg, st, [('state', sd.state_domain)],
                         kill=lambda c: ())
    for name, tgt in (('_succeed_workflow', S['SUCCESS']),
                      ('_fail_workflow', S['ERROR']),
                      ('_cancel_workflow', S['CANCELLED'])):
        got = U.calls_in(cfg, name)
        if not got:
            r2.fail(ctx.construct(st, extra=name), 'Workflow.stop no longer '
                    'dispatches %s' % tgt, ctx.loc(st))
            continue
        for n, c in got:
            vals = sd.values_at(INs, ks, n, 'state')
            r2.check(vals == {tgt}, ctx.construct(st, extra=name),
                     '%s reached for requested states %s'
                     % (name, sorted(map(str, vals))), ctx.loc(st, c))
    sws = prog.func(WH + '.set_workflow_state')
    cfg = ctx.cfg(sws)
    INw, kw = sd.analyze(cfg, sws, [('state', sd.state_domain)],
                         kill=lambda c: ())
    for name, allowed in (('stop_workflow', completed),
                          ('pause_workflow', {S['PAUSED']})):
        for n, c in U.calls_in(cfg, name):
            vals = sd.values_at(INw, kw, n, 'state')
            r2.check(vals <= allowed and vals,
                     ctx.construct(sws, extra=name),
                     '%s reached for %s' % (name, sorted(map(str, vals))),
                     ctx.loc(sws, c))
            need = {S['PAUSED']} if name == 'pause_workflow' else \
                {S['SUCCESS'], S['ERROR'], S['CANCELLED']}
            r2.check(need <= vals, ctx.construct(sws, extra=name +
                                                 ' for every such state'),
                     '%s is not reached for requested state(s) %s (the '
                     'engine command / API call would be refused)'
                     % (name, sorted(need - vals)), ctx.loc(sws, c))
    other = [x for x in cfg.nodes if x.kind == 'stmt' and
             isinstance(x.ast, ast.Raise)]
    r2.check(any(not (sd.values_at(INw, kw, x, 'state') &
                      (completed | {S['PAUSED']})) for x in other),
             ctx.construct(sws, extra='other states raise'),
             'unsupported target states do not raise', ctx.loc(sws))

    # ---- R3 cancellation decides first ------------------------------------
    r3 = ctx.rule('R3', 'any cancelled task makes the workflow CANCELLED',
                  'EXH')
    cc = prog.func(WF + '.check_and_complete')
    cfg = ctx.cfg(cc)
    canc = U.calls_in(cfg, '_cancel_workflow')
    succ = U.calls_in(cfg, '_succeed_workflow')
    fail = U.calls_in(cfg, '_fail_workflow')
    if not (canc and succ and fail):
        raise AnalysisError('C11.R3: check_and_complete setters lost')
    g = U.polarity_guard(cfg, canc[0][0],
                         lambda t: 'any_cancels' in norm(t))
    r3.check(g is not None and g[1] is True,
             ctx.construct(cc, extra='cancel under any_cancels()'),
             '_cancel_workflow is not under any_cancels()', ctx.loc(cc))
    for n, c in succ + fail:
        g = U.polarity_guard(cfg, n, lambda t: 'any_cancels' in norm(t))
        r3.check(g is not None and g[1] is False,
                 ctx.construct(cc, extra=U.call_name(c) + ' after cancel '
                               'test'),
                 '%s is reachable without the any_cancels() test being '
                 'false' % U.call_name(c), ctx.loc(cc, c))
    ac = prog.func('mistral.workflow.base.WorkflowController.any_cancels')
    r3.check(U.phas(ac.node, '___.get_task_executions_count('
                    'workflow_execution_id=self.wf_ex.id, '
                    'state=states.CANCELLED) > 0'),
             ctx.construct(ac), 'any_cancels no longer counts CANCELLED '
             'tasks of this execution', ctx.loc(ac))

    # ---- R4 hand-off once, finished workflows untouched --------------------
    r4 = ctx.rule('R4', 'terminal setters: effects on the CAS success edge '
                  'only (shared with C03.R7/C09.R1)', 'GD')
    c03.finished_workflows(ctx, r4, completed, S)
    from mstatic.rules import shared as _shc
    _shc.cas_primitive_reports_loss(ctx, r4)

    # ---- R5 a documented stop is not silently ignored ------------------------
    r5 = ctx.rule('R5', 'every documented move into a final state is '
                  'carried out by its setter (sibling cross-check)', 'STATE')
    key = 'self.wf_ex.state'
    for name, tgt in (('_succeed_workflow', S['SUCCESS']),
                      ('_fail_workflow', S['ERROR']),
                      ('_cancel_workflow', S['CANCELLED'])):
        f = prog.func(WF + '.' + name)
        cfg = ctx.cfg(f)
        n, c = U.calls_in(cfg, 'set_state')[0]
        pre = c03._pre_state_values(ctx, f, n, key)
        want = {a for a, bs in c03.DOCUMENTED.items() if tgt in bs}
        missing = want - pre
        r5.check(not missing, ctx.construct(f, extra='documented sources'),
                 'the setter returns without acting when the workflow is %s '
                 'although %s -> %s is a documented move (the request is '
                 'acknowledged but nothing happens)'
                 % (sorted(missing), sorted(missing), tgt), ctx.loc(f, c))
