"""C10 - pause creates no new tasks; resume continues."""
import ast

from mstatic.core import AnalysisError, dotted, norm, own_nodes
from mstatic.rules import util as U
from mstatic.rules import shared

WF = 'mistral.engine.workflows.Workflow'
TASK = 'mistral.engine.tasks.Task'
TH = 'mistral.engine.task_handler'
DISP = 'mistral.engine.dispatcher'

PURE_CALLS = {'isinstance', 'is_completed', 'is_paused', 'len', 'str',
              'debug', 'info', 'is_engine_command'}


def callers_by_name(prog, name, skip_modules=('mistral.db.',)):
    out = []
    for q, f in prog.funcs.items():
        if f.module.startswith(skip_modules):
            continue
        for n in own_nodes(f.node):
            if isinstance(n, ast.Call) and U.call_name(n) == name:
                out.append((f, n))
    return out


def run(ctx):
    _run(ctx)
    r5 = ctx.rule('R5', 'resume recomputes the commands of every completed '
                  'task that was not dispatched and restarts the tasks '
                  'left IDLE (shared with C01.R14)', 'DT + AGREE')
    from mstatic.rules import cmdcalc
    cmdcalc.next_commands(ctx, r5)
    r6 = ctx.rule('R6', 'a join refresh that fires while the workflow is '
                  'PAUSED still takes effect (it is never scheduled again)',
                  'COVER')
    from mstatic.rules import shared as _sh
    _sh.refresh_covers_unfinished(ctx, r6)
    r8 = ctx.rule('R8', 'the cascade over sub-workflows finds them for an '
                  'administrator acting on another project\'s execution '
                  '(shared with C11.R9)', 'dataflow')
    _sh.admin_context_lists_all_projects(ctx, r8)
    from mstatic.rules import completion
    r7 = ctx.rule('R7', 'the backlog is restored completely and emptied on '
                  'resume', 'DT')
    completion.backlog_poll(ctx, r7)


def _run(ctx):
    prog, sd = ctx.prog, ctx.sd
    S = sd.consts
    completed = sd.pred_set('is_completed')

    # ---- R1 no creation while paused -----------------------------------
    r1 = ctx.rule('R1', 'task executions are created only through the '
                  'dispatcher, never while the workflow is PAUSED or '
                  'finished', 'WMW-reach+GD')
    chain = [
        ('create_task_execution', {TASK + '._create_task_execution'}),
        ('_create_task_execution',
         {'mistral.engine.tasks.RegularTask.create_new', TASK + '.defer'}),
        ('create_new', {TH + '.create_task'}),
        ('defer', {'mistral.engine.tasks.RegularTask.create_new'}),
        ('create_task', {DISP + '._process_commands'}),
    ]
    for name, allowed in chain:
        cs = callers_by_name(prog, name)
        if not cs:
            raise AnalysisError('C10.R1: nobody calls %s' % name)
        for f, n in cs:
            r1.check(f.qname in allowed, ctx.construct(f, extra=name),
                     '%s called from outside the creation chain' % name,
                     ctx.loc(f, n))
    pc = prog.func(DISP + '._process_commands')
    cfg = ctx.cfg(pc)

    def kill(c):
        nm = U.call_name(c)
        return () if nm in PURE_CALLS else ('wf_ex.state',)
    IN, keys = sd.analyze(cfg, pc, [('wf_ex.state', sd.state_domain)],
                          kill=kill)
    sites = U.calls_in(cfg, 'create_task')
    if not sites:
        raise AnalysisError('C10.R1: create_task call lost')
    for n, c in sites:
        vals = sd.values_at(IN, keys, n, 'wf_ex.state')
        bad = vals & (completed | {S['PAUSED']})
        r1.check(not bad, ctx.construct(pc, c),
                 'task creation reachable while the workflow is %s'
                 % sorted(bad), ctx.loc(pc, c))
    # paused => saved to the backlog
    saves = U.calls_in(cfg, '_save_command_to_backlog')
    ok = False
    for n, c in saves:
        vals = sd.values_at(IN, keys, n, 'wf_ex.state')
        ok = ok or vals == {S['PAUSED']}
    r1.check(ok, ctx.construct(pc, extra='paused => backlog'),
             'commands arriving while PAUSED are not saved to the backlog',
             ctx.loc(pc))
    # skip / set-state commands obey the same guards
    for name in ('skip_task', 'set_workflow_state'):
        for n, c in U.calls_in(cfg, name):
            vals = sd.values_at(IN, keys, n, 'wf_ex.state')
            bad = vals & (completed | {S['PAUSED']})
            r1.check(not bad, ctx.construct(pc, c),
                     '%s reachable while the workflow is %s'
                     % (name, sorted(bad)), ctx.loc(pc, c))

    # ---- R2 Task.complete stops before dispatch when paused --------------
    r2 = ctx.rule('R2', 'Task.complete records routing decisions but does '
                  'not dispatch while the workflow is PAUSED', 'GD')
    tc = prog.func(TASK + '.complete')
    cfg = ctx.cfg(tc)

    def kill2(c):
        return ()
    IN, keys = sd.analyze(cfg, tc, [('self.wf_ex.state', sd.state_domain)],
                          kill=kill2)
    eff = []
    for t, st in U.attr_stores(tc.node):
        if norm(t) == 'self.task_ex.processed':
            eff.append((cfg.stmt_node(st), st))
    for name in ('register_workflow_completion_check',
                 'dispatch_workflow_commands'):
        got = U.calls_in(cfg, name)
        if not got:
            raise AnalysisError('C10.R2: %s lost in Task.complete' % name)
        eff += [(n, c) for n, c in got]
    if len(eff) < 3:
        raise AnalysisError('C10.R2: effects lost')
    for n, a in eff:
        vals = sd.values_at(IN, keys, n, 'self.wf_ex.state')
        r2.check(S['PAUSED'] not in vals, ctx.construct(tc, a),
                 'reachable while the workflow is PAUSED', ctx.loc(tc, a))
    shared.routing_recorded_before_pause(ctx, r2)

    # ---- R3 resume drains and continues -----------------------------------
    r3 = ctx.rule('R3', 'resume re-enters RUNNING, recomputes commands, '
                  'drains the backlog; pause/resume propagate', 'PAIR')
    rs = prog.func(WF + '.resume')
    cfg = ctx.cfg(rs)
    order = ['set_state', 'continue_workflow', '_continue_workflow']
    nodes = []
    for nm in order:
        got = U.calls_in(cfg, nm)
        if not got:
            raise AnalysisError('C10.R3: Workflow.resume no longer calls %s'
                                % nm)
        nodes.append(got[0][0])
    ok = cfg.must_pass(cfg.entry, [nodes[0]]) and \
        cfg.must_pass(nodes[0], [nodes[1]]) and \
        cfg.must_pass(nodes[1], [nodes[2]])
    r3.check(ok, ctx.construct(rs, extra='order'),
             'resume does not pass set_state -> continue_workflow -> '
             '_continue_workflow on every path', ctx.loc(rs))
    rh = prog.func('mistral.engine.workflow_handler.resume_workflow')
    rcfg = ctx.cfg(rh)
    INr, kr = sd.analyze(rcfg, rh, [('wf_ex.state', sd.state_domain)])
    n_res = 0
    for n, c in U.calls_in(rcfg, 'resume'):
        if isinstance(c.func, ast.Attribute) and dotted(c.func.value) == 'wf':
            n_res += 1
            vals = sd.values_at(INr, kr, n, 'wf_ex.state')
            need = {S['PAUSED'], S['IDLE']}
            r3.check(need <= vals, ctx.construct(rh, extra='resume admitted '
                                                 'for PAUSED and IDLE'),
                     'a workflow in %s is not resumed' % sorted(need - vals),
                     ctx.loc(rh, c))
    if not n_res:
        raise AnalysisError('C10.R3: resume_workflow no longer resumes')
    cw = prog.func(WF + '._continue_workflow')
    cfg = ctx.cfg(cw)
    outs = [n for n, c in U.calls_in(cfg, 'dispatch_workflow_commands')] + \
        [n for n, c in U.calls_in(cfg, 'check_and_complete')]
    r3.check(len(outs) >= 2 and cfg.must_pass(cfg.entry, outs),
             ctx.construct(cw, extra='dispatch or complete'),
             '_continue_workflow has a path that neither dispatches nor '
             'checks completion', ctx.loc(cw))
    # commands are filtered exactly once, dropping exactly the pause
    # commands (fail / succeed commands of tasks that completed while the
    # workflow was paused must survive the resume)
    flt = [x for x in own_nodes(cw.node)
           if isinstance(x, (ast.ListComp, ast.GeneratorExp)) and
           any(g.ifs for g in x.generators)]
    okf = len(flt) == 1 and len(flt[0].generators) == 1 and \
        len(flt[0].generators[0].ifs) == 1
    if okf:
        g = flt[0].generators[0]
        v = dotted(g.target)
        okf = dotted(flt[0].elt) == v and dotted(g.iter) == cw.params[1] \
            and U.phas(g.ifs[0], 'not isinstance(%s, '
                       'commands.PauseWorkflow)' % v) and \
            isinstance(g.ifs[0], ast.UnaryOp)
    r3.check(okf, ctx.construct(cw, extra='drop pause commands'),
             'resume does not drop exactly the pause commands from the '
             'recomputed command list', ctx.loc(cw))
    marks = [st for t, st in U.attr_stores(cw.node) if t.attr == 'processed']
    mcfg = ctx.cfg(cw)
    r3.check(bool(marks) and all(
        norm(st.value) == 'True' and
        U.guarded(mcfg, mcfg.stmt_node(st), 'states.is_completed('
                  '__t.state)', True) and
        U.guarded(mcfg, mcfg.stmt_node(st), '__t.processed', False)
        for st in marks), ctx.construct(cw, extra='mark processed'),
        'exactly the completed, not yet processed tasks are not what is '
        'marked processed on resume', ctx.loc(cw))
    for n, c in U.calls_in(cfg, 'check_and_complete'):
        r3.check(U.guarded(cfg, n, cw.params[1], False) and
                 U.guarded(cfg, n, 'self._get_backlog()', False),
                 ctx.construct(cw, extra='complete only when nothing to do'),
                 'resume goes straight to the completion check although '
                 'there are new or backlogged commands (they are dropped)',
                 ctx.loc(cw, c))
    bl = U.calls_in(cfg, '_get_backlog')
    r3.check(bool(bl), ctx.construct(cw, extra='backlog consulted'),
             'the backlog is not consulted when there are no new commands',
             ctx.loc(cw))
    dw = prog.func(DISP + '.dispatch_workflow_commands')
    calls = [n for n in own_nodes(dw.node) if isinstance(n, ast.Call) and
             U.call_name(n) == '_process_commands']
    calls.sort(key=lambda n: (n.lineno, n.col_offset))
    r3.check(len(calls) == 2 and
             '_poll_commands_from_backlog' in ast.unparse(calls[0]) and
             '_poll_commands_from_backlog' not in ast.unparse(calls[1]),
             ctx.construct(dw, extra='backlog first'),
             'backlog commands are not processed before new commands',
             ctx.loc(dw))
    pb = prog.func(DISP + '._poll_commands_from_backlog')
    r3.check(any(isinstance(n, ast.Call) and
                 U.call_name(n) == 'restore_command_from_dict'
                 for n in own_nodes(pb.node)) and
             any(isinstance(n, ast.Call) and U.call_name(n) == 'pop'
                 for n in own_nodes(pb.node)),
             ctx.construct(pb), 'backlog is not popped and restored',
             ctx.loc(pb))
    # pause handler: sub-workflows first, then the workflow
    ph = prog.func('mistral.engine.workflow_handler.pause_workflow')
    cfg = ctx.cfg(ph)
    rec = [n for n, c in U.calls_in(cfg, 'pause_workflow')]
    own = [n for n, c in cfg.calls(
        lambda c: U.call_name(c) == 'pause' and
        isinstance(c.func, ast.Attribute) and dotted(c.func.value) == 'wf')]
    ok = bool(rec) and bool(own) and not any(
        cfg.paths_between(o, r) for o in own for r in rec)
    r3.check(ok, ctx.construct(ph, extra='sub-workflows first'),
             'sub-workflows are not paused before the workflow itself',
             ctx.loc(ph))
    for r in rec:
        g = U.polarity_guard(cfg, r, lambda t: 'is_completed' in norm(t))
        r3.check(g is not None and
                 ((g[1] is False and not norm(g[0]).startswith('not ')) or
                  (g[1] is True and norm(g[0]).startswith('not '))),
                 ctx.construct(ph, extra='unfinished sub-workflows only'),
                 'recursion into sub-workflows is not limited to unfinished '
                 'ones', ctx.loc(ph))
    # upward propagation: a paused sub-workflow pauses its parent; a resumed
    # one resumes it unless another child is still paused
    au = prog.func(TH + '._on_action_update')
    acfg = ctx.cfg(au)
    pu = U.calls_in(acfg, 'pause_workflow')
    ru = U.calls_in(acfg, 'resume_workflow')
    if not pu or not ru:
        raise AnalysisError('C10.R3: _on_action_update lost pause/resume')
    for n, c in pu:
        r3.check(U.guarded(acfg, n, 'states.is_paused(action_ex.state)',
                           True) and len(U.guard_atoms(acfg, n)) <= 2,
                 ctx.construct(au, extra='paused child pauses the parent'),
                 'the parent workflow is not paused exactly when the '
                 'updated child execution is PAUSED', ctx.loc(au, c))
    for n, c in ru:
        loops = [x for x in acfg.nodes if x.kind == 'for' and
                 U.phas(x.ast.iter, '___.task_executions')]
        stop = [x for x in acfg.nodes if x.kind == 'stmt' and
                isinstance(x.ast, ast.Return) and
                U.guarded(acfg, x, 'states.is_paused(__t.state)', True) and
                U.guarded(acfg, x, 'states.is_running(action_ex.state)',
                          True)]
        r3.check(U.guarded(acfg, n, 'states.is_running(action_ex.state)',
                           True) and bool(loops) and bool(stop) and
                 any(acfg.dominates(lp, n) for lp in loops),
                 ctx.construct(au, extra='resumed child resumes the parent '
                               'unless a sibling is paused'),
                 'the parent workflow is not resumed exactly when the child '
                 'is RUNNING again and no other task is paused',
                 ctx.loc(au, c))
    shared.subworkflow_recursion_unrestricted(
        ctx, r3, 'mistral.engine.workflow_handler.pause_workflow',
        'pause_workflow')
    shared.subworkflow_recursion_unrestricted(
        ctx, r3, 'mistral.engine.workflow_handler.resume_workflow',
        'resume_workflow', own_states=('PAUSED', 'IDLE'))
    tu = prog.func(TASK + '.update')
    ucfg = ctx.cfg(tu)
    ss = [n for n, c in U.calls_in(ucfg, 'set_state')]
    if not ss:
        raise AnalysisError('C10.R3: Task.update no longer sets the state')
    keep = [x for x in ucfg.nodes if x.kind == 'stmt' and
            isinstance(x.ast, ast.Return) and
            U.guarded(ucfg, x, 'state == states.RUNNING', True) and
            U.guarded(ucfg, x, 'states.PAUSED in child_states', True)]
    cs = [x for x in own_nodes(tu.node) if isinstance(x, ast.Assign) and
          dotted(x.targets[0]) == 'child_states']
    r3.check(bool(keep) and all(
        not (U.guarded(ucfg, n, 'state == states.RUNNING', True) and
             U.guarded(ucfg, n, 'states.PAUSED in child_states', True))
        for n in ss) and len(cs) == 1 and
        U.phas(cs[0].value, 'self.task_ex.executions'),
        ctx.construct(tu, extra='stays paused while a child is paused'),
        'a task can go back to RUNNING while one of its child executions '
        'is still PAUSED', ctx.loc(tu))
    INu, ku = sd.analyze(ucfg, tu, [('self.task_ex.state', sd.state_domain),
                                    ('state', sd.state_domain)],
                         kill=lambda c: ())
    for n in ss:
        pairs = {(v[0], v[1]) for v in INu[n.id]}
        need = {(S['RUNNING'], S['PAUSED']), (S['PAUSED'], S['RUNNING'])}
        r3.check(need <= pairs, ctx.construct(tu, extra='RUNNING <-> PAUSED '
                                              'admitted'),
                 'Task.update does not reach set_state for the moves %s (a '
                 'paused / resumed sub-workflow would not pause / resume '
                 'its parent task)' % sorted(need - pairs), ctx.loc(tu))
    for name in ('pause', 'resume'):
        f = prog.func(WF + '.' + name)
        cfg = ctx.cfg(f)
        got = U.calls_in(cfg, 'schedule_on_action_update')
        ok = False
        for n, c in got:
            g = U.polarity_guard(cfg, n,
                                 lambda t: norm(t) ==
                                 'self.wf_ex.task_execution_id')
            ok = ok or (g is not None and g[1] is True)
        r3.check(ok, ctx.construct(f, extra='notify parent task'),
                 'parent task is not notified of sub-workflow %s' % name,
                 ctx.loc(f))

    # ---- R4 backlog round trip ----------------------------------------------
    r4 = ctx.rule('R4', 'commands saved to the backlog come back unchanged',
                  'AGREE')
    shared.backlog_round_trip(ctx, r4)
    shared.rearrange_tail(ctx, r4)
