"""How the controllers compute the next commands, and the per-item
predicates of with-items accounting.

These functions decide *which tasks run next*; no guard rule is anchored in
them because they contain no state change.  The rules here pin their
decision shape with the finite-domain evaluator (dt.Table) and element
predicate tables (a filter over executions evaluated for every
(state, accepted/processed) pair).
"""
import ast
import itertools

from mstatic.core import AnalysisError, dotted, norm, own_nodes
from mstatic.rules import util as U
from mstatic.rules import dt
from mstatic.statedom import OBJ, UNK, Frame

BASE = 'mistral.workflow.base'
WC = BASE + '.WorkflowController'
DWC = 'mistral.workflow.direct_workflow.DirectWorkflowController'
WIT = 'mistral.engine.tasks.WithItemsTask'
DONE = ('SUCCESS', 'ERROR', 'CANCELLED', 'SKIPPED')


def element_predicate(ctx, f, body, var, attrs):
    """Truth table of a filter expression `body` over element variable
    `var`: {(values of attrs): True/False/UNK}.  attrs: [(attr, domain)]."""
    sd = ctx.sd
    fr = Frame(f.module, {}, None, f)
    keys = ['%s.%s' % (var, a) for a, _d in attrs]
    out = {}
    for vals in itertools.product(*[d for _a, d in attrs]):
        env = dict(zip(keys, vals))
        t = sd.truth(sd.ev(body, env, fr))
        out[vals] = t
    return out


def _filters(fnode):
    """(element var, condition expr, iterable expr, node) for lambdas passed
    to filter(), named lambdas and comprehension conditions."""
    out = []
    lambdas = {}
    for n in own_nodes(fnode):
        if isinstance(n, ast.Assign) and isinstance(n.value, ast.Lambda) and \
                isinstance(n.targets[0], ast.Name):
            lambdas[n.targets[0].id] = n.value
    for n in own_nodes(fnode):
        if isinstance(n, ast.Call) and isinstance(n.func, ast.Name) and \
                n.func.id == 'filter' and len(n.args) == 2:
            lam = n.args[0]
            if isinstance(lam, ast.Name):
                lam = lambdas.get(lam.id)
            if isinstance(lam, ast.Lambda) and lam.args.args:
                out.append((lam.args.args[0].arg, lam.body, n.args[1], n))
        if isinstance(n, (ast.ListComp, ast.GeneratorExp, ast.SetComp)) and \
                len(n.generators) == 1:
            g = n.generators[0]
            if isinstance(g.target, ast.Name):
                cond = None
                if len(g.ifs) == 1:
                    cond = g.ifs[0]
                elif len(g.ifs) > 1:
                    cond = ast.BoolOp(op=ast.And(), values=list(g.ifs))
                else:
                    cond = ast.Constant(True)
                out.append((g.target.id, cond, g.iter, n))
    return out


def check_filter(ctx, rule, fq, spec, what, attrs=None, which=None,
                 source='self.task_ex.executions'):
    """The (single) execution filter of function fq selects exactly the
    elements for which spec(state, flag) holds."""
    prog = ctx.prog
    f = prog.func(fq)
    fl = [x for x in _filters(f.node) if norm(x[2]) == source]
    if which is not None:
        fl = [x for x in fl if which(x)]
    if not fl and which is None and any(
            isinstance(x, ast.Attribute) and norm(x) == source
            for x in own_nodes(f.node)):
        # the collection is used unfiltered: every execution is selected
        rule.fail(ctx.construct(f, extra=what),
                  '%s: the executions are used without the filter that '
                  'selects them (every execution counts, also the old '
                  'failed ones of a partial rerun)' % what, ctx.loc(f))
        return None
    if len(fl) != 1:
        raise AnalysisError('%s: execution filter not found (%d)'
                            % (fq, len(fl)))
    var, cond, _it, node = fl[0]
    attrs = attrs or [('state', ctx.sd.ALL), ('accepted', (True, False))]
    tbl = element_predicate(ctx, f, cond, var, attrs)
    bad = [(k, v) for k, v in sorted(tbl.items(), key=repr)
           if v is UNK or bool(v) != bool(spec(*k))]
    rule.check(not bad, ctx.construct(f, extra=what),
               '%s: the filter answers %s for %s = %s (%d of %d '
               'combinations differ from the prescribed selection)'
               % (what, bad[0][1] if bad else '',
                  tuple(a for a, _d in attrs), bad[0][0] if bad else '',
                  len(bad), len(tbl)), ctx.loc(f, node))
    return node


def with_items_predicates(ctx, rule):
    """Which executions count: an item has been started (and does not have
    to be started again) when its execution is accepted or not completed -
    whatever unfinished state it is in (a PAUSED sub-workflow is in flight:
    F28; the first version of this rule had copied the code's narrower
    lists); more iterations = count > that selection; to re-run = completed
    and not accepted; done = completed and accepted; cancelled / failed
    item = accepted and CANCELLED / ERROR."""
    check_filter(ctx, rule, WIT + '._get_next_start_index',
                 lambda s, a: a or s not in DONE,
                 'items already started')
    check_filter(ctx, rule, WIT + '._has_more_iterations',
                 lambda s, a: a or s not in DONE,
                 'items accepted or in flight')
    # the items a partial rerun starts again: failed and not accepted, minus
    # the ones that succeeded meanwhile, minus the ones whose re-run is in
    # progress right now (F30: the old failed execution stays unaccepted)
    ni = ctx.prog.func(WIT + '._get_next_indexes')
    try:
        inprog = check_filter(ctx, rule, WIT + '._get_next_indexes',
                              lambda s, a: s not in DONE,
                              'items in progress', attrs=None,
                              which=lambda x: True)
    except AnalysisError:
        inprog = None   # no such selection at all: reported below
    cand = [x for x in own_nodes(ni.node) if isinstance(x, ast.Assign) and
            isinstance(x.targets[0], ast.Name) and
            x.targets[0].id == 'candidates']
    okc = len(cand) == 1 and inprog is not None
    if okc:
        defs = U._single_defs(ni.node)
        subs = []
        for b in ast.walk(cand[0].value):
            if isinstance(b, ast.BinOp) and isinstance(b.op, ast.Sub):
                subs.append(b.right)
        srcs = []
        for e in subs:
            for nm in [y.id for y in ast.walk(e) if isinstance(y, ast.Name)]:
                if nm in defs:
                    srcs.append(defs[nm])
        okc = any(any(y is inprog for y in ast.walk(d)) for d in srcs) and \
            any('_get_accepted_executions' in norm(d, 200) for d in srcs) \
            and 'unaccepted' in norm(U.canon_expr(ni.node, cand[0].value),
                                     400)
    rule.check(okc, ctx.construct(ni, extra='candidates exclude items in '
                                  'progress'),
               'the items to start again are not "failed and unaccepted, '
               'minus accepted, minus those with an execution in progress": '
               'an item whose re-run is running is started once more',
               ctx.loc(ni))
    check_filter(ctx, rule, WIT + '._get_unaccepted_executions',
                 lambda s, a: (not a) and s in DONE, 'items to re-run')
    check_filter(ctx, rule, WIT + '._get_accepted_executions',
                 lambda s, a: a and s in DONE, 'items done')
    prog = ctx.prog
    # _has_more_iterations compares the item count with that selection
    hm = prog.func(WIT + '._has_more_iterations')
    rets = [x for x in own_nodes(hm.node) if isinstance(x, ast.Return)]
    ok = False
    if len(rets) == 1 and isinstance(rets[0].value, ast.Compare):
        t = dt.Table(ctx, hm, [('self._get_with_items_count()', (0, 1, 2, 3)),
                               ('len(%s)' % _len_arg(rets[0].value),
                                (0, 1, 2, 3))])
        n = t.cfg.stmt_node(rets[0])
        ok = all(t.ev(rets[0].value, v) is (v[0] > v[1])
                 for v in t.full_at(n)) and bool(t.full_at(n))
    rule.check(ok, ctx.construct(hm, extra='count > started'),
               '_has_more_iterations is not "item count > accepted or '
               'running items"', ctx.loc(hm))
    nsi = prog.func(WIT + '._get_next_start_index')
    rets = [x for x in own_nodes(nsi.node) if isinstance(x, ast.Return)]
    rule.check(len(rets) == 1 and isinstance(rets[0].value, ast.Call) and
               U.call_name(rets[0].value) == 'len',
               ctx.construct(nsi, extra='number of started items'),
               'the next start index is not the number of started items',
               ctx.loc(nsi))
    return 6


def _len_arg(cmp):
    for x in ast.walk(cmp):
        if isinstance(x, ast.Call) and U.call_name(x) == 'len' and x.args:
            return dt.text(x.args[0])
    raise AnalysisError('_has_more_iterations: len() not found')


def next_commands(ctx, rule):
    prog, sd = ctx.prog, ctx.sd
    # ---- base: nothing for a given task; all IDLE tasks otherwise
    bf = prog.func(WC + '._find_next_commands')
    par = bf.params[1]
    t = dt.Table(ctx, bf, [(par, (None, OBJ))])
    rets = t.stmt_nodes(lambda a: isinstance(a, ast.Return))
    if len(rets) != 2:
        raise AnalysisError('base._find_next_commands: returns')
    for n in rets:
        v = n.ast.value
        if isinstance(v, ast.List) and not v.elts:
            t.check_exact(rule, n, lambda e: e[par] is not None,
                          'no command of its own is returned',
                          'nothing for a given task')
        elif isinstance(v, ast.ListComp):
            t.check_exact(rule, n, lambda e: e[par] is None,
                          'the IDLE tasks are started',
                          'IDLE tasks when no task is given')
            g = v.generators[0]
            st = U.kwarg(g.iter, 'state') if isinstance(g.iter, ast.Call) \
                else None
            okq = isinstance(g.iter, ast.Call) and \
                U.call_name(g.iter) == '_get_task_executions' and \
                st is not None and sd.ev(st, {}, Frame(bf.module)) == 'IDLE' \
                and len(g.iter.keywords) == 1 and not g.ifs
            elt = v.elt
            okq = okq and isinstance(elt, ast.Call) and \
                U.call_name(elt) == 'RunExistingTask' and \
                [norm(a) for a in elt.args] == [
                    'self.wf_ex', 'self.wf_spec', norm(g.target)]
            rule.check(okq, ctx.construct(bf, extra='all IDLE tasks'),
                       'on start/resume the tasks waiting in IDLE (e.g. '
                       'behind pause-before) are not all turned into '
                       'RunExistingTask commands', ctx.loc(bf, v))
        else:
            rule.fail(ctx.construct(bf, n.ast), 'unexpected return',
                      ctx.loc(bf, n.ast))
    t.undecided(rule, 'whether a task was given')

    # ---- direct controller
    df = prog.func(DWC + '._find_next_commands')
    dpar = df.params[1]
    K = 'self.wf_ex.task_executions'
    t = dt.Table(ctx, df, [(dpar, (None, OBJ)), (K, ((), OBJ))])
    sup = [(n, c) for n, c in t.cfg.calls(
        lambda c: U.call_name(c) == '_find_next_commands' and
        'super(' in norm(c.func))]
    starts = t.call_nodes('_find_start_commands')
    ext = [(n, c) for n, c in t.cfg.calls(
        lambda c: U.call_name(c) == 'extend')]
    if len(sup) != 1 or len(starts) != 1 or len(ext) != 1:
        raise AnalysisError('direct._find_next_commands: shape')
    base_list = None
    for x in own_nodes(df.node):
        if isinstance(x, ast.Assign) and x.value is sup[0][1]:
            base_list = dotted(x.targets[0])
    t.check_exact(rule, starts[0],
                  lambda e: e[dpar] is None and e[K] == (),
                  'the start tasks are computed',
                  'start commands only for a new execution')
    sret = starts[0]
    rule.check(isinstance(sret.ast, ast.Return),
               ctx.construct(df, extra='start commands returned'),
               'the start commands are computed but not returned',
               ctx.loc(df, sret.ast))
    en, ec = ext[0]
    t.check_exact(rule, en,
                  lambda e: not (e[dpar] is None and e[K] == ()),
                  'the commands that follow completed tasks are computed',
                  'follow-up commands otherwise')
    # what the follow-up loop iterates
    loops = [x for x in own_nodes(df.node) if isinstance(x, ast.For) and
             any(c is ec for b in x.body for c in ast.walk(b))]
    okl = False
    if len(loops) == 1:
        lp = loops[0]
        xfer = [x for b in lp.body for x in ast.walk(b)
                if isinstance(x, (ast.Break, ast.Continue, ast.Return))]
        facts = [a for a, _t in U.guard_atoms(t.cfg, en)
                 if norm(a) not in (dpar, K, norm(lp.iter)) and
                 not (U.names_in(a) <= {dpar}) and K not in norm(a)]
        arg = ec.args[0] if ec.args else None
        okl = not xfer and not facts and isinstance(arg, ast.Call) and \
            U.call_name(arg) == '_find_next_commands_for_task' and \
            [norm(a) for a in arg.args] == [norm(lp.target)] and \
            norm(ec.func.value) == base_list
        src = dotted(lp.iter)
        asg = [x for x in own_nodes(df.node) if isinstance(x, ast.Assign) and
               dotted(x.targets[0]) == src]
        if len(asg) != 2:
            raise AnalysisError('direct._find_next_commands: task_execs')
        for a in asg:
            an = t.cfg.stmt_node(a)
            if isinstance(a.value, ast.List):
                okl = okl and [norm(e) for e in a.value.elts] == [dpar]
                t.check_exact(rule, an,
                              lambda e: e[dpar] is not None and
                              not (e[dpar] is None and e[K] == ()),
                              'only the given task is looked at',
                              'the given task')
            elif isinstance(a.value, ast.ListComp):
                g = a.value.generators[0]
                okl = okl and norm(g.iter) == K and \
                    norm(a.value.elt) == norm(g.target)
                t.check_exact(rule, an,
                              lambda e: e[dpar] is None and e[K] != (),
                              'all unprocessed completed tasks are looked at',
                              'resume / continue without a task')
    rule.check(okl, ctx.construct(df, extra='every selected task, appended '
                                  'to the base commands'),
               'the follow-up commands are not computed for every selected '
               'task and appended to the commands of the base controller',
               ctx.loc(df))
    check_filter(ctx, rule, DWC + '._find_next_commands',
                 lambda s, p: s in DONE and not p,
                 'completed tasks whose routing was not dispatched yet',
                 attrs=[('state', sd.ALL), ('processed', (True, False))],
                 source=K)
    rets = [x for x in own_nodes(df.node) if isinstance(x, ast.Return)]
    rule.check(any(dotted(r_.value) == base_list for r_ in rets),
               ctx.construct(df, extra='returns base + follow-up'),
               'the combined command list is not returned', ctx.loc(df))
    t.undecided(rule, 'whether a task was given and whether the execution '
                'has tasks yet')

    # ---- start commands
    sf = prog.func(DWC + '._find_start_commands')
    comp = [x for x in own_nodes(sf.node) if isinstance(x, ast.ListComp)]
    oks = False
    if len(comp) == 1:
        g = comp[0].generators[0]
        e = comp[0].elt
        oks = norm(g.iter) == 'self.wf_spec.find_start_tasks()' and \
            not g.ifs and isinstance(e, ast.Call) and \
            U.call_name(e) == 'RunTask' and len(e.args) >= 4 and \
            [norm(a) for a in e.args[:3]] == [
                'self.wf_ex', 'self.wf_spec', norm(g.target)] and \
            norm(e.args[3]) == 'self.get_task_inbound_context(%s)' \
            % norm(g.target)
    rule.check(oks, ctx.construct(sf, extra='one RunTask per start task'),
               'a new execution does not get one RunTask per start task of '
               'the specification, with that task\'s inbound context',
               ctx.loc(sf))

    # ---- commands for one completed task
    ff = prog.func(DWC + '._find_next_commands_for_task')
    defs = U._single_defs(ff.node)
    loops = [x for x in own_nodes(ff.node) if isinstance(x, ast.For)]
    if len(loops) != 1 or not isinstance(loops[0].target, ast.Tuple):
        raise AnalysisError('_find_next_commands_for_task: loop')
    lp = loops[0]
    tn = norm(lp.target.elts[0])
    ts = None
    for x in ast.walk(lp):
        if isinstance(x, ast.Assign) and isinstance(x.targets[0], ast.Name) \
                and U.phas(x.value, 'self.wf_spec.get_tasks()[%s]' % tn):
            ts = x.targets[0].id
    if ts is None:
        raise AnalysisError('_find_next_commands_for_task: task spec lookup')
    kin = '%s in commands.ENGINE_CMD_CLS' % tn
    t = dt.Table(ctx, ff, [(ts, (None, OBJ)), (kin, (True, False))],
                 mutable=(ts,))
    raises = t.stmt_nodes(lambda a: isinstance(a, ast.Raise))
    if len(raises) != 1:
        raise AnalysisError('_find_next_commands_for_task: raise')
    t.check_exact(rule, raises[0],
                  lambda e: e[ts] is None and not e[kin],
                  'an unknown task name is refused',
                  'unknown next task raises')
    re_ = [n for n in t.stmt_nodes(
        lambda a: isinstance(a, ast.Assign) and dotted(a.targets[0]) == ts)
        if not U.phas(n.ast.value, 'self.wf_spec.get_tasks()[%s]' % tn)]
    rule.check(len(re_) == 1 and norm(re_[0].ast.value) ==
               'self.wf_spec.get_task(%s.name)' % ff.params[1],
               ctx.construct(ff, extra='engine command carries the '
                             'completed task\'s spec'),
               'an engine command (fail/succeed/pause) is not given the '
               'spec of the task that issued it', ctx.loc(ff))
    if len(re_) == 1:
        t.check_exact(rule, re_[0],
                      lambda e: e[ts] is None and e[kin],
                      'the completed task\'s spec is substituted',
                      'only for engine commands')
    cc = t.call_nodes('create_command')
    ap = [(n, c) for n, c in t.cfg.calls(
        lambda c: U.call_name(c) == 'append')]
    cj = t.call_nodes('_configure_if_join')
    okc = len(cc) == 1 and len(ap) == 1 and len(cj) == 1 and \
        t.cfg.dominates(cc[0], cj[0]) and t.cfg.dominates(cj[0], ap[0][0])
    rets = [x for x in own_nodes(ff.node) if isinstance(x, ast.Return)]
    okc = okc and all(norm(r_.value) == norm(ap[0][1].func.value)
                      for r_ in rets) and bool(rets)
    rule.check(okc, ctx.construct(ff, extra='create, configure join, '
                                  'append, return'),
               'a command is not created, configured as a join when it is '
               'one, appended and returned for every next task',
               ctx.loc(ff))
    if len(cc) == 1:
        call = [c for n, c in t.cfg.calls(
            lambda c: U.call_name(c) == 'create_command')][0]
        src = norm(lp.iter)
        ctxname = norm(call.args[4]) if len(call.args) > 4 else None
        okd = src == 'self._find_next_tasks(%s, %s)' % (ff.params[1],
                                                        ctxname) and \
            ctxname in defs and norm(defs[ctxname]) == \
            'data_flow.evaluate_task_outbound_context(%s)' % ff.params[1] \
            and norm(call.args[0]) == tn and norm(call.args[3]) == ts
        rule.check(okd, ctx.construct(ff, call, extra='from the routing of '
                                      'this task, with its outbound '
                                      'context'),
                   'commands are not built from _find_next_tasks(task, '
                   'outbound context of the task) with that same context',
                   ctx.loc(ff, call))
    t.undecided(rule, 'whether the next name is a task or an engine command')

    # ---- error accounting
    af = prog.func(DWC + '.all_errors_handled')
    q = [c for c in own_nodes(af.node) if isinstance(c, ast.Call) and
         U.call_name(c) == 'get_task_executions_count']
    okq = len(q) == 1 and {k.arg: norm(k.value) for k in q[0].keywords} == {
        'workflow_execution_id': 'self.wf_ex.id', 'state': 'states.ERROR',
        'error_handled': 'False'}
    rets = [x for x in own_nodes(af.node) if isinstance(x, ast.Return)]
    if okq and len(rets) == 1:
        cname = [k for k, v in U._single_defs(af.node).items()
                 if v is q[0]]
        if cname:
            t = dt.Table(ctx, af, [(cname[0], (0, 1, 2))])
            n = t.cfg.stmt_node(rets[0])
            okq = all(t.ev(rets[0].value, v) is (v[0] == 0)
                      for v in t.full_at(n)) and bool(t.full_at(n))
        else:
            okq = False
    else:
        okq = False
    rule.check(okq, ctx.construct(af, extra='no unhandled ERROR task'),
               'all_errors_handled() is not "no ERROR task of this '
               'execution with error_handled false"', ctx.loc(af))

    # ---- logical state of a task
    lf = prog.func(DWC + '.get_logical_task_state')
    defs = U._single_defs(lf.node)
    spec = [k for k, v in defs.items()
            if norm(v) == 'self.wf_spec.get_tasks()[%s.name]' % lf.params[1]]
    okl = False
    if len(spec) == 1:
        kj = '%s.get_join()' % spec[0]
        t = dt.Table(ctx, lf, [(kj, (None, OBJ))])
        rets = t.stmt_nodes(lambda a: isinstance(a, ast.Return))
        okl = len(rets) == 2
        for n in rets:
            v = n.ast.value
            if isinstance(v, ast.Call) and \
                    U.call_name(v) == 'TaskLogicalState':
                okl = okl and [norm(a) for a in v.args] == [
                    '%s.state' % lf.params[1],
                    '%s.state_info' % lf.params[1]]
                okl = okl and t.inputs_at(n) == {(None,)}
            elif isinstance(v, ast.Call) and \
                    U.call_name(v) == '_get_join_logical_state':
                okl = okl and [norm(a) for a in v.args] == [spec[0]]
                okl = okl and t.inputs_at(n) == {(OBJ,)}
            else:
                okl = False
    rule.check(okl, ctx.construct(lf, extra='own state unless join'),
               'the logical state of a task is not "its own state unless it '
               'is a join, the join verdict of its own spec otherwise"',
               ctx.loc(lf))

    # ---- controller selection and command construction
    gf = prog.func(BASE + '.get_controller')
    cfg = ctx.cfg(gf)
    sel = [n for n in cfg.nodes if n.kind == 'stmt' and
           isinstance(n.ast, ast.Assign) and
           isinstance(n.ast.value, ast.Name) and
           any(isinstance(lp_, ast.For) and n.ast.value.id == norm(lp_.target)
               for lp_ in own_nodes(gf.node) if isinstance(lp_, ast.For))]
    oks = False
    if len(sel) == 1:
        facts = [(norm(U.canon_expr(gf.node, a)), t_)
                 for a, t_ in U.guard_atoms(cfg, sel[0])
                 if not isinstance(a, (ast.For,))]
        facts = [x for x in facts if 'iter_subclasses' not in x[0]]
        oks = len(facts) == 1 and facts[0][1] is True and \
            facts[0][0] in ('cls.__workflow_type__ == wf_spec.get_type()',
                            'cls.__workflow_type__ == wf_type') or \
            (len(facts) == 1 and facts[0][1] is True and
             '__workflow_type__ ==' in facts[0][0] and
             'get_type()' in facts[0][0])
    rule.check(oks, ctx.construct(gf, extra='controller of the workflow '
                                  'type'),
               'the controller class is not selected by equality of its '
               '__workflow_type__ with the type of the workflow spec',
               ctx.loc(gf))
    cf = prog.func('mistral.workflow.commands.create_command')
    t = dt.Table(ctx, cf, [])
    calls = [(n, c) for n, c in t.cfg.calls(
        lambda c: isinstance(c.func, ast.Name) and
        c.func.id in U._single_defs(cf.node))]
    okc = len(calls) == 2
    P = cf.params
    for n, c in calls:
        kws = {k.arg: norm(k.value) for k in c.keywords}
        okc = okc and [norm(a) for a in c.args] == P[1:5] and \
            kws.get('triggered_by') == 'triggered_by' and \
            kws.get('handles_error') == 'handles_error'
        facts = [(norm(a), t_) for a, t_ in U.guard_atoms(t.cfg, n)]
        if 'msg' in kws:
            okc = okc and len(facts) == 1 and facts[0][1] is True and \
                'SetWorkflowState' in facts[0][0]
        else:
            okc = okc and len(facts) == 1 and facts[0][1] is False and \
                'SetWorkflowState' in facts[0][0]
    dcls = [v for k, v in U._single_defs(cf.node).items()]
    okc = okc and any(U.phas(v, 'get_command_class(%s) or RunTask' % P[0])
                      for v in dcls)
    rule.check(okc, ctx.construct(cf, extra='class by name, RunTask by '
                                  'default, all fields passed'),
               'create_command does not build the engine command class of '
               'that name (RunTask otherwise) with workflow, spec, context, '
               'triggered_by and handles_error', ctx.loc(cf))
    return 20


def triggered_by_ids(ctx, rule):
    """The ids handed to the inbound-context computation are the task ids
    of every recorded trigger (empty only when nothing was recorded)."""
    prog = ctx.prog
    f = prog.func('mistral.engine.tasks.Task._get_triggered_by_ids')
    cfg = ctx.cfg(f)
    mem = [x for x in own_nodes(f.node) if isinstance(x, ast.Compare) and
           len(x.ops) == 1 and isinstance(x.ops[0], (ast.In, ast.NotIn)) and
           isinstance(x.left, ast.Constant) and
           x.left.value == 'triggered_by' and
           norm(x.comparators[0]) == 'self.task_ex.runtime_context']
    if len(mem) != 1:
        raise AnalysisError('_get_triggered_by_ids: membership test')
    K = dt.text(mem[0])
    present = isinstance(mem[0].ops[0], ast.In)
    t = dt.Table(ctx, f, [(K, (True, False))])
    aps = [(n, c) for n, c in t.cfg.calls(
        lambda c: U.call_name(c) == 'append')]
    loops = [x for x in own_nodes(f.node) if isinstance(x, ast.For)]
    ok = len(aps) == 1 and len(loops) == 1
    if ok:
        n, c = aps[0]
        lp = loops[0]
        ok = norm(lp.iter) == "self.task_ex.runtime_context['triggered_by']" \
            and norm(c.args[0]) == "%s['task_id']" % norm(lp.target) and \
            not [x for b in lp.body for x in ast.walk(b)
                 if isinstance(x, (ast.Break, ast.Continue, ast.Return))]
        ok = ok and t.inputs_at(n) == {(present,)}
        rets = [x for x in own_nodes(f.node) if isinstance(x, ast.Return)]
        ok = ok and all(norm(r_.value) == norm(c.func.value) for r_ in rets)
        ok = ok and not [a for a, _t in U.guard_atoms(cfg, n)
                         if 'triggered_by' not in norm(a, 300)]
    rule.check(ok, ctx.construct(f, extra='ids of all recorded triggers'),
               'the ids of the tasks that triggered this one are not '
               'returned in full: the inbound context is computed from the '
               'wrong / too few upstream tasks', ctx.loc(f))
    t.undecided(rule, 'whether triggers were recorded')
    return 2


def upstream_query_choice(ctx, rule):
    """DirectWorkflowController._get_upstream_task_executions: which query
    selects the tasks a task takes its data from.  No inbound tasks: none.
    A join: every completed inbound task that routed to it.  Otherwise the
    tasks recorded as its triggers (by id) and, only when nothing was
    recorded, the processed executions of its single inbound task."""
    prog = ctx.prog
    f = prog.func('mistral.workflow.direct_workflow.DirectWorkflowController.'
                  '_get_upstream_task_executions')
    names = [x.targets[0].id for x in own_nodes(f.node)
             if isinstance(x, ast.Assign) and
             isinstance(x.targets[0], ast.Name) and
             'find_inbound_task_specs' in norm(x.value, 300)]
    if len(names) != 1:
        raise AnalysisError('upstream query: inbound names not found')
    nm = names[0]
    spec, trig = f.params[1], f.params[2]
    J = '%s.get_join()' % spec
    t = dt.Table(ctx, f, [(nm, ((), ('a',))), (J, (None, 'all')),
                          (trig, (None, (), ('id',)))],
                 inline_exclude=(nm,))
    qs = [(n, c) for n, c in t.cfg.calls(
        lambda c: U.call_name(c) == '_get_task_executions')]
    by_kind = {'ids': [], 'single': [], 'join': []}
    for n, c in qs:
        kw = {k.arg: k.value for k in c.keywords}
        if 'id' in kw:
            okid = U.phas(kw['id'], "{'in': %s}" % trig)
            by_kind['ids' if okid else 'single'].append(n)
            rule.check(okid, ctx.construct(f, c, extra='ids of the triggers'),
                       'the id filter is not the recorded trigger ids',
                       ctx.loc(f, c))
        elif isinstance(kw.get('name'), ast.Dict):
            by_kind['join'].append(n)
        else:
            by_kind['single'].append(n)
    if not all(by_kind.values()):
        raise AnalysisError('upstream query: the three queries were not '
                            'found (%s)' % {k: len(v)
                                            for k, v in by_kind.items()})

    def reach(kind):
        out = set()
        for n in by_kind[kind]:
            out |= t.inputs_at(n)
        return out
    want = {
        'ids': lambda d: d[nm] and not d[J] and bool(d[trig]),
        'single': lambda d: d[nm] and not d[J] and not d[trig],
        'join': lambda d: d[nm] and bool(d[J]),
    }
    for kind in ('ids', 'single', 'join'):
        exp = {v for v in t.init_inputs
               if want[kind](dict(zip(t.keys, v)))}
        got = reach(kind)
        rule.check(got == exp,
                   ctx.construct(f, extra='query by %s' % kind),
                   'the upstream query "%s" is used in other situations than '
                   'the property prescribes (e.g. %s)' % (
                       kind, dict(zip(t.keys, sorted(got ^ exp, key=repr)[0]))
                       if got != exp else ''), ctx.loc(f))
    t.undecided(rule, 'the inbound tasks, the join flag and the recorded '
                'triggers')
    # of the candidates of a join, exactly those that routed to it
    cfg = t.cfg
    keep = [(n, c) for n, c in cfg.calls(
        lambda c: U.call_name(c) == 'append')]
    comps = [x for x in own_nodes(f.node) if isinstance(x, ast.ListComp) and
             any('next_tasks' in norm(i, 200) for g in x.generators
                 for i in g.ifs)]
    def routed_test(e):
        """`<spec>.get_name() in [t[0] for t in <x>.next_tasks]`"""
        if not (isinstance(e, ast.Compare) and len(e.ops) == 1 and
                isinstance(e.ops[0], ast.In) and
                norm(e.left) == '%s.get_name()' % spec):
            return False
        lc = e.comparators[0]
        if not (isinstance(lc, (ast.ListComp, ast.SetComp,
                                ast.GeneratorExp)) and
                len(lc.generators) == 1 and not lc.generators[0].ifs):
            return False
        g = lc.generators[0]
        return isinstance(g.target, ast.Name) and \
            norm(lc.elt) == '%s[0]' % g.target.id and \
            isinstance(g.iter, ast.Attribute) and g.iter.attr == 'next_tasks'
    okk = False
    for n, c in keep:
        # (the function-level facts - inbound tasks exist, this is a join -
        # are decided by the table above)
        atoms = [(a, tr) for a, tr in U.guard_atoms(cfg, n)
                 if norm(a) not in (nm, J)]
        okk = okk or (len(atoms) == 1 and atoms[0][1] is True and
                      routed_test(atoms[0][0]))
    for lc in comps:
        okk = okk or (len(lc.generators) == 1 and
                      len(lc.generators[0].ifs) == 1 and
                      routed_test(lc.generators[0].ifs[0]))
    rule.check(okk, ctx.construct(f, extra='candidates that routed here'),
               'the completed inbound tasks of a join are not filtered by '
               'exactly "this task is among their next tasks"', ctx.loc(f))
    return 5
