"""Property rule modules c01 .. c20 plus rules shared by all of them."""
import importlib

from mstatic.core import AnalysisError


def run(ctx):
    """Run the rules of ctx.prop: the property's own module, then the
    explicit-argument rule (rules/args.py) when its table has entries for
    the property, then the required-effects rule (rules/effects.py).

    An anchor lost in one stage (AnalysisError) does not hide violations
    found by the others: the stages run independently; when at least one
    violation was found it is reported (exit 1) together with the analysis
    errors, otherwise the first analysis error is raised (exit 2)."""
    errs = []

    def stage(fn):
        try:
            fn()
        except AnalysisError as e:
            errs.append(e)

    mod = importlib.import_module('mstatic.rules.%s' % ctx.prop.lower())
    stage(lambda: mod.run(ctx))
    from mstatic.rules import args
    if any(ctx.prop in t[0] for t in args.TABLE):
        def ra():
            r = ctx.rule('RA', 'optional arguments that carry state between '
                         'layers are still passed at the call sites where '
                         'the default would break the property', 'ARGS')
            args.explicit_args(ctx, r, ctx.prop)
        stage(ra)
    from mstatic.rules import effects
    if any(ctx.prop in t[0] for t in effects.TABLE):
        def re_():
            r = ctx.rule('RE', 'effects the property depends on are not '
                         'conditioned on anything beyond their known '
                         'enabling facts', 'GD-exact')
            effects.required_effects(ctx, r, ctx.prop)
        stage(re_)
    ctx.analysis_errors = errs
    if errs and not any(r.violations for r in ctx.rules):
        raise errs[0]
