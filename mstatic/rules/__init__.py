"""Property rule modules c01 .. c20 plus rules shared by all of them."""
import importlib


def run(ctx):
    """Run the rules of ctx.prop: the property's own module, then the
    explicit-argument rule (rules/args.py) when its table has entries for
    the property, then the required-effects rule (rules/effects.py)."""
    mod = importlib.import_module('mstatic.rules.%s' % ctx.prop.lower())
    mod.run(ctx)
    from mstatic.rules import args
    if any(ctx.prop in t[0] for t in args.TABLE):
        r = ctx.rule('RA', 'optional arguments that carry state between '
                     'layers are still passed at the call sites where the '
                     'default would break the property', 'ARGS')
        args.explicit_args(ctx, r, ctx.prop)
    from mstatic.rules import effects
    if any(ctx.prop in t[0] for t in effects.TABLE):
        r = ctx.rule('RE', 'effects the property depends on are not '
                     'conditioned on anything beyond their known enabling '
                     'facts', 'GD-exact')
        effects.required_effects(ctx, r, ctx.prop)
