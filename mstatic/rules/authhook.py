"""Request authentication and request context: the hooks every REST
request passes before any controller runs.  C15 (caller identity) and C16
(authorised before any effect) both rest on them and no controller rule
sees them."""
import ast

from mstatic.core import AnalysisError, NotConst, dotted, norm, own_nodes
from mstatic.rules import util as U
from mstatic.rules import dt

CTX = 'mistral.context'
# paths that only return version / index documents (A.4)
OPEN_PATHS = {'/', '/info', '/v2/', '/workflowv2/', '/workflowv2/v2/'}


def auth_hook(ctx, rule):
    prog = ctx.prog
    f = prog.func(CTX + '.AuthHook.before')
    st = f.params[1]
    kpath = '%s.request.path in ALLOWED_WITHOUT_AUTH' % st
    mem = [x for x in own_nodes(f.node) if isinstance(x, ast.Compare) and
           len(x.ops) == 1 and isinstance(x.ops[0], (ast.In, ast.NotIn)) and
           norm(x.comparators[0]) == 'ALLOWED_WITHOUT_AUTH']
    if len(mem) != 1:
        raise AnalysisError('AuthHook.before: open-path test not found')
    kpath = dt.text(mem[0])
    open_when = isinstance(mem[0].ops[0], ast.In)
    rule.check(norm(mem[0].left) == '%s.request.path' % st,
               ctx.construct(f, mem[0], extra='the request path'),
               'the open-path list is not matched against the request path',
               ctx.loc(f, mem[0]))
    t = dt.Table(ctx, f, [(kpath, (True, False)),
                          ('CONF.pecan.auth_enable', (True, False))])
    au = t.call_nodes('authenticate')
    if len(au) != 1:
        raise AnalysisError('AuthHook.before: authenticate call not found')

    def must(e):
        is_open = e[kpath] if open_when else (not e[kpath])
        return e['CONF.pecan.auth_enable'] and not is_open
    t.check_exact(rule, au[0], must, 'the request is authenticated',
                  'authenticate unless disabled / open path')
    call = [c for n, c in t.cfg.calls(
        lambda c: U.call_name(c) == 'authenticate')][0]
    rule.check([norm(a) for a in call.args] == ['%s.request' % st],
               ctx.construct(f, call, extra='this request'),
               'authenticate() is not given the request being processed',
               ctx.loc(f, call))
    # a failed authentication aborts with 401 (it must not fall through)
    trys = [x for x in own_nodes(f.node) if isinstance(x, ast.Try) and
            any(c is call for b in x.body for c in ast.walk(b))]
    ok = False
    if len(trys) == 1:
        hs = trys[0].handlers
        ok = bool(hs)
        for h in hs:
            ab = [c for s_ in h.body for c in ast.walk(s_)
                  if isinstance(c, ast.Call) and U.call_name(c) == 'abort']
            reraise = any(isinstance(x, ast.Raise) for s_ in h.body
                          for x in ast.walk(s_))
            code = [U.kwarg(c, 'status_code', 0) for c in ab]
            ok = ok and (reraise or (bool(ab) and all(
                isinstance(k, ast.Constant) and k.value == 401
                for k in code)))
            # the abort is unconditional inside the handler
            for c in ab:
                n = t.cfg.node_of(c)
                ok = ok and not [a for a, _t in U.guard_atoms(t.cfg, n)
                                 if norm(a) not in (kpath,
                                                    'CONF.pecan.auth_enable')
                                 and kpath not in norm(a, 300)]
    rule.check(ok, ctx.construct(f, extra='failure aborts with 401'),
               'a request whose authentication failed is not refused with '
               '401 in every handler (it would reach the controllers '
               'unauthenticated)', ctx.loc(f))
    t.undecided(rule, 'whether authentication is enabled and the path is '
                'one of the open paths')
    try:
        allowed = set(prog.const(CTX, 'ALLOWED_WITHOUT_AUTH'))
    except NotConst:
        raise AnalysisError('ALLOWED_WITHOUT_AUTH does not fold')
    rule.check(allowed <= OPEN_PATHS,
               ctx.construct(f, extra='open paths are index documents only'),
               'paths served without authentication now include %s: only '
               'the version / index documents may be open'
               % sorted(allowed - OPEN_PATHS), ctx.loc(f))
    # both hooks are installed, authentication before the context
    mk = prog.func('mistral.api.app.setup_app')
    hooks = [c for c in own_nodes(mk.node) if isinstance(c, ast.Call) and
             U.call_name(c) == 'make_app']
    okh = False
    if len(hooks) == 1:
        hv = U.kwarg(hooks[0], 'hooks')
        names = [dotted(c.func).split('.')[-1] for c in ast.walk(hv)
                 if isinstance(c, ast.Call) and dotted(c.func)] \
            if hv is not None else []
        okh = 'AuthHook' in names and 'ContextHook' in names and \
            names.index('AuthHook') < names.index('ContextHook')
    rule.check(okh, ctx.construct(mk, extra='hooks installed'),
               'the application is built without AuthHook before '
               'ContextHook', ctx.loc(mk))
    return 7


def request_context(ctx, rule):
    """The request context is built from the request's own headers /
    environment on every request and removed afterwards; ctx() hands out
    the context of the current thread and raises when there is none."""
    prog = ctx.prog
    b = prog.func(CTX + '.ContextHook.before')
    st = b.params[1]
    cfg = ctx.cfg(b)
    fe = U.calls_in(cfg, 'from_environ')
    sc = U.calls_in(cfg, 'set_ctx')
    ok = len(fe) == 1 and len(sc) == 1 and \
        [norm(a) for a in fe[0][1].args] == [
            '%s.request.headers' % st, '%s.request.environ' % st] and \
        not U.guard_atoms(cfg, sc[0][0])
    if ok:
        var = [dotted(x.targets[0]) for x in own_nodes(b.node)
               if isinstance(x, ast.Assign) and x.value is fe[0][1]]
        ok = bool(var) and norm(sc[0][1].args[0]) == var[0]
    rule.check(ok, ctx.construct(b, extra='context from this request'),
               'the request context is not built from the headers and '
               'environment of the request being processed and installed '
               'unconditionally', ctx.loc(b))
    a = prog.func(CTX + '.ContextHook.after')
    acfg = ctx.cfg(a)
    sc = U.calls_in(acfg, 'set_ctx')
    rule.check(len(sc) == 1 and isinstance(sc[0][1].args[0], ast.Constant)
               and sc[0][1].args[0].value is None and
               not U.guard_atoms(acfg, sc[0][0]),
               ctx.construct(a, extra='context removed after the request'),
               'the request context is not removed after the request: the '
               'next request served by this thread can run under the '
               'previous caller\'s identity', ctx.loc(a))
    c = prog.func(CTX + '.ctx')
    t = dt.Table(ctx, c, [('has_ctx()', (True, False))])
    raises = t.stmt_nodes(lambda x: isinstance(x, ast.Raise))
    rets = t.stmt_nodes(lambda x: isinstance(x, ast.Return))
    okc = len(raises) == 1 and bool(rets) and \
        t.inputs_at(raises[0]) == {(False,)} and \
        all(t.inputs_at(r) == {(True,)} for r in rets)
    gl = [x for x in own_nodes(c.node) if isinstance(x, ast.Call) and
          U.call_name(x) == 'get_thread_local']
    okc = okc and len(gl) == 1 and \
        norm(gl[0].args[0]) == '_CTX_THREAD_LOCAL_NAME'
    rule.check(okc, ctx.construct(c, extra='thread context or raise'),
               'ctx() does not return the context stored for the current '
               'thread / does not raise when there is none', ctx.loc(c))
    s = prog.func(CTX + '.set_ctx')
    st_ = [x for x in own_nodes(s.node) if isinstance(x, ast.Call) and
           U.call_name(x) == 'set_thread_local']
    rule.check(len(st_) == 1 and [norm(x) for x in st_[0].args] == [
        '_CTX_THREAD_LOCAL_NAME', s.params[0]] and
        not U.guard_atoms(ctx.cfg(s), ctx.cfg(s).node_of(st_[0])),
        ctx.construct(s, extra='stores under the same key'),
        'set_ctx does not store the given context (None included) under '
        'the key ctx() reads', ctx.loc(s))
    return 4


IDENTITY_HEADERS = ('X-Identity-Status', 'X-Project-Id', 'X-Roles')


def identity_headers(ctx, rule):
    """The context is built from the identity headers of the request
    (oslo.context from_environ).  With the keystone handler they are written
    by keystonemiddleware, which strips client-supplied ones.  The keycloak
    handler writes them itself: after a successful authentication each
    identity header must have been *overwritten* from the verified token -
    an assignment that every normal exit passes, not a default that a
    header sent by the caller survives."""
    prog = ctx.prog
    f = prog.func('mistral.auth.keycloak.KeycloakAuthHandler.authenticate')
    cfg = ctx.cfg(f)
    req = f.params[1]
    n_ok = 0
    for h in IDENTITY_HEADERS:
        sets = [n for n in cfg.nodes if n.kind == 'stmt' and
                isinstance(n.ast, ast.Assign) and any(
                    isinstance(t, ast.Subscript) and
                    dotted(t.value) == req + '.headers' and
                    isinstance(t.slice, ast.Constant) and t.slice.value == h
                    for t in n.ast.targets)]
        ok = bool(sets) and cfg.must_pass(cfg.entry, sets, exits=[cfg.exit])
        # the value comes from the token, never from the request
        for n in sets:
            v = n.ast.value
            names = set(U.names_in(v))
            for nm in list(names):
                for x in own_nodes(f.node):
                    if isinstance(x, ast.Assign) and any(
                            isinstance(y, ast.Name) and y.id == nm and
                            isinstance(y.ctx, ast.Store)
                            for t in x.targets for y in ast.walk(t)):
                        names |= set(U.names_in(x.value))
            if req in names:
                ok = False
            if h != 'X-Identity-Status' and 'decoded' not in names:
                ok = False
        rule.check(ok, ctx.construct(f, extra='%s overwritten' % h),
                   'after a successful keycloak authentication the %s header '
                   'is not unconditionally overwritten from the verified '
                   'token: a value sent by the caller (another project, the '
                   'admin role) is what the request context is built from'
                   % h, ctx.loc(f, sets[0].ast if sets else None))
        n_ok += 1
    # nothing else hands the caller's own identity headers a way through
    for n in own_nodes(f.node):
        if isinstance(n, ast.Call) and isinstance(n.func, ast.Attribute) \
                and n.func.attr in ('setdefault', 'update') and \
                dotted(n.func.value) == req + '.headers':
            rule.fail(ctx.construct(f, n),
                      'identity headers are merged with what the caller '
                      'sent instead of being overwritten', ctx.loc(f, n))
    return n_ok


SCOPING_KEYS = ('project_id', 'tenant', 'project', 'roles', 'is_admin',
                'is_admin_project')


def scoping_identity_from_environment(ctx, rule):
    """MistralContext.from_environ(headers, env): the WSGI environment holds
    what the auth middleware established (HTTP_X_PROJECT_ID, HTTP_X_ROLES);
    the keyword arguments computed by _extract_mistral_auth_params win over
    it (oslo.context uses setdefault).  Whatever scopes DB queries (project,
    roles, admin flag) must therefore not be among those keyword arguments
    with a value read from a header the client chooses freely (the
    X-Target-* family is not touched by any auth handler)."""
    prog = ctx.prog
    fe = prog.func(CTX + '.MistralContext.from_environ')
    ex = prog.func(CTX + '._extract_mistral_auth_params')
    calls = [c for c in own_nodes(fe.node) if isinstance(c, ast.Call) and
             U.call_name(c) == '_extract_mistral_auth_params']
    sup = [c for c in own_nodes(fe.node) if isinstance(c, ast.Call) and
           U.call_name(c) == 'from_environ']
    if len(calls) != 1 or len(sup) != 1 or not any(
            k.arg is None for k in sup[0].keywords):
        raise AnalysisError('MistralContext.from_environ no longer passes '
                            'the extracted parameters to oslo.context')
    hp = ex.params[0]
    n = 0
    for d in own_nodes(ex.node):
        if not isinstance(d, ast.Dict):
            continue
        for k, v in zip(d.keys, d.values):
            if not (isinstance(k, ast.Constant) and k.value in SCOPING_KEYS):
                continue
            n += 1
            rule.check(hp not in U.names_in(v),
                       ctx.construct(ex, extra="%r from a request header"
                                     % k.value),
                       'the %s of the request context is taken from a header '
                       'the caller chooses (%s) and overrides what the auth '
                       'middleware put into the WSGI environment: every '
                       'tenant-scoped query then runs as that project'
                       % (k.value, norm(v)), ctx.loc(ex, v))
    for s in own_nodes(ex.node):
        if isinstance(s, ast.Assign) and any(
                isinstance(t, ast.Subscript) and
                isinstance(t.slice, ast.Constant) and
                t.slice.value in SCOPING_KEYS for t in s.targets):
            n += 1
            rule.check(hp not in U.names_in(s.value),
                       ctx.construct(ex, s),
                       'a scoping attribute of the request context is '
                       'assigned from a request header', ctx.loc(ex, s))
    # the admin flag is derived from the roles of the built context
    adm = [s for s in own_nodes(fe.node) if isinstance(s, ast.Assign) and
           any(dotted(t) and dotted(t).endswith('.is_admin')
               for t in s.targets)]
    rule.check(len(adm) == 1 and U.phas(
        adm[0].value, "True if 'admin' in __c.roles else False") or
        (len(adm) == 1 and U.phas(adm[0].value, "'admin' in __c.roles")),
        ctx.construct(fe, extra='admin from the roles'),
        'is_admin is not derived from the roles of the context',
        ctx.loc(fe))
    return n
