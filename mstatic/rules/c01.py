"""C01 - every run finishes with the outcome its definition prescribes
(structural parts: nothing is lost, nothing escapes)."""
import ast

from mstatic.core import AnalysisError, dotted, norm, own_nodes
from mstatic.rules import util as U
from mstatic.rules import c04, c06, c13, c16

PTQ = 'mistral.engine.post_tx_queue'
TH = 'mistral.engine.task_handler'
WH = 'mistral.engine.workflow_handler'
TASK = 'mistral.engine.tasks.Task'
WF = 'mistral.engine.workflows.Workflow'
DWC = 'mistral.workflow.direct_workflow.DirectWorkflowController'

RPC_SERVERS = (
    'mistral.engine.engine_server.EngineServer',
    'mistral.executors.executor_server.ExecutorServer',
    'mistral.event_engine.event_engine_server.EventEngineServer',
    'mistral.notifiers.notification_server.NotificationServer',
)

# nested-transaction triage: (outer function, inner function) -> reason
NESTED_TX_OK = {
    ('mistral.services.workflows.sync_db',
     'mistral.services.workflows.create_workflows'):
        'called with run_in_tx=False (constant argument)',
    ('mistral.services.workflows.sync_db',
     'mistral.services.workflows.register_preinstalled_workflows'):
        'forwards run_in_tx=False (constant argument)',
}


# explicit raises of non-Mistral exception classes that can escape an engine
# entry point, each with the reason it is acceptable
ESCAPE_OK = {
    'ValueError @ mistral.engine.actions.RegularAction.complete':
        'duplicate result: must NOT be a MistralException so that the '
        'transaction rolls back (C03.R5)',
    'RuntimeError @ mistral.engine.post_tx_queue._get_queue':
        'programming error; unreachable from entry points by C01.R1',
    'RuntimeError @ mistral.engine.task_handler._refresh_task_state':
        '"must never get here": logical states are exhaustive by C01.R6',
    'RuntimeError @ mistral.engine.tasks.WithItemsTask._decrease_capacity':
        'invariant violation (capacity would go negative), C07.R3',
    'RuntimeError @ mistral.engine.workflows.Workflow.'
    '_send_result_to_parent_workflow':
        'invariant: only called after a terminal CAS (C09.R1)',
    'RuntimeError @ mistral.scheduler.base.SchedulerJob.__init__':
        'programming error: every job names a function (C13.R6)',
    'RuntimeError @ mistral.workflow.direct_workflow.'
    'DirectWorkflowController._get_join_logical_state':
        'join expression is constrained by the task schema (all/one/int)',
    'ImportError @ mistral.scheduler.default_scheduler.DefaultScheduler.'
    '_persist_job': 'serializer path is a code constant',
    'ImportError @ mistral.services.legacy_scheduler._schedule_call':
        'serializer path is a code constant',
    'ValueError @ mistral.actions.adhoc.AdHocActionDescriptor.'
    '_visit_hierarchy':
        'cyclic ad-hoc action chain; inside workflows it is converted by '
        'RegularAction.schedule (except Exception -> InvalidActionException)'
        ', it escapes only from start_action, which is outside C01',
}


def is_ptq_run(f):
    return any(d in ('post_tx_queue.run', 'run') and
               (d != 'run' or f.module == PTQ) for d in f.decorators)


def entry_points(ctx):
    prog, cg = ctx.prog, ctx.cg
    roots = {}
    for srv in RPC_SERVERS:
        prog.cls(srv)
        for m in prog.methods_of(srv):
            if not m.name.startswith('_') and 'rpc_ctx' in m.params:
                roots[m.qname] = 'rpc endpoint'
    for (q, path, args, call) in cg.sched_sites:
        if path in prog.funcs:
            roots[path] = 'scheduler job target'
    for q, es in cg.edges.items():
        for (t, k) in es:
            if k == 'thread':
                roots[t] = 'thread target'
    for f in c16.exposed_methods(prog):
        roots[f.qname] = 'REST method'
    for q, f in prog.funcs.items():
        if any('periodic_task' in d for d in f.decorators):
            roots[q] = 'periodic task'
    for q in ('mistral.services.periodic.process_cron_triggers_v2',
              'mistral.services.expiration_policy.'
              'run_execution_expiration_policy',
              'mistral.services.action_heartbeat_checker.'
              'handle_expired_actions',
              PTQ + '._process_queue'):
        if q in prog.funcs:
            roots[q] = 'periodic / queue processor'
    return roots


def run(ctx):
    prog, sd, cg = ctx.prog, ctx.sd, ctx.cg
    S = sd.consts
    r18 = ctx.rule('R18', 'the routing tables a cached spec hands out are '
                   'not the ones it keeps: a caller that edits its copy '
                   'does not change which joins later runs wake up (shared '
                   'with C02.R3)', 'WMW (aliasing)')
    from mstatic.rules import shared as _shf
    _shf.handed_out_values_fresh(ctx, r18)

    # ---- R1 post-commit queue discipline --------------------------------
    r1 = ctx.rule('R1', 'register_operation is unreachable from any entry '
                  'point except through @post_tx_queue.run', 'WMW-reach')
    roots = entry_points(ctx)
    if len(roots) < 60:
        raise AnalysisError('C01.R1: only %d entry points' % len(roots))
    target = PTQ + '.register_operation'
    prog.func(target)
    shielded = {q for q, f in prog.funcs.items() if is_ptq_run(f)}
    if len(shielded) < 12:
        raise AnalysisError('C01.R1: only %d @post_tx_queue.run functions'
                            % len(shielded))
    can_reach = cg.reach_backward({target},
                                  kinds=('call', 'ref', 'cha', 'nested'))
    kinds = ('call', 'ref', 'cha', 'nested')
    for q in sorted(roots):
        if q in shielded:
            r1.ok(q + ' :: entry point', roots[q] + ', decorated')
            continue
        parents = {}
        reach = cg.reach_forward({q}, kinds=kinds,
                                 stop=lambda x: x in shielded,
                                 parents=parents)
        reach -= {x for x in reach if x in shielded and x != q}
        if target in reach:
            path = cg.path(parents, {q}, target)
            r1.fail(q + ' :: entry point', '%s reaches register_operation '
                    'outside @post_tx_queue.run: %s (RuntimeError "Operation '
                    'queue is not initialized" escapes and the post-commit '
                    'work is lost)' % (roots[q], ' -> '.join(path[-6:])),
                    prog.loc(q))
        else:
            r1.ok(q + ' :: entry point', roots[q])
    n_sites = len(cg.posttx_sites)
    if n_sites < 8:
        raise AnalysisError('C01.R1: only %d register_operation sites'
                            % n_sites)

    # ---- R2 decorator order; queueing inside the transaction --------------
    r2 = ctx.rule('R2', 'retry_on_db_error outside post_tx_queue.run; '
                  'operations are queued inside the transaction', 'AGREE')
    for q in sorted(shielded):
        f = prog.funcs[q]
        decs = f.decorators
        ri = [i for i, d in enumerate(decs) if d.endswith(
            'retry_on_db_error')]
        pi = [i for i, d in enumerate(decs)
              if d in ('post_tx_queue.run', 'run')]
        if ri and pi:
            r2.check(ri[0] < pi[0], q + ' :: decorator order',
                     '@post_tx_queue.run is outside @retry_on_db_error: a '
                     'retried attempt would run with the queue of the '
                     'failed one', prog.loc(q))
        if q not in can_reach or q == PTQ + '._process_queue':
            continue
        # interprocedural: follow only call sites that are NOT enclosed in
        # a `with db_api.transaction()` of their own function; reaching
        # register_operation that way means no transaction encloses the
        # queueing
        seen = {q}
        todo = [(q, [q])]
        hit = None
        while todo and hit is None:
            cur, path = todo.pop()
            cf = prog.funcs.get(cur)
            if cf is None:
                continue
            ccfg = ctx.cfg(cf)
            for n, c in ccfg.calls():
                if U.inside_with(ccfg, n, 'transaction'):
                    continue
                for t in cg.call_targets(cur, c):
                    if t == target:
                        hit = path + [t]
                        break
                    if t in can_reach and t not in seen and \
                            t not in shielded:
                        seen.add(t)
                        todo.append((t, path + [t]))
                if hit:
                    break
        r2.check(hit is None, q + ' :: queueing inside a transaction',
                 'post-commit operations can be queued with no enclosing '
                 'db_api.transaction(): %s' % ' -> '.join(hit or []),
                 prog.loc(q))

    # ---- R3 error conversion at the handler layer --------------------------
    r3 = ctx.rule('R3', 'task/workflow handler calls are wrapped so that '
                  'Mistral errors become ERROR states', 'GD')
    r3.floor(6)
    handlers = {
        TH + '.run_task': ('run',),
        TH + '._on_action_complete': ('on_action_complete',),
        TH + '._on_action_update': ('on_action_update',),
        TH + '.continue_task': ('run', 'set_state'),
        TH + '.complete_task': ('complete',),
    }
    for q, meths in handlers.items():
        f = prog.func(q)
        cfg = ctx.cfg(f)
        sites = [(n, c) for n, c in cfg.calls(
            lambda c: U.call_name(c) in meths and
            isinstance(c.func, ast.Attribute) and
            dotted(c.func.value) == 'task')]
        if not sites:
            raise AnalysisError('C01.R3: %s no longer calls task.%s'
                                % (q, meths))
        for n, c in sites:
            if U.call_name(c) == 'set_state' and q.endswith('run_task'):
                continue
            tries = cfg.enclosing_trys(n)
            ok = False
            for t in tries:
                for h in t.handlers:
                    tys = U.handler_types(h)
                    catches = any(x in ('exc.MistralException',
                                        'MistralException', 'Exception',
                                        'BaseException') for x in tys)
                    fails = any(isinstance(x, ast.Call) and
                                U.call_name(x) == 'force_fail_task'
                                for x in ast.walk(h))
                    ok = ok or (catches and fails)
            r3.check(ok, ctx.construct(f, c),
                     'task.%s() is not inside try/except MistralException '
                     'whose handler calls force_fail_task: a failing '
                     'expression would escape instead of failing the task'
                     % U.call_name(c), ctx.loc(f, c))
    f = prog.func(WH + '.check_and_complete')
    cfg = ctx.cfg(f)
    ok = False
    for n, c in cfg.calls(lambda c: U.call_name(c) == 'check_and_complete'
                          and isinstance(c.func, ast.Attribute)):
        for t in cfg.enclosing_trys(n):
            for h in t.handlers:
                if any(x.endswith('MistralException')
                       for x in U.handler_types(h)) and any(
                        isinstance(x, ast.Call) and
                        U.call_name(x) == 'force_fail_workflow'
                        for x in ast.walk(h)):
                    ok = True
    r3.check(ok, ctx.construct(f, extra='completion errors fail the '
                               'workflow'),
             'wf.check_and_complete() is not wrapped to force_fail_workflow',
             ctx.loc(f))
    ff = prog.func(TH + '.force_fail_task')
    cfg = ctx.cfg(ff)
    a = U.calls_in(cfg, 'set_state')
    b = U.calls_in(cfg, 'force_fail_workflow')
    r3.check(bool(a) and bool(b) and norm(a[0][1].args[0]) == 'states.ERROR'
             and cfg.must_pass(cfg.entry, [b[0][0]]),
             ctx.construct(ff), 'force_fail_task no longer sets ERROR and '
             'fails the workflow on every path', ctx.loc(ff))

    # ---- R4 evaluators convert --------------------------------------------
    r4 = ctx.rule('R4', 'expression evaluators convert library errors to '
                  'evaluation / grammar exceptions', 'GD')
    evs = cg._ep_classes('mistral.expression.evaluators')
    if len(evs) < 2:
        raise AnalysisError('C01.R4: evaluators not found in entry points')
    for cls in sorted(evs):
        # evaluate: some `evaluate` in the class's module wraps the
        # third-party call
        mod = prog.class_module[cls]
        cands = [f for f in prog.funcs_in_module(mod)
                 if f.name == 'evaluate' and f.cls]
        ok = False
        for f in cands:
            for t in ast.walk(f.node):
                if not isinstance(t, ast.Try):
                    continue
                for h in t.handlers:
                    tys = U.handler_types(h)
                    if not any(x in ('Exception', 'BaseException')
                               for x in tys):
                        continue
                    raises = [x for x in ast.walk(h)
                              if isinstance(x, ast.Raise)]
                    conv = any(x.exc is not None and 'EvaluationException'
                               in norm(x.exc) for x in raises)
                    last = h.body[-1] if h.body else None
                    ends = isinstance(last, ast.Raise)
                    ok = ok or (conv and ends)
        own = prog.lookup_method(cls, 'evaluate', with_overrides=False)
        r4.check(ok and bool(own), cls + ' :: evaluate',
                 'no try/except Exception converting evaluation failures to '
                 '*EvaluationException (all handler paths raising) around '
                 'the evaluation', prog.loc(cls))
        vown = prog.lookup_method(cls, 'validate', with_overrides=False)
        okv = False
        for f in [x for x in prog.funcs_in_module(mod)
                  if x.name == 'validate' and x.cls]:
            for t in ast.walk(f.node):
                if isinstance(t, ast.Try):
                    for h in t.handlers:
                        if any(isinstance(x, ast.Raise) and x.exc is not None
                               and 'GrammarException' in norm(x.exc)
                               for x in ast.walk(h)):
                            okv = True
        r4.check(okv and bool(vown), cls + ' :: validate',
                 'validate does not convert library syntax errors to '
                 '*GrammarException', prog.loc(cls))

    # ---- R5 wake-ups are registered ------------------------------------------
    r5 = ctx.rule('R5', 'completion checks and join refreshes are '
                  'registered on every normal path', 'PAIR')
    for q, meths in list(handlers.items()) + [(TH + '.skip_task',
                                               ('complete',))]:
        f = prog.func(q)
        cfg = ctx.cfg(f)
        chk = [n for n, c in U.calls_in(cfg, '_check_affected_tasks')]
        sites = [n for n, c in cfg.calls(
            lambda c: U.call_name(c) in meths and
            isinstance(c.func, ast.Attribute) and
            dotted(c.func.value) == 'task' and
            U.call_name(c) != 'set_state')]
        if not chk or not sites:
            r5.fail(ctx.construct(f, extra='_check_affected_tasks'),
                    '_check_affected_tasks(task) is not called',
                    ctx.loc(f))
            continue
        # returns that legitimately skip the check
        skip_ok = []
        for x in cfg.nodes:
            if x.kind == 'stmt' and isinstance(x.ast, ast.Return):
                # inside an except handler (force_fail_task path)
                in_handler = any(
                    any(y is x.ast for y in ast.walk(h))
                    for t in ast.walk(f.node) if isinstance(t, ast.Try)
                    for h in t.handlers)
                # sub-workflow resumed while another one is still paused:
                # the task is RUNNING, nothing was completed
                running = U.guarded(
                    cfg, x, 'states.is_running(action_ex.state)', True)
                if in_handler or running:
                    skip_ok.append(x)
        ok = all(cfg.must_pass(s, chk + skip_ok) for s in sites)
        r5.check(ok, ctx.construct(f, extra='_check_affected_tasks'),
                 'a normal path after the task call leaves %s without '
                 '_check_affected_tasks(task): joins downstream are never '
                 'refreshed' % f.name, ctx.loc(f))
    tc = prog.func(TASK + '.complete')
    cfg = ctx.cfg(tc)
    disp = U.calls_in(cfg, 'dispatch_workflow_commands')
    reg = U.calls_in(cfg, 'register_workflow_completion_check')
    proc = [cfg.stmt_node(st) for t, st in U.attr_stores(tc.node)
            if norm(t) == 'self.task_ex.processed' and
            norm(st.value) == 'True']
    r5.check(bool(disp) and bool(reg) and bool(proc) and
             cfg.dominates(reg[0][0], disp[0][0]) and
             cfg.dominates(proc[0], disp[0][0]),
             ctx.construct(tc, extra='processed + completion check before '
                           'dispatch'),
             'dispatch is reachable without processed=True and '
             'register_workflow_completion_check()', ctx.loc(tc))
    tu = prog.func(TASK + '.update')
    cfg = ctx.cfg(tu)
    reg = U.calls_in(cfg, 'register_workflow_completion_check')
    ok = False
    for n, c in reg:
        g = U.polarity_guard(cfg, n, lambda t: 'is_completed' in norm(t))
        ok = ok or (g is not None and g[1] is True)
    r5.check(ok, ctx.construct(tu, extra='completion check when completed'),
             'Task.update does not register the completion check for '
             'completed states', ctx.loc(tu))
    rc = prog.func(TASK + '.register_workflow_completion_check')
    site = [s for s in cg.posttx_sites if s[0] == rc.qname]
    r5.check(bool(site) and site[0][2] is True and any(
        'check_and_complete' in ast.unparse(prog.funcs[t].node)
        for t in site[0][1]),
        ctx.construct(rc, extra='in_tx completion check'),
        'the completion check is not registered as a transactional '
        'post-commit operation calling check_and_complete', ctx.loc(rc))
    from mstatic.rules import shared
    shared.affected_tasks_cover_completed(ctx, r5)
    shared.refresh_covers_unfinished(ctx, r5)
    shared.affected_walk_stops(ctx, r5)
    shared.routing_recorded_before_pause(ctx, r5)
    ca = prog.func(TH + '._check_affected_tasks')
    site = [s for s in cg.posttx_sites if s[0] == ca.qname]
    r5.check(bool(site) and site[0][2] is True,
             ctx.construct(ca, extra='in_tx join refresh'),
             'join refresh is not registered as a transactional post-commit '
             'operation', ctx.loc(ca))
    sw = prog.func('mistral.engine.default_engine.DefaultEngine.'
                   'start_workflow')
    cfg = ctx.cfg(sw)
    a = U.calls_in(cfg, 'start_workflow')
    b = U.calls_in(cfg, 'check_and_complete')
    r5.check(bool(a) and bool(b) and U.inside_with(cfg, b[0][0],
                                                   'transaction') and
             cfg.must_pass(a[0][0], [b[0][0]]),
             ctx.construct(sw, extra='completion check at start'),
             'start_workflow does not check completion inside the starting '
             'transaction (a workflow whose tasks all finish at once would '
             'stay RUNNING)', ctx.loc(sw))

    # ---- R6 exhaustiveness ------------------------------------------------------
    r6 = ctx.rule('R6', 'logical join states, completion verdicts and '
                  'workflow commands are handled exhaustively', 'EXH')
    produced = set()
    for q, f in prog.funcs.items():
        if not f.module.startswith('mistral.workflow.'):
            continue
        for n in own_nodes(f.node):
            if isinstance(n, ast.Call) and \
                    U.call_name(n) == 'TaskLogicalState' and n.args:
                v = prog.try_const(f.module, n.args[0])
                if isinstance(v, str):
                    produced.add(v)
    if len(produced) < 3:
        raise AnalysisError('C01.R6: logical states produced: %s' % produced)
    rf = prog.func(TH + '._refresh_task_state')
    handled = set()
    for n in own_nodes(rf.node):
        if isinstance(n, ast.Compare) and dotted(n.left) == 'state' and \
                isinstance(n.ops[0], ast.Eq):
            v = prog.try_const(rf.module, n.comparators[0])
            if isinstance(v, str):
                handled.add(v)
    for s in sorted(produced):
        r6.check(s in handled, TH + '._refresh_task_state :: logical state '
                 + s, 'logical state %s can be produced by a controller but '
                 'has no branch in _refresh_task_state (RuntimeError in the '
                 'scheduler thread, join stuck)' % s, ctx.loc(rf))
    cc = prog.func(WF + '.check_and_complete')
    cfg = ctx.cfg(cc)
    ea = U.calls_in(cfg, 'expire_all')
    setters = [n for n, c in cfg.calls(lambda c: U.call_name(c) in (
        '_succeed_workflow', '_fail_workflow', '_cancel_workflow'))]
    r6.check(bool(ea) and len(setters) == 3 and
             cfg.must_pass(ea[0][0], setters),
             ctx.construct(cc, extra='total verdict'),
             'after the incomplete-task test a path leaves '
             'check_and_complete without cancel/succeed/fail', ctx.loc(cc))
    CMDS = 'mistral.workflow.commands'
    base = CMDS + '.WorkflowCommand'
    pc = prog.func('mistral.engine.dispatcher._process_commands')
    tested = set()
    for n in own_nodes(pc.node):
        if isinstance(n, ast.Call) and U.call_name(n) == 'isinstance' and \
                len(n.args) == 2:
            els = n.args[1].elts if isinstance(n.args[1], ast.Tuple) \
                else [n.args[1]]
            for e in els:
                d = dotted(e)
                if d:
                    tested.add(prog.resolve_dotted(pc.module, d))
    ra = prog.func('mistral.engine.dispatcher._rearrange_commands')
    removed = set()
    for n in own_nodes(ra.node):
        if isinstance(n, ast.ListComp):
            for g in n.generators:
                for cnd in g.ifs:
                    if isinstance(cnd, ast.UnaryOp) and \
                            isinstance(cnd.operand, ast.Call) and \
                            U.call_name(cnd.operand) == 'isinstance':
                        d = dotted(cnd.operand.args[1])
                        if d:
                            removed.add(prog.resolve_dotted(ra.module, d))
    subs = prog.all_subclasses(base)
    if len(subs) < 6:
        raise AnalysisError('C01.R6: command classes lost')
    for c in sorted(subs):
        mro = set(prog.mro(c))
        r6.check(bool(mro & tested) or bool(mro & removed),
                 c + ' :: handled by the dispatcher',
                 'command class %s is neither handled by _process_commands '
                 'nor removed by _rearrange_commands (MistralError '
                 '"Unsupported workflow command")' % c.rsplit('.', 1)[1],
                 prog.loc(c))
    shared.command_dispatch(ctx, r6)
    shared.build_task_from_command(ctx, r6)
    for fq_, var_ in (('mistral.engine.dispatcher._process_commands', 'cmd'),
                      ('mistral.engine.task_handler._build_task_from_command',
                       'cmd')):
        shared.narrowed_attrs(ctx, r6, fq_, var_,
                              'mistral.workflow.commands.WorkflowCommand')
    shared.rearrange_tail(ctx, r6)
    try:
        eng = set(prog.const('mistral.lang.v2.workflows', 'ENGINE_COMMANDS'))
        table = prog.module_assigns[CMDS].get('ENGINE_CMD_CLS')
        keys = {prog.eval_const(CMDS, k) for k in table.keys}
    except Exception as e:
        raise AnalysisError('C01.R6: engine command tables: %s' % e)
    r6.check(eng == keys, CMDS + '.ENGINE_CMD_CLS :: keys',
             'ENGINE_CMD_CLS keys %s differ from lang ENGINE_COMMANDS %s'
             % (sorted(keys), sorted(eng)), 'mistral/workflow/commands.py')

    # ---- R7 routing table ----------------------------------------------------------
    r7 = ctx.rule('R7', 'task state -> on-clause routing table', 'STATE')
    from mstatic.rules import shared as _shg
    _shg.clause_getters_agree(ctx, r7)
    fn = prog.func(DWC + '._find_next_tasks')
    cfg = ctx.cfg(fn)
    IN, keys = sd.analyze(cfg, fn, [('t_s', sd.state_domain),
                                    ('skip_is_empty', (False, True))],
                          kill=lambda c: ())
    want = {
        'get_on_error_clause': lambda v: v[0] == S['ERROR'],
        'get_on_skip_clause': lambda v: v[0] == S['SKIPPED'],
        'get_on_success_clause':
            lambda v: v[0] == S['SUCCESS'] or (v[0] == S['SKIPPED'] and
                                               v[1] is True),
        'get_on_complete_clause':
            lambda v: v[0] in (S['SUCCESS'], S['ERROR']),
    }
    for name, pred in want.items():
        got = U.calls_in(cfg, name)
        if not got:
            r7.fail(ctx.construct(fn, extra=name), 'clause getter %s is no '
                    'longer consulted' % name, ctx.loc(fn))
            continue
        for n, c in got:
            bad = [v for v in IN[n.id] if not pred(v)]
            must = set()
            r7.check(not bad, ctx.construct(fn, extra=name),
                     '%s is consulted for task states %s'
                     % (name, sorted({str(v[0]) for v in bad})),
                     ctx.loc(fn, c))
            # and it IS consulted for the states it must serve
            reach_states = {v[0] for v in IN[n.id]}
            need = {'get_on_error_clause': {S['ERROR']},
                    'get_on_skip_clause': {S['SKIPPED']},
                    'get_on_success_clause': {S['SUCCESS'], S['SKIPPED']},
                    'get_on_complete_clause': {S['SUCCESS'], S['ERROR']}}
            r7.check(need[name] <= reach_states,
                     ctx.construct(fn, extra=name + ' coverage'),
                     '%s is never consulted for %s'
                     % (name, sorted(need[name] - reach_states)),
                     ctx.loc(fn, c))
    # each clause loop adds (name, params, <its own event>) for the entries
    # whose condition is absent or evaluates to true
    ev_of = {'get_on_error_clause': 'on-error',
             'get_on_skip_clause': 'on-skip',
             'get_on_success_clause': 'on-success',
             'get_on_complete_clause': 'on-complete'}
    for lp in [x for x in own_nodes(fn.node) if isinstance(x, ast.For)]:
        getter = U.call_name(lp.iter) if isinstance(lp.iter, ast.Call) \
            else None
        if getter not in ev_of:
            continue
        tv = [dotted(e) for e in getattr(lp.target, 'elts', [])]
        apps = [y for y in ast.walk(lp) if isinstance(y, ast.Call) and
                U.call_name(y) == 'append' and
                dotted(y.func.value) == 'result']
        okl = len(tv) == 3 and len(apps) == 1
        if okl:
            a = apps[0]
            an = cfg.node_of(a)
            tup = a.args[0] if a.args else None
            okl = isinstance(tup, ast.Tuple) and len(tup.elts) == 3 and \
                dotted(tup.elts[0]) == tv[0] and \
                isinstance(tup.elts[2], ast.Constant) and \
                tup.elts[2].value == ev_of[getter] and \
                U.guarded(cfg, an, 'not %s or expr.evaluate(%s, ___)'
                          % (tv[1], tv[1]), True) and \
                not any(isinstance(y, (ast.Break, ast.Continue, ast.Return))
                        for y in ast.walk(lp))
        r7.check(okl, ctx.construct(fn, extra=getter + ' entries'),
                 'the %s loop does not add exactly the entries whose '
                 'condition is absent or true, tagged %r'
                 % (getter, ev_of[getter]), ctx.loc(fn, lp))
    # skip_is_empty only when on-skip produced nothing
    for x in own_nodes(fn.node):
        if isinstance(x, ast.Assign) and dotted(x.targets[0]) == \
                'skip_is_empty' and norm(x.value) == 'True':
            sn = cfg.stmt_node(x)
            r7.check(U.guarded(cfg, sn, 'len(result) == 0', True) or
                     U.guarded(cfg, sn, 'result', False),
                     ctx.construct(fn, extra='on-success fallback'),
                     'on-success is followed for SKIPPED although on-skip '
                     'produced transitions', ctx.loc(fn, x))
    fc = prog.func(DWC + '._find_next_commands_for_task')
    he = [U.kwarg(c, 'handles_error') for c in
          [n for n in own_nodes(fc.node) if isinstance(n, ast.Call) and
           U.call_name(n) == 'create_command']]
    r7.check(bool(he) and he[0] is not None and norm(he[0]) in (
        "event_name == 'on-error'", "'on-error' == event_name"),
        ctx.construct(fc, extra='handles_error'),
        'handles_error is not exactly "event is on-error"', ctx.loc(fc))

    # ---- R8 hop integrity ----------------------------------------------------------------
    r8 = ctx.rule('R8', 'scheduler job descriptors and RPC signatures '
                  'resolve (a mismatch is a silently lost continuation)',
                  'AGREE')
    c13.job_descriptors(ctx, r8)
    c06.rpc_surface(ctx, r8)
    c06.rpc_params_forwarded_unchanged(ctx, r8)

    # ---- R10 termination devices ------------------------------------------------------------
    r10 = ctx.rule('R10', 'task-graph walks end on cyclic definitions',
                   'termination device')
    c04.termination_devices(ctx, r10)

    # ---- R12 join / requires verdicts (the part of the language semantics
    # whose wrong answer is a hang or a task that runs too early) ---------------
    r12 = ctx.rule('R12', 'join verdict tables, route search, execution '
                   'cache and reverse requires give the prescribed answer '
                   '(shared with C04.R6/R8/R10)', 'DT + GD')
    from mstatic.rules import joinlogic
    joinlogic.join_logical_state(ctx, r12)
    joinlogic.induced_join_state(ctx, r12)
    joinlogic.possible_route(ctx, r12)
    joinlogic.route_cache_covers_inbound(ctx, r12)
    c04.cache_rule(ctx, r12)
    c04.reverse_rules(ctx, r12)
    c04.reverse_graph(ctx, r12)
    r12.floor(12)

    # ---- R13 transaction demarcation and the post-commit queue itself ------------
    r13 = ctx.rule('R13', 'transaction(): commit exactly after a normal '
                   'body, end on every exit; post-commit queue: fresh per '
                   'call, cleared on every exit, run after a normal return, '
                   'every operation with its arguments in the right '
                   'transaction context', 'GD/PAIR')
    from mstatic.rules import txqueue
    txqueue.transaction_shape(ctx, r13)
    txqueue.queue_shape(ctx, r13)
    r13.floor(15)

    # ---- R15 transient DB faults are retried, not swallowed ------------------------
    r15 = ctx.rule('R15', 'no broad exception handler swallows DB errors '
                   'inside a function decorated with retry_on_db_error',
                   'GD (handlers)')
    shared.retry_not_defeated(ctx, r15)

    # ---- R16 what "nothing pending" means --------------------------------------------
    r16 = ctx.rule('R16', 'the incomplete / completed task queries partition '
                   'the states exactly as is_completed() does; requires are '
                   'read with task-defaults merged', 'AGREE (const)')
    shared.completion_queries_partition(ctx, r16)
    shared.requires_read_with_defaults(ctx, r16)

    # ---- R17 completion verdict and what a finished task does next ---------------
    r17 = ctx.rule('R17', 'check_and_complete finishes the workflow exactly '
                   'when nothing is pending, with the prescribed verdict; a '
                   'finished task records its routing and does not continue '
                   'while a policy holds it DELAYED', 'DT + GD')
    from mstatic.rules import completion
    completion.check_and_complete_table(ctx, r17)
    completion.task_complete_followup(ctx, r17)
    completion.regular_on_action_complete(ctx, r17)
    completion.rerun_waiting_task(ctx, r17)

    # ---- R14 which commands follow a completed task / a start / a resume -------
    r14 = ctx.rule('R14', 'the controllers turn start, resume and every '
                   'completed task into the prescribed commands (start '
                   'tasks, IDLE tasks, unprocessed completed tasks, one '
                   'command per routed name, unknown names refused)',
                   'DT + AGREE')
    from mstatic.rules import cmdcalc
    cmdcalc.next_commands(ctx, r14)
    r14.floor(20)

    # ---- R11 explicit raises escaping engine entry points --------------------------------
    r11 = ctx.rule('R11', 'explicit raises of undeclared error types that '
                   'can escape an engine entry point equal the frozen '
                   'table', 'WMW-reach (exception escape)')
    from mstatic.escape import Escapes
    es = Escapes(prog, cg)
    ENGQ = 'mistral.engine.default_engine.DefaultEngine'
    eroots = [m.qname for m in prog.methods_of(ENGQ)
              if not m.name.startswith('_')]
    eroots += [p for (_q, p, _a, _n) in cg.sched_sites if p in prog.funcs]
    if len(set(eroots)) < 15:
        raise AnalysisError('C01.R11: only %d engine entry points'
                            % len(set(eroots)))
    found = {}
    for rq in sorted(set(eroots)):
        for (cls, site), ln in es.raised.get(rq, {}).items():
            if not es.is_declared(cls):
                found.setdefault((cls, site), []).append(rq)
    if len(found) < 5:
        raise AnalysisError('C01.R11: escape analysis found only %d sites'
                            % len(found))
    for (cls, site), via in sorted(found.items()):
        key = '%s @ %s' % (cls.rsplit('.', 1)[-1], site)
        r11.check(key in ESCAPE_OK, site + ' :: raise ' +
                  cls.rsplit('.', 1)[-1],
                  'an explicit raise of %s (not one of the service\'s '
                  'declared error types) can escape engine entry point(s) '
                  '%s: callers and the REST layer only map Mistral errors'
                  % (cls, sorted(v.rsplit('.', 1)[-1] for v in via)[:4]),
                  prog.loc(site), ESCAPE_OK.get(key, ''))

    # ---- R9 no nested transactions (thorough) --------------------------------------------------
    if ctx.tier == 'thorough':
        r9 = ctx.rule('R9', 'no function that opens a transaction is '
                      'reachable from inside another transaction body',
                      'WMW-reach')
        openers = {}
        for q, f in prog.funcs.items():
            if f.module.startswith('mistral.db.'):
                continue
            for n in own_nodes(f.node):
                if isinstance(n, ast.With) and any(
                        isinstance(x, ast.Call) and
                        U.call_name(x) == 'transaction'
                        for i in n.items for x in ast.walk(i.context_expr)):
                    openers.setdefault(q, []).append(n)
        if len(openers) < 30:
            raise AnalysisError('C01.R9: only %d transaction openers'
                                % len(openers))
        for q, withs in sorted(openers.items()):
            f = prog.funcs[q]
            bad = []
            for w in withs:
                for x in ast.walk(w):
                    if x is w or not isinstance(x, ast.Call):
                        continue
                    if any(x is y for i in w.items
                           for y in ast.walk(i.context_expr)):
                        continue
                    for t in cg.call_targets(q, x):
                        r = cg.reach_forward({t}, kinds=('call', 'nested'))
                        for o in r & set(openers):
                            if (q, o) not in NESTED_TX_OK and o != q:
                                bad.append(o)
            r9.check(not bad, q + ' :: transaction body',
                     'transaction body reaches %s which opens another '
                     'transaction (start_tx raises when one is already '
                     'open)' % sorted(set(bad))[:3], ctx.loc(f))
