"""Small query helpers shared by the rule modules."""
import ast

from mstatic.core import dotted, norm, own_nodes, walk_no_defs  # noqa: F401


def call_name(call):
    f = call.func
    if isinstance(f, ast.Attribute):
        return f.attr
    if isinstance(f, ast.Name):
        return f.id
    return None


def call_dotted(call):
    return dotted(call.func) or ''


def is_call(call, *names):
    """names may be plain ('set_state') or dotted suffixes
    ('db_api.refresh')."""
    d = call_dotted(call)
    n = call_name(call)
    for want in names:
        if '.' in want:
            if d == want or d.endswith('.' + want):
                return True
        elif n == want:
            return True
    return False


def calls_in(cfg, *names):
    return cfg.calls(lambda c: is_call(c, *names))


def node_has_call(cfg, n, *names):
    for sub in cfg.own_nodes(n):
        if isinstance(sub, ast.Call) and is_call(sub, *names):
            return True
    return False


def dominating_calls(cfg, n, *names):
    """Dominators of n (nearest first) that contain a call to one of names."""
    return [d for d in cfg.dominators(n) if node_has_call(cfg, d, *names)]


def inside_with(cfg, n, *names):
    """with-nodes enclosing n whose context expression calls one of names."""
    out = []
    for w in cfg.enclosing_withs(n):
        for it in w.ast.items:
            for sub in walk_no_defs(it.context_expr):
                if isinstance(sub, ast.Call) and is_call(sub, *names):
                    out.append(w)
    return out


def kwarg(call, name, pos=None):
    for k in call.keywords:
        if k.arg == name:
            return k.value
    if pos is not None and len(call.args) > pos:
        return call.args[pos]
    return None


def handler_types(h):
    """Names of exception classes caught by an ExceptHandler."""
    if h.type is None:
        return ['BaseException']
    if isinstance(h.type, ast.Tuple):
        return [dotted(e) or norm(e) for e in h.type.elts]
    return [dotted(h.type) or norm(h.type)]


def stmts_calls(stmts, *names):
    out = []
    for s in stmts:
        for sub in walk_no_defs(s):
            if isinstance(sub, ast.Call) and is_call(sub, *names):
                out.append(sub)
    return out


def body_ends_with(stmts, kinds):
    """Last statement of a block is one of the given ast classes."""
    return bool(stmts) and isinstance(stmts[-1], kinds)


def guard_values(ctx, f, node, variables, key, init=None, kill=None):
    """Set of values `key` may have when control reaches CFG `node`."""
    cfg = ctx.cfg(f)
    IN, keys = ctx.sd.analyze(cfg, f, variables, init=init, kill=kill)
    return ctx.sd.values_at(IN, keys, node, key), IN, keys


def names_in(node):
    return {n.id for n in ast.walk(node) if isinstance(n, ast.Name)}


def attr_stores(fnode):
    """(target Attribute node, statement) for every attribute store in a
    function body (excluding nested defs)."""
    out = []
    for n in own_nodes(fnode):
        if isinstance(n, ast.Assign):
            for t in n.targets:
                for x in ([t] if not isinstance(t, (ast.Tuple, ast.List))
                          else t.elts):
                    if isinstance(x, ast.Attribute):
                        out.append((x, n))
        elif isinstance(n, (ast.AugAssign, ast.AnnAssign)):
            if isinstance(n.target, ast.Attribute):
                out.append((n.target, n))
    return out


def find_funcs(prog, pred):
    return [f for f in prog.funcs.values() if pred(f)]


def first_stmt_index(body):
    """Index of first non-docstring statement."""
    if body and isinstance(body[0], ast.Expr) and \
            isinstance(body[0].value, ast.Constant) and \
            isinstance(body[0].value.value, str):
        return 1
    return 0


def polarity_guard(cfg, n, pred):
    """First dominating branch edge (test_ast, polarity) whose test satisfies
    pred(test_ast); None when absent."""
    for (t, pol, gn) in cfg.guards(n):
        if not isinstance(t, ast.expr):
            continue
        if pred(t):
            return (t, pol, gn)
    return None
