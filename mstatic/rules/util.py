"""Small query helpers shared by the rule modules."""
import ast

from mstatic.core import dotted, norm, own_nodes, walk_no_defs  # noqa: F401


def call_name(call):
    f = call.func
    if isinstance(f, ast.Attribute):
        return f.attr
    if isinstance(f, ast.Name):
        return f.id
    return None


def call_dotted(call):
    return dotted(call.func) or ''


def is_call(call, *names):
    """names may be plain ('set_state') or dotted suffixes
    ('db_api.refresh')."""
    d = call_dotted(call)
    n = call_name(call)
    for want in names:
        if '.' in want:
            if d == want or d.endswith('.' + want):
                return True
        elif n == want:
            return True
    return False


def calls_in(cfg, *names):
    return cfg.calls(lambda c: is_call(c, *names))


def node_has_call(cfg, n, *names):
    for sub in cfg.own_nodes(n):
        if isinstance(sub, ast.Call) and is_call(sub, *names):
            return True
    return False


def dominating_calls(cfg, n, *names):
    """Dominators of n (nearest first) that contain a call to one of names."""
    return [d for d in cfg.dominators(n) if node_has_call(cfg, d, *names)]


def inside_with(cfg, n, *names):
    """with-nodes enclosing n whose context expression calls one of names."""
    out = []
    for w in cfg.enclosing_withs(n):
        for it in w.ast.items:
            for sub in walk_no_defs(it.context_expr):
                if isinstance(sub, ast.Call) and is_call(sub, *names):
                    out.append(w)
    return out


def kwarg(call, name, pos=None):
    for k in call.keywords:
        if k.arg == name:
            return k.value
    if pos is not None and len(call.args) > pos:
        return call.args[pos]
    return None


def handler_types(h):
    """Names of exception classes caught by an ExceptHandler."""
    if h.type is None:
        return ['BaseException']
    if isinstance(h.type, ast.Tuple):
        return [dotted(e) or norm(e) for e in h.type.elts]
    return [dotted(h.type) or norm(h.type)]


def stmts_calls(stmts, *names):
    out = []
    for s in stmts:
        for sub in walk_no_defs(s):
            if isinstance(sub, ast.Call) and is_call(sub, *names):
                out.append(sub)
    return out


def body_ends_with(stmts, kinds):
    """Last statement of a block is one of the given ast classes."""
    return bool(stmts) and isinstance(stmts[-1], kinds)


def guard_values(ctx, f, node, variables, key, init=None, kill=None):
    """Set of values `key` may have when control reaches CFG `node`."""
    cfg = ctx.cfg(f)
    IN, keys = ctx.sd.analyze(cfg, f, variables, init=init, kill=kill)
    return ctx.sd.values_at(IN, keys, node, key), IN, keys


def names_in(node):
    return {n.id for n in ast.walk(node) if isinstance(n, ast.Name)}


def attr_stores(fnode):
    """(target Attribute node, statement) for every attribute store in a
    function body (excluding nested defs)."""
    out = []
    for n in own_nodes(fnode):
        if isinstance(n, ast.Assign):
            for t in n.targets:
                for x in ([t] if not isinstance(t, (ast.Tuple, ast.List))
                          else t.elts):
                    if isinstance(x, ast.Attribute):
                        out.append((x, n))
        elif isinstance(n, (ast.AugAssign, ast.AnnAssign)):
            if isinstance(n.target, ast.Attribute):
                out.append((n.target, n))
    return out


def find_funcs(prog, pred):
    return [f for f in prog.funcs.values() if pred(f)]


def is_log_stmt(s):
    """`LOG.<level>(...)` / `wf_trace.<level>(...)` as a statement."""
    return isinstance(s, ast.Expr) and isinstance(s.value, ast.Call) and \
        (dotted(s.value.func) or '').split('.')[0] in ('LOG', 'wf_trace',
                                                       'logging')


def first_stmt_index(body):
    """Index of first non-docstring statement."""
    if body and isinstance(body[0], ast.Expr) and \
            isinstance(body[0].value, ast.Constant) and \
            isinstance(body[0].value.value, str):
        return 1
    return 0


def polarity_guard(cfg, n, pred):
    """First dominating fact (atom, truth, None) whose atom satisfies
    pred(atom); atoms are normalised (see guard_atoms): `if not x: return`
    followed by code yields (x, True) for that code."""
    for (a, truth) in _all_atoms(cfg, n):
        try:
            if pred(a):
                return (a, truth, None)
        except Exception:
            continue
    return None


# structural patterns with metavariables (see mstatic/pattern.py)
from mstatic.pattern import P, find as pfind, has as phas  # noqa: E402,F401


def writes_key(fnode, key):
    """The function stores a value under the constant dict key `key`
    (dict literal or subscript assignment)."""
    for n in own_nodes(fnode):
        if isinstance(n, ast.Dict):
            if any(isinstance(k, ast.Constant) and k.value == key
                   for k in n.keys):
                return True
        if isinstance(n, ast.Assign):
            for t in n.targets:
                if isinstance(t, ast.Subscript) and \
                        isinstance(t.slice, ast.Constant) and \
                        t.slice.value == key:
                    return True
    return False


def reads_key(fnode, key, base_attr=None):
    """The function reads constant key `key` (x[key] / x.get(key)),
    optionally from an attribute named base_attr."""
    for n in own_nodes(fnode):
        base = None
        if isinstance(n, ast.Subscript) and \
                isinstance(n.slice, ast.Constant) and n.slice.value == key \
                and isinstance(n.ctx, ast.Load):
            base = n.value
        if isinstance(n, ast.Call) and isinstance(n.func, ast.Attribute) \
                and n.func.attr == 'get' and n.args and \
                isinstance(n.args[0], ast.Constant) and \
                n.args[0].value == key:
            base = n.func.value
        if base is not None:
            if base_attr is None:
                return True
            if isinstance(base, ast.Attribute) and base.attr == base_attr:
                return True
    return False


def lambda_names(fnode, pattern):
    """Local names bound to a lambda whose body matches pattern."""
    from mstatic.pattern import match, P as _P
    pat = _P(pattern) if isinstance(pattern, str) else pattern
    out = set()
    for n in own_nodes(fnode):
        if isinstance(n, ast.Assign) and isinstance(n.value, ast.Lambda) and \
                len(n.targets) == 1 and isinstance(n.targets[0], ast.Name):
            if match(pat, n.value.body) is not None:
                out.add(n.targets[0].id)
    return out


_NEG = {ast.NotEq: ast.Eq, ast.NotIn: ast.In, ast.IsNot: ast.Is,
        ast.GtE: ast.Lt, ast.Gt: ast.LtE}


# op -> ((canonical op, swap operands) if true, (...) if false)
_ORDER = {
    ast.Lt: ((ast.Lt, False), (ast.LtE, True)),
    ast.LtE: ((ast.LtE, False), (ast.Lt, True)),
    ast.Gt: ((ast.Lt, True), (ast.LtE, False)),
    ast.GtE: ((ast.LtE, True), (ast.Lt, False)),
}


def _atoms(t, pol, out):
    if isinstance(t, ast.UnaryOp) and isinstance(t.op, ast.Not):
        _atoms(t.operand, not pol, out)
    elif isinstance(t, ast.BoolOp) and isinstance(t.op, ast.And) and pol:
        for v in t.values:
            _atoms(v, True, out)
    elif isinstance(t, ast.BoolOp) and isinstance(t.op, ast.Or) and not pol:
        for v in t.values:
            _atoms(v, False, out)
    elif isinstance(t, ast.Compare) and len(t.ops) == 1 and \
            type(t.ops[0]) in _ORDER:
        # order comparisons: canonical form is `<` / `<=` holding true
        # (a > b  ==  b < a;  not a < b  ==  b <= a)
        op, swap = _ORDER[type(t.ops[0])][0 if pol else 1]
        a, b = t.left, t.comparators[0]
        if swap:
            a, b = b, a
        out.append((ast.Compare(left=a, ops=[op()], comparators=[b]), True))
    elif isinstance(t, ast.Compare) and len(t.ops) == 1 and \
            type(t.ops[0]) in _NEG:
        pos = ast.Compare(left=t.left, ops=[_NEG[type(t.ops[0])]()],
                          comparators=t.comparators)
        out.append((pos, not pol))
    else:
        out.append((t, pol))


def guard_atoms(cfg, node):
    """Facts that hold when control reaches `node`, from its dominating
    branch edges: [(expr, truth)] with negations, conjunctions (true edge)
    and disjunctions (false edge) split and comparisons normalised to their
    positive operator (`a != b` true  ==  `a == b` false)."""
    out = []
    for a, _b in guard_groups(cfg, node):
        out += a
    return out


def guard_groups(cfg, node):
    """Per dominating branch edge: (atoms as written, atoms with a test
    value that was named immediately before the test put back in place, or
    None when that is the same thing)."""
    out = []
    for (t, pol, gn) in cfg.guards(node):
        if isinstance(t, ast.expr):
            a = []
            _atoms(t, pol, a)
            u = _unhoist(gn, t)
            b = None
            if u is not t:
                b = []
                _atoms(u, pol, b)
            out.append((a, b))
    return out


def _all_atoms(cfg, node):
    out = []
    for a, b in guard_groups(cfg, node):
        out += a
        if b:
            out += b
    return out


def _unhoist(tf_node, t):
    """`v = <cond>` immediately followed by `if v:` (or `if not v`, `if v
    and ...`) is the test `if <cond>:` - the value was computed at the
    branch.  The local is replaced by its expression so that facts do not
    depend on whether a test was given a name first."""
    import copy as _copy
    test = tf_node.pred[0][0] if tf_node.pred else None
    if test is None or test.kind != 'test' or len(test.pred) != 1:
        return t
    prev = test.pred[0][0]
    if not (prev.kind == 'stmt' and isinstance(prev.ast, ast.Assign) and
            len(prev.ast.targets) == 1 and
            isinstance(prev.ast.targets[0], ast.Name)):
        return t
    name = prev.ast.targets[0].id
    if not any(isinstance(x, ast.Name) and x.id == name
               for x in ast.walk(t)):
        return t

    class T(ast.NodeTransformer):
        def visit_Name(self, node):
            if node.id == name and isinstance(node.ctx, ast.Load):
                return _copy.deepcopy(prev.ast.value)
            return node
    return T().visit(_copy.deepcopy(t))


def guarded(cfg, node, pattern, truth=True):
    """Some dominating fact matches `pattern` with the given truth value."""
    from mstatic.pattern import match, P as _P
    pat = _P(pattern) if isinstance(pattern, str) else pattern
    want = []
    _atoms(pat, truth, want)
    have = _all_atoms(cfg, node)
    for (wp, wt) in want:
        if not any(at == wt and match(wp, a) is not None
                   for a, at in have):
            return False
    return True


def guard_match(cfg, node, pattern, truth=True):
    """Bindings of every dominating atom with the given truth value that
    matches `pattern` (a single atom pattern)."""
    from mstatic.pattern import match, P as _P
    pat = _P(pattern) if isinstance(pattern, str) else pattern
    out = []
    for a, at in _all_atoms(cfg, node):
        if at == truth:
            b = match(pat, a)
            if b is not None:
                out.append(b)
    return out


def nodes_where(cfg, pattern, truth=True):
    """CFG nodes dominated by the fact pattern == truth."""
    return [n for n in cfg.nodes if guarded(cfg, n, pattern, truth)]


def gfacts(cfg, node):
    """[(normalised text of atom, truth)] for the facts dominating node."""
    return [(norm(a), t) for a, t in guard_atoms(cfg, node)]


def plain_update_only_without_filter(cfg, flt='query_filter'):
    """In a DB function offering a conditional update (update_on_match under
    `if query_filter`), the unconditional object update `<row>.update(...)`
    is reachable only when NO filter was given.  A test that is narrower
    than "a filter was given" sends some filtered calls down the
    unconditional path: the compare-and-swap silently becomes a blind
    write."""
    plain = [n for n, c in cfg.calls(
        lambda c: call_name(c) == 'update' and
        isinstance(c.func, ast.Attribute) and
        isinstance(c.func.value, ast.Name))]
    return bool(plain) and all(guarded(cfg, n, flt, False) for n in plain)


def inline_locals(fnode, expr):
    """Text of expr with local names that are assigned exactly once in the
    function, from a dotted attribute path, replaced by that path (column
    aliases like `captured_at_col = models.ScheduledJob.captured_at`)."""
    import copy as _copy
    single = {}
    counts = {}
    for n in own_nodes(fnode):
        if isinstance(n, ast.Assign):
            for t in n.targets:
                if isinstance(t, ast.Name):
                    counts[t.id] = counts.get(t.id, 0) + 1
                    if isinstance(n.value, ast.Attribute) and \
                            dotted(n.value):
                        single[t.id] = n.value
    e = _copy.deepcopy(expr)

    class T(ast.NodeTransformer):
        def visit_Name(self, node):
            if node.id in single and counts.get(node.id) == 1:
                return _copy.deepcopy(single[node.id])
            return node
    e = T().visit(e)
    return e


def only_guards(cfg, node, allowed):
    """Every fact that dominates `node` is one of `allowed`
    [(pattern, truth)]: the node is reached WHENEVER those facts hold - no
    further condition narrows it.  (A dominating atom `x` true is also
    implied by a narrower test `x and y`; asking for the atom alone cannot
    tell the two apart, asking that nothing else dominates can.)"""
    from mstatic.pattern import match, P as _P
    pats = []
    for pat, truth in allowed:
        want = []
        _atoms(_P(pat) if isinstance(pat, str) else pat, truth, want)
        pats += want
    def ok(atoms):
        return all(any(t == wt and match(wp, a) is not None
                       for wp, wt in pats) for a, t in atoms)
    for a, b in guard_groups(cfg, node):
        if not ok(a) and not (b and ok(b)):
            return False
    return True


def _single_defs(fnode):
    """{local name: value expr} for names assigned exactly once in the
    function by a plain `name = expr` (not in a loop target / with / aug)."""
    counts, vals = {}, {}
    if isinstance(fnode, (ast.FunctionDef, ast.AsyncFunctionDef)):
        a = fnode.args
        for x in a.posonlyargs + a.args + a.kwonlyargs + \
                [y for y in (a.vararg, a.kwarg) if y is not None]:
            counts[x.arg] = 1
            vals[x.arg] = None
    for n in own_nodes(fnode):
        tg = []
        if isinstance(n, ast.Assign):
            for t in n.targets:
                for x in ast.walk(t):
                    if isinstance(x, ast.Name):
                        tg.append((x.id, n.value if isinstance(t, ast.Name)
                                   else None))
        elif isinstance(n, (ast.AugAssign, ast.AnnAssign)):
            for x in ast.walk(n.target):
                if isinstance(x, ast.Name):
                    tg.append((x.id, None))
        elif isinstance(n, (ast.For, ast.comprehension)):
            for x in ast.walk(n.target):
                if isinstance(x, ast.Name):
                    tg.append((x.id, None))
        elif isinstance(n, ast.With):
            for it in n.items:
                if it.optional_vars is not None:
                    for x in ast.walk(it.optional_vars):
                        if isinstance(x, ast.Name):
                            tg.append((x.id, None))
        elif isinstance(n, ast.ExceptHandler) and n.name:
            tg.append((n.name, None))
        for name, val in tg:
            counts[name] = counts.get(name, 0) + 1
            vals[name] = val
    return {k: v for k, v in vals.items() if counts[k] == 1 and v is not None}


def canon_expr(fnode, expr, depth=3):
    """expr with single-definition locals replaced by their defining
    expressions (so that facts are phrased over parameters, attributes and
    calls and do not depend on the names of locals)."""
    import copy as _copy
    defs = _single_defs(fnode)

    class T(ast.NodeTransformer):
        def __init__(self, d):
            self.d = d

        def visit_Name(self, node):
            if isinstance(node.ctx, ast.Load) and node.id in defs and \
                    self.d > 0:
                sub = T(self.d - 1).visit(_copy.deepcopy(defs[node.id]))
                # keep the local's name when its definition is large: the
                # fact would be unreadable and no more stable
                if len(ast.unparse(sub)) <= 90:
                    return sub
            return node
    return T(depth).visit(_copy.deepcopy(expr))


def reaching_defs(cfg, name):
    """May-reaching definitions of a local: node id -> set of defining
    value expressions (ast nodes), 'param' for the value the function was
    entered with ('unbound' when the name is not a parameter), or 'other' for
    a binding that is not a plain assignment
    (loop target, with-as, augmented assignment, tuple unpacking)."""
    gen = {}
    for n in cfg.nodes:
        if n.kind == 'stmt' and isinstance(n.ast, (ast.Assign,
                                                   ast.AnnAssign)):
            tg = n.ast.targets if isinstance(n.ast, ast.Assign) \
                else [n.ast.target]
            for t in tg:
                if isinstance(t, ast.Name) and t.id == name:
                    gen[n.id] = n.ast.value if n.ast.value is not None \
                        else 'other'
                elif any(isinstance(x, ast.Name) and x.id == name and
                         isinstance(x.ctx, ast.Store) for x in ast.walk(t)):
                    gen[n.id] = 'other'
        elif n.kind == 'stmt' and isinstance(n.ast, ast.AugAssign) and \
                isinstance(n.ast.target, ast.Name) and \
                n.ast.target.id == name:
            gen[n.id] = 'other'
        elif n.kind in ('for', 'with'):
            for e in cfg.exprs_of(n):
                if any(isinstance(x, ast.Name) and x.id == name and
                       isinstance(x.ctx, ast.Store) for x in ast.walk(e)):
                    gen[n.id] = 'other'
    a = cfg.fnode.args
    params = {x.arg for x in a.posonlyargs + a.args + a.kwonlyargs}
    params |= {x.arg for x in (a.vararg, a.kwarg) if x is not None}
    start = 'param' if name in params else 'unbound'
    IN = {n.id: set() for n in cfg.nodes}
    OUT = {n.id: set() for n in cfg.nodes}
    OUT[cfg.entry.id] = {start}
    work = list(cfg.nodes)
    while work:
        n = work.pop()
        i = set()
        for p, k in n.pred:
            i |= OUT[p.id]
            if k == 'exc':
                # the statement may have raised before it assigned
                i |= IN[p.id]
        if n is cfg.entry:
            i = {start}
        changed = i != IN[n.id]
        IN[n.id] = i
        o = {gen[n.id]} if n.id in gen else i
        if o != OUT[n.id] or changed:
            OUT[n.id] = o
            work.extend(s for s, _k in n.succ)
    return IN
