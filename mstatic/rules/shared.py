"""Rules shared by several properties."""
import ast

from mstatic.core import AnalysisError, dotted, norm, own_nodes
from mstatic.rules import util as U
from mstatic.statedom import OBJ

CMDS = 'mistral.workflow.commands'

# keys written by to_dict that need not be read back, with the reason
DERIVED_KEYS = {
    'new_state': 'implied by the command class chosen through cmd_name',
}


def dict_keys_written(prog, cls_q):
    """Keys stored into the dict returned by <cls>.to_dict (MRO chain)."""
    keys = set()
    found = False
    for k in prog.mro(cls_q):
        f = prog.funcs.get(k + '.to_dict')
        if f is None:
            continue
        found = True
        for n in own_nodes(f.node):
            if isinstance(n, ast.Dict):
                for kk in n.keys:
                    if isinstance(kk, ast.Constant):
                        keys.add(kk.value)
            if isinstance(n, ast.Assign):
                for t in n.targets:
                    if isinstance(t, ast.Subscript) and \
                            isinstance(t.slice, ast.Constant):
                        keys.add(t.slice.value)
    if not found:
        raise AnalysisError('no to_dict for %s' % cls_q)
    return keys


def backlog_round_trip(ctx, rule):
    """Every key that a restorable command writes into the backlog is read
    back by restore_command_from_dict, and command attributes consumed by
    task_handler._build_task_from_command are restored from them."""
    prog = ctx.prog
    rf = prog.func(CMDS + '.restore_command_from_dict')
    read = set()
    for n in own_nodes(rf.node):
        if isinstance(n, ast.Subscript) and dotted(n.value) == 'cmd_dict' \
                and isinstance(n.slice, ast.Constant):
            read.add(n.slice.value)
        if isinstance(n, ast.Call) and U.call_dotted(n) == 'cmd_dict.get' \
                and n.args and isinstance(n.args[0], ast.Constant):
            read.add(n.args[0].value)
        if isinstance(n, ast.Compare) and isinstance(n.left, ast.Constant) \
                and any(dotted(c) == 'cmd_dict' for c in n.comparators):
            read.add(n.left.value)
    # classes create_command can build: RunTask + ENGINE_CMD_CLS values
    tree = prog.module(CMDS)
    table = prog.module_assigns[CMDS].get('ENGINE_CMD_CLS')
    if not isinstance(table, ast.Dict):
        raise AnalysisError('ENGINE_CMD_CLS table not found')
    classes = [CMDS + '.RunTask'] + [CMDS + '.' + dotted(v)
                                     for v in table.values]
    n = 0
    for c in classes:
        prog.cls(c)
        for key in sorted(dict_keys_written(prog, c)):
            n += 1
            ok = key in read or key in DERIVED_KEYS
            rule.check(ok, '%s.to_dict :: %r' % (c, key),
                       'key %r is saved to the backlog but never restored by '
                       'restore_command_from_dict (the command comes back '
                       'with the constructor default)' % key,
                       ctx.loc(rf), DERIVED_KEYS.get(key, 'restored'))
    if n < 10:
        raise AnalysisError('backlog round trip: only %d keys' % n)
    # what is saved under a key is the attribute of the command itself, not
    # a filtered / cleaned copy of it (the context saved with a command
    # carries its `__versions`: without them the data of the restored
    # command loses every merge against a branch that kept its versions)
    n_v = 0
    for c in [CMDS + '.WorkflowCommand'] + classes:
        g = prog.funcs.get(c + '.to_dict')
        if g is None:
            continue
        pairs = []
        for x in own_nodes(g.node):
            if isinstance(x, ast.Dict):
                pairs += [(k.value, v) for k, v in zip(x.keys, x.values)
                          if isinstance(k, ast.Constant)]
            if isinstance(x, ast.Assign) and \
                    isinstance(x.targets[0], ast.Subscript) and \
                    isinstance(x.targets[0].slice, ast.Constant):
                pairs.append((x.targets[0].slice.value, x.value))
        for key, v in pairs:
            n_v += 1
            d = dotted(v) or ''
            plain = isinstance(v, ast.Constant) or d.startswith('self.') or (
                isinstance(v, ast.Call) and
                (dotted(v.func) or '').startswith('self.') and not v.args)
            if key == 'ctx' and not plain:
                # the data context may be saved as a copy (a seeding agent
                # found that even a copy without `__versions` does not show:
                # the inbound context is rebuilt from the upstream tasks
                # when the task completes); what is required is that it IS
                # the command's context
                src = v
                if isinstance(v, ast.Name):
                    ds = [x.value for x in own_nodes(g.node)
                          if isinstance(x, ast.Assign) and
                          dotted(x.targets[0]) == v.id]
                    src = ds[0] if len(ds) == 1 else v
                plain = any(dotted(y) == 'self.ctx' for y in ast.walk(src))
            rule.check(plain, '%s.to_dict :: %r saved as it is' % (c, key),
                       'the backlog entry stores %s under %r, not the '
                       "command's own attribute" % (norm(v, 50), key),
                       ctx.loc(g, v))
    if n_v < 10:
        raise AnalysisError('backlog round trip: only %d saved values' % n_v)
    # attributes consumed when the task is built from a RunTask command
    bf = prog.func('mistral.engine.task_handler._build_task_from_command')
    consumed = set()
    for t in ast.walk(bf.node):
        if isinstance(t, ast.If) and 'RunTask' in norm(t.test) and \
                'RunExistingTask' not in norm(t.test):
            for x in ast.walk(t):
                if isinstance(x, ast.Attribute) and dotted(x.value) == 'cmd':
                    consumed.add(x.attr)
    if not consumed:
        raise AnalysisError('RunTask branch of _build_task_from_command '
                            'lost')
    # attribute -> backlog key (is_waiting() reads self.wait)
    attr_key = {'is_waiting': 'wait', 'unique_key': 'unique_key',
                'triggered_by': 'triggered_by', 'ctx': 'ctx',
                'task_spec': 'task_name'}
    stored_attrs = set()
    for x in own_nodes(rf.node):
        if isinstance(x, ast.Assign):
            for t in x.targets:
                if isinstance(t, ast.Attribute) and dotted(t.value) == 'cmd':
                    stored_attrs.add(t.attr)
    ctor_restored = {'triggered_by', 'ctx', 'task_spec', 'wf_ex', 'wf_spec'}
    for a in sorted(consumed):
        key = attr_key.get(a)
        if a in ('wf_ex', 'wf_spec'):
            continue
        attr = 'wait' if a == 'is_waiting' else a
        ok = attr in ctor_restored or attr in stored_attrs
        rule.check(ok and (key is None or key in read),
                   '%s :: cmd.%s' % (bf.qname, a),
                   'attribute %s consumed when building the task is not '
                   'restored from the backlog entry' % a, ctx.loc(rf))


def subworkflow_recursion_unrestricted(ctx, rule, fq, rec_name,
                                       own_states=None):
    """The handler's recursion into sub-workflows is not restricted by the
    state of the parent *task*: sub-workflows hang off tasks in any state
    (a with-items task is already PAUSED when one child paused it), the
    only filter is on the sub-workflow's own state."""
    prog, sd = ctx.prog, ctx.sd
    f = prog.func(fq)
    cfg = ctx.cfg(f)
    IN, keys = sd.analyze(cfg, f, [('task_ex.state', sd.state_domain)],
                          kill=lambda c: ())
    rec = U.calls_in(cfg, rec_name)
    rec = [(n, c) for n, c in rec if not isinstance(c.func, ast.Attribute)
           or dotted(c.func.value) in (None, 'self')]
    if not rec:
        raise AnalysisError('%s: recursion into sub-workflows lost' % fq)
    # the sub-workflows visited are the children of this execution's tasks
    for n, c in rec:
        loops = [x for x in own_nodes(f.node) if isinstance(x, ast.For) and
                 any(y is c for b in x.body for y in ast.walk(b))]
        okc = False
        for lp in loops:
            it = U.canon_expr(f.node, lp.iter)
            for q in ast.walk(it):
                if isinstance(q, ast.Call) and \
                        U.call_name(q) == 'get_workflow_executions':
                    kws = {k.arg: norm(k.value) for k in q.keywords}
                    outer = [o for o in loops if norm(o.iter) ==
                             '%s.task_executions' % f.params[0]]
                    okc = okc or (list(kws) == ['task_execution_id'] and
                                  bool(outer) and kws['task_execution_id'] ==
                                  '%s.id' % norm(outer[0].target) and
                                  norm(c.args[0]) == norm(lp.target))
        rule.check(okc, ctx.construct(f, extra='children of every task'),
                   'the recursion does not visit exactly the sub-workflows '
                   'started by each task of this execution '
                   '(get_workflow_executions(task_execution_id=<task>.id) '
                   'for every task): part of the tree below is not reached',
                   ctx.loc(f, c))
    for n, c in rec:
        vals = sd.values_at(IN, keys, n, 'task_ex.state')
        missing = set(sd.ALL) - vals
        rule.check(not missing, ctx.construct(f, extra='recursion for '
                                              'tasks in any state'),
                   'sub-workflows of tasks in state %s are skipped by the '
                   'recursion (the only legitimate filter is the '
                   'sub-workflow\'s own state)' % sorted(missing),
                   ctx.loc(f, c))
    # ... nor by the state of the workflow itself: a repeated pause / resume
    # / cancel request has to reach sub-workflows the first one missed (a
    # sub-workflow started under an already PAUSED parent by a task that was
    # created before the pause)
    wkey = f.params[0] + '.state'
    done = sd.pred_set('is_completed')
    IN, keys = sd.analyze(cfg, f, [(wkey, sd.state_domain)],
                          kill=lambda c: ())
    for n, c in rec:
        vals = sd.values_at(IN, keys, n, wkey)
        missing = (set(own_states) if own_states is not None
                   else set(sd.ALL) - done) - vals
        rule.check(not missing, ctx.construct(
            f, extra='recursion whatever the state of the workflow itself'),
            'the walk down the sub-workflows is skipped when the workflow '
            'itself is %s: a repeated request does not reach sub-workflows '
            'that the first one missed' % sorted(missing), ctx.loc(f, c))
    # ... and that filter lets every unfinished sub-workflow through
    # (PAUSED and IDLE ones included)
    IN, keys = sd.analyze(cfg, f, [('sub_wf_ex.state', sd.state_domain)],
                          kill=lambda c: ())
    for n, c in rec:
        vals = sd.values_at(IN, keys, n, 'sub_wf_ex.state')
        missing = set(sd.ALL) - done - vals
        rule.check(not missing, ctx.construct(
            f, extra='recursion for every unfinished sub-workflow'),
            'unfinished sub-workflows in state %s are skipped by the '
            'recursion (and so is everything below them)' % sorted(missing),
            ctx.loc(f, c))


def accepted_tracks_completion(ctx, rule):
    """`wf_ex.accepted` is what a parent (with-items) task counts and what
    results are built from: after every successful Workflow.set_state it
    must equal is_completed(new state) - set on completion AND cleared when
    a finished sub-workflow is re-run."""
    prog = ctx.prog
    f = prog.func('mistral.engine.workflows.Workflow.set_state')
    cfg = ctx.cfg(f)
    st = f.params[1]
    stores = []
    for t, s in U.attr_stores(f.node):
        if t.attr == 'accepted' and norm(t.value) == 'self.wf_ex':
            stores.append(s)
    if not stores:
        raise AnalysisError('Workflow.set_state no longer writes accepted')
    done = 'states.is_completed(%s)' % st
    good = []
    for s in stores:
        sn = cfg.stmt_node(s)
        v = norm(s.value)
        ok = v == done or \
            (v == 'True' and U.guarded(cfg, sn, done, True)) or \
            (v == 'False' and U.guarded(cfg, sn, done, False))
        rule.check(ok, ctx.construct(f, s),
                   'accepted is set to %s, not to is_completed(%s)'
                   % (v, st), ctx.loc(f, s))
        if ok:
            good.append(sn)
    rets = [x for x in cfg.nodes if x.kind == 'stmt' and
            isinstance(x.ast, ast.Return) and x.ast.value is not None and
            norm(x.ast.value) == 'True']
    if not rets:
        raise AnalysisError('Workflow.set_state: "return True" lost')
    rule.check(cfg.must_pass(cfg.entry, good, exits=rets),
               ctx.construct(f, extra='accepted written on every successful '
                             'state change'),
               'a successful state change can leave accepted unchanged (a '
               're-run sub-workflow would still count as finished for its '
               'parent with-items task)', ctx.loc(f))


def affected_tasks_cover_completed(ctx, rule):
    """task_handler._check_affected_tasks looks for joins to refresh after
    a task reached ANY completed state (SKIPPED included) as long as the
    workflow is unfinished: a narrower guard leaves the joins behind that
    task WAITING for ever (nothing else refreshes them)."""
    prog, sd = ctx.prog, ctx.sd
    f = prog.func('mistral.engine.task_handler._check_affected_tasks')
    cfg = ctx.cfg(f)
    done = sd.pred_set('is_completed')
    tvar = f.params[0] + '.task_ex.state'
    IN, keys = sd.analyze(
        cfg, f, [(tvar, sd.state_domain), ('wf_ex.state', sd.state_domain),
                 (f.params[0] + '.task_ex', (OBJ,))],
        kill=lambda c: (), types={f.params[0]: 'mistral.engine.tasks.Task'})
    got = U.calls_in(cfg, 'find_indirectly_affected_task_executions')
    if not got:
        raise AnalysisError('_check_affected_tasks no longer asks the '
                            'controller for affected tasks')
    for n, c in got:
        vals = {v[0] for v in IN[n.id]}
        missing = done - vals
        rule.check(not missing, ctx.construct(f, extra='every completed '
                                              'task state'),
                   'joins behind a task that ended in %s are never '
                   'refreshed' % sorted(missing), ctx.loc(f, c))
        wvals = {v[1] for v in IN[n.id]}
        missing = set(sd.ALL) - done - wvals
        rule.check(not missing, ctx.construct(f, extra='every unfinished '
                                              'workflow state'),
                   'joins are not refreshed while the workflow is %s'
                   % sorted(missing), ctx.loc(f, c))
    # the de-duplication of refresh jobs ignores jobs that are already being
    # processed: such a job has read the OLD inbound states, so it does not
    # stand for the refresh that is needed now
    inner = prog.funcs.get(f.qname + '.<locals>._schedule_if_needed')
    if inner is None:
        raise AnalysisError('_check_affected_tasks._schedule_if_needed lost')
    icfg = ctx.cfg(inner)
    hs = U.calls_in(icfg, 'has_scheduled_jobs')
    sr = U.calls_in(icfg, '_schedule_refresh_task_state')
    if not hs or not sr:
        raise AnalysisError('_schedule_if_needed structure lost')
    for n, c in hs:
        pk = U.kwarg(c, 'processing')
        kk = U.kwarg(c, 'key')
        rule.check(pk is not None and norm(pk) == 'False' and
                   kk is not None and
                   U.phas(kk, '_get_refresh_state_job_key(%s)'
                          % inner.params[0]),
                   ctx.construct(inner, extra='only pending jobs of this '
                                 'task count'),
                   'refresh jobs that are already being processed (or jobs '
                   'of another task) suppress the new refresh: a completion '
                   'landing between "job ran" and "job deleted" is never '
                   'seen by the join', ctx.loc(inner, c))
    res = [x for x in own_nodes(inner.node) if isinstance(x, ast.Assign) and
           isinstance(x.value, ast.Call) and
           U.call_name(x.value) == 'has_scheduled_jobs']
    var = dotted(res[0].targets[0]) if res else None
    for n, c in sr:
        rule.check(var is not None and U.guarded(icfg, n, var, False) and
                   norm(c.args[0]) == inner.params[0],
                   ctx.construct(inner, extra='schedule unless pending'),
                   'the refresh is not scheduled exactly when no pending job '
                   'exists', ctx.loc(inner, c))
    # every affected task gets a refresh registered
    loops = [x for x in own_nodes(f.node) if isinstance(x, ast.For) and
             any(isinstance(y, ast.Call) and
                 U.call_name(y) == 'register_operation'
                 for y in ast.walk(x))]
    src = [x for x in own_nodes(f.node) if isinstance(x, ast.Assign) and
           isinstance(x.value, ast.Call) and U.call_name(x.value) ==
           'find_indirectly_affected_task_executions']
    rule.check(bool(loops) and bool(src) and
               dotted(loops[0].iter) == dotted(src[0].targets[0]) and
               not any(isinstance(y, (ast.Break, ast.Continue, ast.Return))
                       for y in ast.walk(loops[0])),
               ctx.construct(f, extra='refresh for every affected task'),
               'a refresh is not registered for every affected task',
               ctx.loc(f))


def affected_walk_stops(ctx, rule):
    """DirectWorkflowController.find_indirectly_affected_task_executions
    walks outbound transitions and may stop only at a task already visited
    (cycle), at an engine command, or at a join that HAS a task execution
    (which is then returned).  A join that was never created is walked
    through: the joins behind it still have to learn that their route
    became impossible."""
    prog = ctx.prog
    f = prog.func('mistral.workflow.direct_workflow.DirectWorkflowController'
                  '.find_indirectly_affected_task_executions')
    cfg = ctx.cfg(f)
    loops = [x for x in own_nodes(f.node) if isinstance(x, ast.While)]
    exp = [n for n, c in cfg.calls(
        lambda c: U.call_name(c) == 'update' and c.args and
        U.phas(c.args[0], '___.find_outbound_task_names(___)'))]
    if not loops or not exp:
        raise AnalysisError('affected-task walk lost its loop / expansion')
    stops = [x for x in cfg.nodes if x.kind == 'stmt' and
             isinstance(x.ast, (ast.Continue, ast.Break, ast.Return)) and
             any(y is x.ast for y in ast.walk(loops[0]))]
    for x in stops:
        ok = U.guarded(cfg, x, '__t in visited_task_names', True) or \
            U.guarded(cfg, x, 'self.wf_spec.get_tasks()[__t]', False) or \
            (U.guarded(cfg, x, '__t in all_joins', True) and
             U.guarded(cfg, x, '__t in t_execs_cache', True))
        rule.check(ok, ctx.construct(f, x.ast),
                   'the walk stops at a task for a reason other than '
                   '"visited", "engine command" or "join that has a task '
                   'execution": joins behind a join that was never created '
                   'are not refreshed', ctx.loc(f, x.ast))
    adds = [n for n, c in cfg.calls(
        lambda c: U.call_name(c) == 'add' and dotted(c.func.value) == 'res')]
    rule.check(bool(adds) and all(
        U.guarded(cfg, n, '__t in all_joins', True) for n in adds),
        ctx.construct(f, extra='only joins are returned'),
        'tasks other than joins are returned for a refresh', ctx.loc(f))
    rule.check(len(stops) >= 3, ctx.construct(f, extra='stop conditions'),
               'expected the three stop conditions of the walk',
               ctx.loc(f))


def routing_recorded_before_pause(ctx, rule):
    """Task.complete stores its routing decisions (next_tasks,
    has_next_tasks, error_handled) before the early return taken when the
    workflow is PAUSED: resume re-derives the commands but never
    recomputes these fields."""
    prog = ctx.prog
    tc = prog.func('mistral.engine.tasks.Task.complete')
    cfg = ctx.cfg(tc)
    rets = [x for x in cfg.nodes if x.kind == 'stmt' and
            isinstance(x.ast, ast.Return) and
            U.guarded(cfg, x, 'states.is_paused(self.wf_ex.state)', True)]
    if not rets:
        raise AnalysisError('Task.complete: return for a paused workflow '
                            'lost')
    for attr in ('next_tasks', 'has_next_tasks', 'error_handled'):
        sts = [cfg.stmt_node(st) for t, st in U.attr_stores(tc.node)
               if norm(t) == 'self.task_ex.' + attr]
        sts = [s for s in sts if s is not None]
        ok = bool(sts) and all(any(cfg.paths_between(s, r) for s in sts)
                               for r in rets)
        if ok and attr != 'error_handled':
            # unconditional: on every path from the CAS to the return
            cas = [n for n, c in U.calls_in(cfg, 'set_state')]
            ok = bool(cas) and all(cfg.must_pass(cas[0], sts, exits=[r])
                                   for r in rets)
        rule.check(ok, ctx.construct(tc, extra='store %s before pause test'
                                     % attr),
                   '%s is not recorded before the paused-workflow return '
                   '(resume never recomputes it)' % attr, ctx.loc(tc))
    eh = [st for t, st in U.attr_stores(tc.node)
          if norm(t) == 'self.task_ex.error_handled']
    rule.check(bool(eh) and all(
        U.guarded(cfg, cfg.stmt_node(st), 'self.task_ex.state == '
                  'states.ERROR', True) and
        U.phas(st.value, 'any(___)') and 'handles_error' in norm(st.value)
        for st in eh),
        ctx.construct(tc, extra='error_handled = some command handles it'),
        'error_handled is not "some next command handles the error" for '
        'ERROR tasks', ctx.loc(tc))


def _isinstance_classes(bnd):
    t = bnd['__T']
    return {dotted(e).split('.')[-1] for e in getattr(t, 'elts', [t])
            if dotted(e)}


def command_dispatch(ctx, rule):
    """dispatcher._process_commands hands every command to the handler of
    its kind: task commands create a task (first_run false exactly for
    RunExistingTask) and register its start, SkipTask skips,
    SetWorkflowState sets the state, anything else raises."""
    prog = ctx.prog
    f = prog.func('mistral.engine.dispatcher._process_commands')
    cfg = ctx.cfg(f)

    def kinds(node, truth):
        out = []
        for b in U.guard_match(cfg, node, 'isinstance(cmd, __T)', truth):
            out.append(_isinstance_classes(b))
        return out
    table = (('create_task', {'RunTask', 'RunExistingTask'}),
             ('skip_task', {'SkipTask'}),
             ('set_workflow_state', {'SetWorkflowState'}))
    for name, want in table:
        got = U.calls_in(cfg, name)
        if not got:
            raise AnalysisError('_process_commands no longer calls %s' % name)
        for n, c in got:
            pos = kinds(n, True)
            rule.check(any(k and k <= want for k in pos) and
                       not any(k & want for k in kinds(n, False)),
                       ctx.construct(f, extra='%s for %s' % (
                           name, '/'.join(sorted(want)))),
                       '%s is not reached exactly for %s commands'
                       % (name, sorted(want)), ctx.loc(f, c))
    raises = [x for x in cfg.nodes if x.kind == 'stmt' and
              isinstance(x.ast, ast.Raise)]
    allk = set().union(*[w for _n, w in table])
    rule.check(any(set().union(*kinds(x, False)) >= allk
                   for x in raises if kinds(x, False)),
               ctx.construct(f, extra='unknown commands raise'),
               'a command of an unknown kind is silently ignored',
               ctx.loc(f))
    # first_run / reset
    for x in cfg.nodes:
        if x.kind == 'stmt' and isinstance(x.ast, ast.Assign) and \
                dotted(x.ast.targets[0]) == 'first_run':
            v = norm(x.ast.value)
            ex_t = any('RunExistingTask' in k and len(k) == 1
                       for k in kinds(x, True))
            ex_f = any('RunExistingTask' in k and len(k) == 1
                       for k in kinds(x, False))
            rule.check((v == 'False' and ex_t) or (v == 'True' and ex_f),
                       ctx.construct(f, x.ast),
                       'first_run is %s on the wrong side of the '
                       'RunExistingTask test (a rerun would be treated as a '
                       'first run or vice versa)' % v, ctx.loc(f, x.ast))
    ct = U.calls_in(cfg, 'create_task')
    reg = [n for n, c in U.calls_in(cfg, 'register_operation')]
    loops = [x for x in cfg.nodes if x.kind == 'for']
    rule.check(bool(reg) and all(
        cfg.must_pass(n, reg, exits=[cfg.exit] + loops) for n, _c in ct),
        ctx.construct(f, extra='start registered for every created task'),
        'a created task can be left without its start being registered',
        ctx.loc(f))


def rearrange_tail(ctx, rule):
    """dispatcher._rearrange_commands: commands after a state-changing
    command are dropped, except after `pause`, where they are kept (for the
    backlog); the state command itself is kept."""
    prog = ctx.prog
    f = prog.func('mistral.engine.dispatcher._rearrange_commands')
    cfg = ctx.cfg(f)
    PW = 'isinstance(state_cmd, commands.PauseWorkflow)'
    ext = [n for n, c in cfg.calls(
        lambda c: U.call_name(c) == 'extend' and c.args and
        U.phas(c.args[0], 'cmds[state_cmd_idx + 1:]'))]
    rule.check(bool(ext) and all(U.guarded(cfg, n, PW, True) for n in ext),
               ctx.construct(f, extra='tail kept only after pause'),
               'the commands after a state command are kept for something '
               'other than pause (or dropped after pause)', ctx.loc(f))
    app = [n for n, c in cfg.calls(
        lambda c: U.call_name(c) == 'append' and c.args and
        dotted(c.args[0]) == 'state_cmd')]
    rets = [x for x in cfg.nodes if x.kind == 'stmt' and
            isinstance(x.ast, ast.Return)]
    final = [x for x in rets if dotted(x.ast.value) == 'res']
    rule.check(bool(app) and bool(final) and all(
        cfg.must_pass(cfg.entry, app, exits=[x]) for x in final),
        ctx.construct(f, extra='state command kept'),
        'the state-changing command itself can be dropped', ctx.loc(f))
    for x in rets:
        v = x.ast.value
        if isinstance(v, ast.Subscript) and dotted(v.value) == 'cmds':
            rule.check(U.guarded(cfg, x, 'state_cmd_idx == 0', True) and
                       U.guarded(cfg, x, PW, False),
                       ctx.construct(f, x.ast),
                       'only the first command is kept although it is not a '
                       'leading fail/succeed command', ctx.loc(f, x.ast))
        elif dotted(v) == 'cmds':
            rule.check(U.guarded(cfg, x, 'state_cmd_idx < 0', True),
                       ctx.construct(f, x.ast),
                       'all commands are kept although a state command was '
                       'found', ctx.loc(f, x.ast))
    head = [x for x in own_nodes(f.node) if isinstance(x, ast.Assign) and
            dotted(x.targets[0]) == 'res']
    rule.check(len(head) == 1 and U.phas(head[0].value,
                                         'cmds[0:state_cmd_idx]') or
               len(head) == 1 and U.phas(head[0].value,
                                         'cmds[:state_cmd_idx]'),
               ctx.construct(f, extra='commands before the state command'),
               'the commands in front of the state command are not kept',
               ctx.loc(f))
    SW = 'isinstance(cmd, commands.SetWorkflowState)'
    idx = [x for x in cfg.nodes if x.kind == 'stmt' and
           isinstance(x.ast, ast.Assign) and
           dotted(x.ast.targets[0]) == 'state_cmd_idx' and
           U.guard_atoms(cfg, x)]
    brks = [x for x in cfg.nodes if x.kind == 'stmt' and
            isinstance(x.ast, ast.Break)]
    okb = bool(idx) and all(U.guarded(cfg, x, SW, True) for x in idx) and \
        any(U.guarded(cfg, x, SW, True) for x in brks)
    rule.check(okb, ctx.construct(f, extra='first state command'),
               'the FIRST state-changing command is not the cut point',
               ctx.loc(f))
    # the cut point is an index into the list it was found in: between the
    # search and every use of the index the list is not rebuilt (filtered,
    # sorted into a new list, ...) - otherwise the slices are shifted
    loops = [x for x in own_nodes(f.node) if isinstance(x, ast.For) and
             any(x_ is i_.ast for i_ in idx for x_ in ast.walk(x))]
    oki = len(loops) == 1
    if oki:
        lp = loops[0]
        src = [y for y in ast.walk(lp.iter) if isinstance(y, ast.Name) and
               y.id not in ('enumerate', 'reversed', 'list', 'iter',
                            'range', 'len', 'zip')]
        oki = len(src) == 1
        if oki:
            lst = src[0].id
            rd = U.reaching_defs(cfg, lst)
            at_search = rd[cfg.node_of(lp.iter).id] if cfg.node_of(lp.iter) \
                is not None else None
            uses = [y for y in own_nodes(f.node)
                    if isinstance(y, ast.Subscript) and
                    dotted(y.value) == lst and
                    'state_cmd_idx' in U.names_in(y.slice)]
            oki = at_search is not None and bool(uses) and all(
                rd[cfg.node_of(u).id] == at_search for u in uses)
    rule.check(oki, ctx.construct(f, extra='index and slices on one list'),
               'the position of the state command is searched in one '
               'version of the command list and applied to another (the '
               'list is rebuilt in between): the command after `pause` is '
               'cut off / the pause is duplicated', ctx.loc(f))


def _class_attrs(prog, cq):
    out = set()
    for k in prog.mro(cq):
        node = prog.classes.get(k)
        if node is None:
            continue
        for st in node.body:
            if isinstance(st, (ast.FunctionDef, ast.AsyncFunctionDef)):
                out.add(st.name)
                for x in ast.walk(st):
                    if isinstance(x, ast.Attribute) and \
                            isinstance(x.ctx, ast.Store) and \
                            dotted(x.value) == 'self':
                        out.add(x.attr)
            elif isinstance(st, ast.Assign):
                for t in st.targets:
                    if isinstance(t, ast.Name):
                        out.add(t.id)
    return out


def narrowed_attrs(ctx, rule, fq, var, base):
    """Typestate on a command variable: under the isinstance() facts that
    dominate an access `var.attr`, every class the variable can still be
    must define that attribute.  (A dispatch whose test was inverted or
    moved reads attributes of the wrong command kind.)"""
    prog = ctx.prog
    f = prog.func(fq)
    cfg = ctx.cfg(f)
    universe = {c for c in prog.all_subclasses(base)} | {base}
    n_acc = 0
    for n in cfg.nodes:
        if n.kind not in ('stmt', 'test') or n.ast is None:
            continue
        accs = [x for x in cfg.own_nodes(n) if isinstance(x, ast.Attribute)
                and isinstance(x.ctx, ast.Load) and
                isinstance(x.value, ast.Name) and x.value.id == var]
        if not accs:
            continue
        cand = set(universe)
        for truth in (True, False):
            for b in U.guard_match(cfg, n, 'isinstance(%s, __T)' % var,
                                   truth):
                t = b['__T']
                listed = set()
                for e in getattr(t, 'elts', [t]):
                    d = dotted(e)
                    r = prog.resolve_dotted(f.module, d) if d else None
                    if r in prog.classes:
                        listed |= {r} | set(prog.all_subclasses(r))
                if truth:
                    cand &= listed
                else:
                    cand -= listed
        for x in accs:
            n_acc += 1
            missing = sorted(c.rsplit('.', 1)[1] for c in cand
                             if x.attr not in _class_attrs(prog, c))
            rule.check(not missing and bool(cand),
                       ctx.construct(f, extra='%s.%s' % (var, x.attr)),
                       '%s.%s is read where %s can be a %s, which has no '
                       'such attribute' % (var, x.attr, var,
                                           '/'.join(missing) or 'nothing'),
                       ctx.loc(f, x))
    if n_acc < 3:
        raise AnalysisError('%s: only %d accesses of %s' % (fq, n_acc, var))


def build_task_from_command(ctx, rule):
    """task_handler._build_task_from_command builds a task for each of the
    three task command kinds; an existing execution keeps its waiting state
    and is reset exactly when the command says so."""
    prog = ctx.prog
    f = prog.func('mistral.engine.task_handler._build_task_from_command')
    cfg = ctx.cfg(f)
    base = 'mistral.workflow.commands.'
    rets = [x for x in cfg.nodes if x.kind == 'stmt' and
            isinstance(x.ast, ast.Return) and x.ast.value is not None]
    for cls in ('RunTask', 'RunExistingTask', 'SkipTask'):
        ok = False
        for x in rets:
            pos = set()
            for b in U.guard_match(cfg, x, 'isinstance(cmd, __T)', True):
                pos |= _isinstance_classes(b)
            ok = ok or pos == {cls}
        rule.check(ok, ctx.construct(f, extra='builds ' + cls),
                   'no task is built for %s commands (the dispatcher would '
                   'raise "Unsupported workflow command")' % cls, ctx.loc(f))
    rs = [n for n, c in cfg.calls(
        lambda c: U.call_name(c) == 'reset' and
        isinstance(c.func, ast.Attribute) and
        dotted(c.func.value) == 'task')]
    rule.check(bool(rs) and all(U.guarded(cfg, n, 'cmd.reset', True)
                                for n in rs),
               ctx.construct(f, extra='reset iff requested'),
               'the task is not reset exactly when the rerun command asks '
               'for it', ctx.loc(f))
    for n, c in U.calls_in(cfg, '_create_task'):
        w = U.kwarg(c, 'waiting')
        te = U.kwarg(c, 'task_ex')
        if te is not None and w is not None:
            rule.check(U.phas(w, 'cmd.task_ex.state == states.WAITING') and
                       isinstance(w, ast.Compare) and
                       isinstance(w.ops[0], ast.Eq),
                       ctx.construct(f, extra='existing task keeps waiting'),
                       'an existing task execution is not treated as waiting '
                       'exactly when its state is WAITING', ctx.loc(f, c))


def policy_hooks_total(ctx, rule):
    """Every configured policy gets its hook: Task._before_task_start and
    Task._after_task_complete call the hook for each element of
    build_policies(<the task's policies>, <workflow spec>) - no break,
    return, continue or condition inside the loop.  The policies are
    independent (the concurrency limit is set by the last one built); a
    loop that stops once an earlier policy delayed or paused the task
    leaves the later ones unapplied for good, because the continuation
    does not run the hooks again."""
    prog = ctx.prog
    n = 0
    for meth, hook in (('_before_task_start', 'before_task_start'),
                       ('_after_task_complete', 'after_task_complete')):
        f = prog.func('mistral.engine.tasks.Task.' + meth)
        cfg = ctx.cfg(f)
        loops = [x for x in own_nodes(f.node) if isinstance(x, ast.For)]
        calls = [(nd, c) for nd, c in cfg.calls(
            lambda c: U.call_name(c) == hook)]
        if len(loops) != 1 or len(calls) != 1:
            raise AnalysisError('policy hooks: loop in %s not found' % meth)
        lp = loops[0]
        it = U.canon_expr(f.node, lp.iter)
        src_ok = isinstance(it, ast.Call) and \
            U.call_name(it) == 'build_policies' and len(it.args) >= 2 and \
            U.phas(it.args[0], 'self.task_spec.get_policies()') and \
            norm(it.args[1]) == 'self.wf_spec'
        rule.check(src_ok, ctx.construct(f, extra='all configured policies'),
                   'the hooks do not run over build_policies(<task '
                   'policies>, <workflow spec>) (task-level policies and '
                   'task-defaults)', ctx.loc(f, lp))
        nd, c = calls[0]
        xfer = [x for b in lp.body for x in ast.walk(b)
                if isinstance(x, (ast.Break, ast.Return, ast.Continue,
                                  ast.Raise))]
        atoms = U.guard_atoms(cfg, nd)
        inside = any(c is x for b in lp.body for x in ast.walk(b))
        rule.check(inside and not xfer and not atoms and
                   c.args and norm(c.args[0]) == 'self' and
                   norm(c.func.value) == norm(lp.target),
                   ctx.construct(f, c, extra='for every policy'),
                   '%s is not called for every configured policy (%s): a '
                   'policy that is skipped never takes effect - e.g. the '
                   'concurrency limit of a with-items task that also has '
                   'wait-before' % (hook, [norm(x) for x in xfer] or
                                    [(norm(a), t) for a, t in atoms]),
                   ctx.loc(f, c))
        n += 1
    return n


def refresh_covers_unfinished(ctx, rule):
    """task_handler._refresh_task_state is a one-shot wake-up.  It has to act
    for every unfinished workflow state except PAUSED, and for PAUSED the
    pair (do not start joins while paused, re-check every WAITING task on
    resume) must hold:

    * a join started during a pause consumes the routing of tasks that
      completed during that pause; resume dispatches those tasks' commands
      again and Task.defer puts the (finished) join back to WAITING - the
      workflow hangs or the join runs twice (F21);
    * nothing schedules a refresh on resume by itself: when all inbound
      tasks completed while paused, or the join command came from the
      backlog, the join created on resume stays WAITING for ever (F20)."""
    prog, sd = ctx.prog, ctx.sd
    f = prog.func('mistral.engine.task_handler._refresh_task_state')
    cfg = ctx.cfg(f)
    done = sd.pred_set('is_completed')
    IN, keys = sd.analyze(
        cfg, f, [('wf_ex.state', sd.state_domain),
                 ('task_ex', (None, OBJ)),
                 ('task_ex.state', sd.state_domain)],
        kill=lambda c: ())
    sites = U.calls_in(cfg, 'get_logical_task_state')
    if not sites:
        raise AnalysisError('_refresh_task_state no longer asks the '
                            'controller for the logical state')
    for n, c in sites:
        wvals = {v[0] for v in IN[n.id]}
        missing = set(sd.ALL) - done - {'PAUSED'} - wvals
        rule.check(not missing,
                   ctx.construct(f, extra='every unfinished workflow state'),
                   'a scheduled join refresh does nothing while the workflow '
                   'is %s, and nothing re-schedules it: the join stays '
                   'WAITING' % sorted(missing), ctx.loc(f, c))
        rule.check('PAUSED' not in wvals,
                   ctx.construct(f, extra='joins do not start while paused'),
                   'a join is started while the workflow is PAUSED: the '
                   'tasks that completed during the pause are dispatched '
                   'again on resume and put the finished join back to '
                   'WAITING (workflow hangs / join runs twice)',
                   ctx.loc(f, c))
        tvals = {v[2] for v in IN[n.id] if v[1] is not None}
        need = {'WAITING'}
        rule.check(need <= tvals,
                   ctx.construct(f, extra='every waiting task'),
                   'the refresh does not act on WAITING tasks (%s)'
                   % sorted(map(str, tvals)), ctx.loc(f, c))
    # ... and a WAITING task gets as far as the lock: the cheap check made
    # before taking it (its state is re-read under the lock, so the values
    # above say nothing about this one) lets WAITING through
    for n, c in U.calls_in(cfg, 'refresh'):
        if not (c.args and norm(c.args[0]) == 'task_ex'):
            continue
        before = {v[2] for v in IN[n.id] if v[1] is not None}
        rule.check('WAITING' in before,
                   ctx.construct(f, extra='waiting tasks reach the lock'),
                   'a WAITING task does not get past the check made before '
                   'the lock is taken (states that do: %s): its refresh '
                   'returns without looking at the join'
                   % sorted(map(str, before)), ctx.loc(f, c))
    # resume re-checks every WAITING task, after the commands were dispatched
    rs = prog.func('mistral.engine.workflows.Workflow.resume')
    rcfg = ctx.cfg(rs)
    cont = U.calls_in(rcfg, '_continue_workflow')
    sched = U.calls_in(rcfg, '_schedule_refresh_task_state')
    ok = bool(cont) and len(sched) == 1
    why = 'no refresh is scheduled'
    if ok:
        n, c = sched[0]
        loops = [x for x in own_nodes(rs.node) if isinstance(x, ast.For) and
                 any(y is c for b in x.body for y in ast.walk(b))]
        ok = len(loops) == 1 and rcfg.dominates(cont[0][0], n) and \
            not [a for a, _t in U.guard_atoms(rcfg, n)
                 if not isinstance(a, ast.For) and
                 norm(a) != norm(loops[0].iter)] if loops else False
        why = 'not for every WAITING task after the dispatch'
        if ok:
            lp = loops[0]
            it = U.canon_expr(rs.node, lp.iter)
            q = [x for x in ast.walk(it) if isinstance(x, ast.Call) and
                 U.call_name(x) == 'get_task_executions']
            okq = len(q) == 1 and \
                {k.arg: norm(k.value) for k in q[0].keywords} == {
                    'workflow_execution_id': 'self.wf_ex.id',
                    'state': 'states.WAITING'}
            # the WAITING tasks are looked up AFTER the dispatch: a join that
            # the dispatch has just created must be among them
            orig = [x for x in own_nodes(rs.node)
                    if isinstance(x, ast.Call) and
                    U.call_name(x) == 'get_task_executions']
            qn = rcfg.node_of(orig[0]) if len(orig) == 1 else None
            okq = okq and qn is not None and \
                rcfg.dominates(cont[0][0], qn)
            if not okq:
                why = 'the WAITING tasks are not read after the dispatch'
            ok = okq and norm(c.args[0]) == '%s.id' % norm(lp.target) and \
                not [x for b in lp.body for x in ast.walk(b)
                     if isinstance(x, (ast.Break, ast.Continue, ast.Return,
                                       ast.If))]
    rule.check(ok, ctx.construct(rs, extra='waiting tasks re-checked on '
                                 'resume'),
               'Workflow.resume does not schedule a refresh for every '
               'WAITING task of the execution after dispatching the '
               'commands (%s): a join whose inbound tasks all completed '
               'while the workflow was paused (or whose command came from '
               'the backlog) stays WAITING for ever' % why, ctx.loc(rs))


LOCAL_TIME = {'datetime.now', 'datetime.datetime.now', 'datetime.today',
              'datetime.datetime.today', 'datetime.fromtimestamp',
              'datetime.datetime.fromtimestamp', 'time.localtime',
              'date.today', 'datetime.date.today'}
UTC_TIME = {'timeutils.utcnow', 'utils.utc_now_sec', 'datetime.utcnow',
            'datetime.datetime.utcnow', 'utc_now_sec'}


def utc_time_sources(ctx, rule, prefixes, floor):
    """Timestamps in the database are UTC (column defaults and every writer
    use timeutils.utcnow / utc_now_sec).  A threshold computed from the
    local wall clock is off by the host's UTC offset: jobs run early / late,
    executions younger than the configured age are deleted.  No local-time
    source may be called (without an explicit time zone) in the modules that
    compare against stored timestamps."""
    prog = ctx.prog
    n_utc = 0
    for q, f in sorted(prog.funcs.items()):
        if not any(f.module == p or f.module.startswith(p + '.')
                   for p in prefixes):
            continue
        if f.parent is not None:
            continue
        for c in ast.walk(f.node):
            if not isinstance(c, ast.Call):
                continue
            d = dotted(c.func) or ''
            if d in UTC_TIME or d.endswith('.utcnow') or \
                    d.endswith('.utc_now_sec'):
                n_utc += 1
                continue
            local = d in LOCAL_TIME and not c.args and not c.keywords
            if d.endswith('fromtimestamp') and d in LOCAL_TIME:
                # fromtimestamp(x) without a tz argument is local time
                local = len(c.args) < 2 and not any(
                    k.arg == 'tz' for k in c.keywords)
            if local:
                rule.fail(ctx.construct(f, c, extra='local time'),
                          '%s() is the local wall clock; stored timestamps '
                          'are UTC, so every comparison made with it is off '
                          'by the UTC offset of the host' % d, ctx.loc(f, c))
    if n_utc < floor:
        raise AnalysisError('utc sources: only %d UTC time reads found in %s'
                            % (n_utc, prefixes))
    rule.ok('utc time sources :: %s' % ','.join(prefixes),
            '%d UTC reads, no local-time read' % n_utc)
    return n_utc


def inbound_before_publish(ctx, rule):
    """Task.complete refreshes the inbound context from ALL upstream tasks
    before `publish` is evaluated (and before the routing conditions are):
    a join that fails without having run still holds the context of the
    first branch that reached it, so publishing first makes the published
    values depend on which branch came first."""
    prog = ctx.prog
    f = prog.func('mistral.engine.tasks.Task.complete')
    cfg = ctx.cfg(f)
    up = U.calls_in(cfg, '_update_inbound_context')
    pub = U.calls_in(cfg, 'publish_variables')
    cont = U.calls_in(cfg, 'continue_workflow')
    if not up or not pub or not cont:
        raise AnalysisError('Task.complete: inbound update / publish / '
                            'continue_workflow not found')
    for n, c in pub + cont:
        rule.check(any(cfg.dominates(u, n) for u, _c in up),
                   ctx.construct(f, c, extra='after the inbound context '
                                 'was refreshed'),
                   '%s is evaluated against the inbound context stored '
                   'when the task was created, not the one refreshed from '
                   'all upstream tasks: the result depends on which branch '
                   'reached the task first' % U.call_name(c), ctx.loc(f, c))
    for n, c in cont:
        rule.check(any(cfg.dominates(p_, n) for p_, _c in pub),
                   ctx.construct(f, c, extra='after publishing'),
                   'the routing conditions are evaluated before the task '
                   'published its variables', ctx.loc(f, c))


def expression_context_order(ctx, rule):
    """Task.get_expression_context(ctx): the context handed in by the caller
    (for the retry expressions: the outbound context, i.e. inbound plus what
    the attempt has just published) is looked up before the stored inbound
    context."""
    prog = ctx.prog
    f = prog.func('mistral.engine.tasks.Task.get_expression_context')
    views = [n for n in own_nodes(f.node) if isinstance(n, ast.Call) and
             U.call_name(n) == 'ContextView']
    if len(views) != 1 or len(f.params) < 2:
        raise AnalysisError('Task.get_expression_context: ContextView')
    n = views[0]
    par = [i for i, a in enumerate(n.args) if f.params[1] in U.names_in(a)]
    sto = [i for i, a in enumerate(n.args)
           if (dotted(a) or '').endswith('.in_context')]
    rule.check(bool(par) and bool(sto) and max(par) < min(sto),
               ctx.construct(f, extra='given context before stored inbound '
                             'context'),
               'break-on / continue-on (and every expression evaluated with '
               'an explicit context) read the stored inbound value of a '
               'variable the attempt has just re-published', ctx.loc(f, n))
    # the retry policy evaluates its expressions with the outbound context
    rp = prog.func('mistral.engine.policies.RetryPolicy.after_task_complete')
    calls = [c for c in own_nodes(rp.node) if isinstance(c, ast.Call) and
             U.call_name(c) == 'get_expression_context']
    rule.check(len(calls) == 1 and U.kwarg(calls[0], 'ctx', 0) is not None
               and U.phas(U.kwarg(calls[0], 'ctx', 0),
                          'data_flow.evaluate_task_outbound_context(___)'),
               ctx.construct(rp, extra='expressions over the outbound '
                             'context'),
               'continue-on / break-on are not evaluated against the '
               'outbound context of the attempt', ctx.loc(rp))


# handlers that may swallow broadly inside a retry-decorated function
RETRY_SWALLOW_OK = {
    'mistral.engine.post_tx_queue._process_queue':
        'non-transactional post-commit operations (notifications, RPC '
        'sends) are fire-and-forget: their failure is logged, nothing is '
        'retried by design',
}
_BROAD = ('Exception', 'BaseException', 'DBError', 'DBDeadlock',
          'DBConnectionError', 'OperationalError', 'MistralException',
          'MistralError')


def retry_not_defeated(ctx, rule):
    """@retry_on_db_error retries when a retryable DB error *propagates* out
    of the function.  A handler inside the function that catches such
    errors (Exception, DBError, DBDeadlock, ...) without re-raising turns a
    transient fault into a silently skipped step: a job that is not
    deleted and runs again, a state change that is lost."""
    prog = ctx.prog
    n = 0
    for q, f in sorted(prog.funcs.items()):
        if not any('retry_on_db_error' in norm(d)
                   for d in f.node.decorator_list):
            continue
        n += 1
        bad = []
        for t in own_nodes(f.node):
            if not isinstance(t, ast.Try):
                continue
            for h in t.handlers:
                tys = [x.split('.')[-1] for x in U.handler_types(h)]
                if not any(x in _BROAD for x in tys):
                    continue
                if any(isinstance(x, ast.Raise) for s_ in h.body
                       for x in ast.walk(s_)):
                    continue
                bad.append((h, tys))
        if q in RETRY_SWALLOW_OK:
            rule.ok(ctx.construct(f, extra='broad handler (triaged)'),
                    RETRY_SWALLOW_OK[q])
            continue
        rule.check(not bad, ctx.construct(f, extra='errors propagate to the '
                                          'retry decorator'),
                   'a handler for %s swallows the error inside a function '
                   'decorated with retry_on_db_error: a transient DB fault '
                   'is never retried and the step is silently skipped'
                   % (bad[0][1] if bad else ''), ctx.loc(f, bad[0][0])
                   if bad else ctx.loc(f))
    if n < 20:
        raise AnalysisError('retry_not_defeated: only %d decorated '
                            'functions found' % n)
    return n


SERVICE_LOOPS = (
    ('mistral.scheduler.default_scheduler.DefaultScheduler.'
     '_job_store_checker', '_process_store_jobs'),
    ('mistral.services.legacy_scheduler.LegacyScheduler._loop',
     '_process_delayed_calls'),
    ('mistral.services.action_heartbeat_checker._loop',
     'handle_expired_actions'),
)


def service_loops_survive(ctx, rule, which=None):
    """The polling threads outlive a failing iteration: the work of one
    iteration is inside `try ... except Exception` (or broader) that does not
    re-raise, inside the `while not stopped` loop.  A narrower handler lets
    an unexpected error (ImportError for a stale job row, AttributeError,
    ...) end the thread: jobs captured by dead instances are never
    recaptured, expired actions never failed."""
    prog = ctx.prog
    n = 0
    for fq, work in SERVICE_LOOPS:
        if which and not any(w in fq for w in which):
            continue
        f = prog.func(fq)
        loops = [x for x in own_nodes(f.node) if isinstance(x, ast.While)]
        calls = [c for c in own_nodes(f.node) if isinstance(c, ast.Call) and
                 U.call_name(c) == work]
        if len(loops) != 1 or len(calls) != 1:
            raise AnalysisError('service loop %s: shape' % fq)
        c = calls[0]
        trys = [t for t in ast.walk(loops[0]) if isinstance(t, ast.Try) and
                any(y is c for b in t.body for y in ast.walk(b))]
        ok = bool(trys) and any(
            any(z.split('.')[-1] in ('Exception', 'BaseException')
                for z in U.handler_types(h)) and
            not any(isinstance(y, (ast.Raise, ast.Break, ast.Return))
                    for s_ in h.body for y in ast.walk(s_))
            for t in trys for h in t.handlers)
        n += 1
        rule.check(ok, ctx.construct(f, extra='an iteration cannot end the '
                                     'thread'),
                   '%s() is not wrapped in `except Exception` (handlers: '
                   '%s) inside the polling loop: an unexpected error ends '
                   'the thread for good' % (work, [
                       U.handler_types(h) for t in trys
                       for h in t.handlers]), ctx.loc(f, c))
    return n


def batch_items_isolated(ctx, rule, fq, call_pred, what, under=None):
    """In a batch loop, the per-item call is protected per item: the `try`
    that contains it lies inside the loop body (a `try` around the whole
    loop ends the batch at the first failing item - the rest is never
    invoked although the batch is deleted afterwards)."""
    prog = ctx.prog
    f = prog.func(fq)
    calls = [c for c in own_nodes(f.node) if isinstance(c, ast.Call) and
             call_pred(c)]
    if under is not None:
        cfg = ctx.cfg(f)
        calls = [c for c in calls
                 if U.guard_match(cfg, cfg.node_of(c), under[0], under[1])]
    if not calls:
        raise AnalysisError('%s: per-item call not found' % fq)
    for c in calls:
        loops = [x for x in own_nodes(f.node) if isinstance(x, ast.For) and
                 any(y is c for b in x.body for y in ast.walk(b))]
        ok = False
        for lp in loops:
            for t in [t for b in lp.body for t in ast.walk(b)
                      if isinstance(t, ast.Try)]:
                if any(y is c for b in t.body for y in ast.walk(b)) and any(
                        any(z.split('.')[-1] in ('Exception',
                                                 'BaseException')
                            for z in U.handler_types(h)) and
                        not any(isinstance(y, (ast.Raise, ast.Break,
                                               ast.Return))
                                for s_ in h.body for y in ast.walk(s_))
                        for h in t.handlers):
                    ok = True
        rule.check(ok, ctx.construct(f, c, extra='each item protected on '
                                     'its own'),
                   '%s: a failing item ends the whole batch (the handler is '
                   'not inside the loop / does not cover Exception / leaves '
                   'the loop)' % what, ctx.loc(f, c))


def completion_queries_partition(ctx, rule):
    """The two task queries the completion logic relies on partition the
    states: `_get_incomplete_task_executions_query` selects exactly the
    states for which is_completed() is false (a DELAYED task is still
    pending: leaving it out lets check_and_complete finish the workflow
    while a retry / wait-before is outstanding), and
    `_get_completed_task_executions_query` exactly the completed ones."""
    prog, sd = ctx.prog, ctx.sd
    DBQ = 'mistral.db.v2.sqlalchemy.api'
    done = set(sd.pred_set('is_completed'))
    for name, want, what in (
            ('_get_incomplete_task_executions_query', set(sd.ALL) - done,
             'incomplete'),
            ('_get_completed_task_executions_query', done, 'completed')):
        f = prog.func(DBQ + '.' + name)
        got = None
        for c in own_nodes(f.node):
            if isinstance(c, ast.Call) and U.call_name(c) == 'in_' and \
                    isinstance(c.func, ast.Attribute) and \
                    norm(c.func.value).endswith('.state') and c.args:
                try:
                    v = prog.eval_const(f.module,
                                        U.canon_expr(f.node, c.args[0]))
                    got = set(v)
                except Exception:
                    got = None
        if got is None:
            raise AnalysisError('%s: state filter does not fold' % name)
        rule.check(got == want, ctx.construct(f, extra='exactly the %s '
                                              'states' % what),
                   'the %s-task query selects %s; missing %s, extra %s: the '
                   'workflow completion check counts the wrong tasks'
                   % (what, sorted(got), sorted(want - got),
                      sorted(got - want)), ctx.loc(f))
    # the completion check counts with the incomplete query
    cf = prog.func(DBQ + '.get_incomplete_task_executions_count')
    rule.check(any(isinstance(c, ast.Call) and
                   U.call_name(c) == '_get_incomplete_task_executions_query'
                   for c in own_nodes(cf.node)),
               ctx.construct(cf, extra='counts the incomplete query'),
               'the count used by check_and_complete is not taken from the '
               'incomplete-task query', ctx.loc(cf))


def requires_read_with_defaults(ctx, rule):
    """`requires` of a reverse-workflow task is only ever read through
    WorkflowSpec.get_task_requires (task-defaults merged in): a direct
    TaskSpec.get_requires() outside mistral/lang ignores prerequisites that
    come from task-defaults (scheduling, data flow)."""
    prog = ctx.prog
    n = 0
    for q, f in sorted(prog.funcs.items()):
        if f.module.startswith('mistral.lang'):
            continue
        for c in own_nodes(f.node):
            if isinstance(c, ast.Call) and \
                    isinstance(c.func, ast.Attribute) and \
                    c.func.attr == 'get_requires':
                rule.fail(ctx.construct(f, c, extra='requires without '
                                        'task-defaults'),
                          '%s reads the task\'s own requires: prerequisites '
                          'declared in task-defaults are ignored here'
                          % f.name, ctx.loc(f, c))
            if isinstance(c, ast.Call) and \
                    U.call_name(c) == 'get_task_requires':
                n += 1
    if n < 3:
        raise AnalysisError('requires: only %d merged reads found' % n)
    rule.ok('requires read through get_task_requires :: %d sites' % n)


def cancelled_item_ends_with_items(ctx, rule):
    """Cancel of a workflow whose with-items task has a concurrency limit:
    the in-flight item comes back CANCELLED while items remain unstarted.
    Nothing new may be started below a cancelled workflow, so (a) an
    accepted CANCELLED item makes the task complete whatever the counters
    say, (b) on_action_complete looks at completion before it thinks about
    the next item, and (c) the final state gives CANCELLED precedence."""
    prog = ctx.prog
    WIT = 'mistral.engine.tasks.WithItemsTask'
    wc = prog.func(WIT + '.is_with_items_completed')
    cfg = ctx.cfg(wc)
    lc = U.lambda_names(wc.node,
                        '__x.accepted and __x.state == states.CANCELLED')
    early = [n for n in cfg.nodes if n.kind == 'stmt' and
             isinstance(n.ast, ast.Return) and
             isinstance(n.ast.value, ast.Constant) and
             n.ast.value.value is True]
    ok = bool(lc) and bool(early)
    for n in early:
        ga = U.guard_atoms(cfg, n)
        ok = ok and len(ga) == 1 and ga[0][1] is True and any(
            isinstance(b['__f'], ast.Name) and b['__f'].id in lc
            for b in U.guard_match(
                cfg, n, 'list(filter(__f, self.task_ex.executions))', True))
    rule.check(ok, ctx.construct(wc, extra='a cancelled item completes it'),
               'an accepted CANCELLED item does not make the with-items task '
               'complete unconditionally: items that were never started '
               'keep it open after a cancel', ctx.loc(wc))
    oc = prog.func(WIT + '.on_action_complete')
    ocfg = ctx.cfg(oc)
    sch = U.calls_in(ocfg, '_schedule_actions')
    if not sch:
        raise AnalysisError('with-items on_action_complete no longer '
                            'schedules further items')
    for n, c in sch:
        rule.check(U.guarded(ocfg, n, 'self.is_with_items_completed()',
                             False),
                   ctx.construct(oc, c, extra='not once the task is complete'),
                   'the next item is started without first establishing that '
                   'the task is not complete: after a cancel a new '
                   'sub-workflow / action is started below a CANCELLED '
                   'workflow', ctx.loc(oc, c))
    fs = prog.func(WIT + '._get_final_state')
    fcfg = ctx.cfg(fs)
    fl = U.lambda_names(fs.node,
                        '__x.accepted and __x.state == states.CANCELLED')
    rets = [n for n in fcfg.nodes if n.kind == 'stmt' and
            isinstance(n.ast, ast.Return)]
    okf = bool(fl) and bool(rets)
    for n in rets:
        m = U.guard_match(fcfg, n,
                          'list(filter(__f, self.task_ex.executions))',
                          norm(n.ast.value) == 'states.CANCELLED')
        okf = okf and any(isinstance(b['__f'], ast.Name) and
                          b['__f'].id in fl for b in m)
    rule.check(okf, ctx.construct(fs, extra='CANCELLED first'),
               'the final state of a with-items task does not give an '
               'accepted CANCELLED item precedence', ctx.loc(fs))


def upstream_states_are_completed_states(ctx, rule):
    """Which upstream tasks a task takes its data from: every state filter
    in DirectWorkflowController._get_upstream_task_executions must select
    exactly the completed states (states.is_completed) - a completed state
    that is left out (SKIPPED was: F23) makes the tasks behind such a task
    lose what that branch published."""
    prog, sd = ctx.prog, ctx.sd
    completed = sd.pred_set('is_completed')
    f = prog.func('mistral.workflow.direct_workflow.DirectWorkflowController.'
                  '_get_upstream_task_executions')
    n = 0
    for c in own_nodes(f.node):
        if not (isinstance(c, ast.Call) and
                U.call_name(c) == '_get_task_executions'):
            continue
        st = U.kwarg(c, 'state')
        n += 1
        got = None
        if isinstance(st, ast.Dict) and len(st.keys) == 1 and \
                isinstance(st.keys[0], ast.Constant) and \
                st.keys[0].value == 'in' and \
                isinstance(st.values[0], (ast.Tuple, ast.List, ast.Set)):
            got = {sd.const_state(e) for e in st.values[0].elts}
        elif st is not None and sd.const_state(st) is not None:
            got = {sd.const_state(st)}
        rule.check(got is not None and None not in got and
                   got == set(completed),
                   ctx.construct(f, c, extra='completed upstream tasks'),
                   'the upstream tasks are selected in states %s, the '
                   'completed states are %s: a task behind a %s task does '
                   'not receive the data of that branch'
                   % (sorted(got or []), sorted(completed),
                      '/'.join(sorted(set(completed) - (got or set())))),
                   ctx.loc(f, c))
    if n < 3:
        raise AnalysisError('upstream task queries of the direct controller '
                            'lost (%d)' % n)


def cas_primitive_reports_loss(ctx, rule):
    """db api update_on_match is the compare-and-swap every state change,
    job capture and trigger advance rests on.  The caller learns that it
    lost only from the return value: what is returned is the result of the
    conditional UPDATE, or None when no row matched - never a row obtained
    some other way (a re-read that "already has the values" makes the loser
    of a race act as the winner: effects run twice)."""
    prog = ctx.prog
    f = prog.func('mistral.db.v2.sqlalchemy.api.update_on_match')
    cfg = ctx.cfg(f)
    rets = [n for n in cfg.nodes if n.kind == 'stmt' and
            isinstance(n.ast, ast.Return)]
    ok = bool(rets)
    why = 'no return'
    for n in rets:
        v = n.ast.value
        vals = [v]
        if isinstance(v, ast.Name):
            vals = list(U.reaching_defs(cfg, v.id)[n.id])
        for d in vals:
            good = (isinstance(d, ast.Constant) and d.value is None) or (
                isinstance(d, ast.Call) and
                isinstance(d.func, ast.Attribute) and
                d.func.attr == 'update_on_match')
            if not good:
                ok = False
                why = 'returns %s' % (norm(d) if not isinstance(d, str)
                                      else d)
    # the conditional update is told what to expect and what to write
    calls = [c for c in own_nodes(f.node) if isinstance(c, ast.Call) and
             isinstance(c.func, ast.Attribute) and
             c.func.attr == 'update_on_match']
    okc = len(calls) == 1 and \
        norm(U.kwarg(calls[0], 'specimen') or ast.Constant(0)) == \
        f.params[1] and \
        norm(U.kwarg(calls[0], 'values') or ast.Constant(0)) == f.params[2]
    # ... and nothing is allowed to turn "no row matched" into a success
    # (oslo.db: handle_failure / process_query hooks of update_on_match)
    if okc:
        extra = {k.arg for k in calls[0].keywords} - {
            'specimen', 'surrogate_key', 'values', 'attempts',
            'include_only'}
        if extra:
            okc = False
            why = 'the conditional UPDATE is given %s' % sorted(
                map(str, extra))
    rule.check(ok and okc, ctx.construct(f, extra='None when no row matched'),
               'update_on_match can return a row although the conditional '
               'UPDATE matched nothing (%s): the loser of a compare-and-swap '
               'is told it won' % why, ctx.loc(f))


def retried_functions_rerunnable(ctx, rule):
    """@retry_on_db_error runs the whole function again after a deadlock /
    lost connection.  That is only the same as running it once when the
    function starts from what it was given: a function that has changed the
    object it was handed (`t.remaining_executions -= 1`) before the DB call
    that failed sees its own change on the second run."""
    prog = ctx.prog
    n = 0
    for q, f in sorted(prog.funcs.items()):
        if '.tests.' in q or not f.has_decorator('retry_on_db_error'):
            continue
        n += 1
        params = set(f.params) - {'self', 'cls'}
        bad = []
        for x in own_nodes(f.node):
            tg = []
            if isinstance(x, ast.AugAssign):
                tg = [x.target]
            elif isinstance(x, ast.Assign):
                tg = x.targets
            for t in tg:
                if isinstance(t, (ast.Attribute, ast.Subscript)):
                    root = t
                    while isinstance(root, (ast.Attribute, ast.Subscript)):
                        root = root.value
                    if isinstance(root, ast.Name) and root.id in params:
                        bad.append(x)
        rule.check(not bad, ctx.construct(f, extra='re-runnable'),
                   'the function is retried as a whole on DB errors but '
                   'changes the object it was given in place (%s): a retry '
                   'applies the change twice'
                   % (norm(bad[0]) if bad else ''),
                   ctx.loc(f, bad[0] if bad else None))
    if n < 10:
        raise AnalysisError('only %d functions with retry_on_db_error' % n)


def clause_getters_agree(ctx, rule):
    """DirectWorkflowSpec.get_on_{success,error,complete,skip}_clause: the
    task's own clause when it names next tasks, otherwise the task-defaults
    clause without the task itself, otherwise nothing.  Each of the four
    copies is evaluated over every combination of (own clause present, own
    clause names next tasks, task-defaults present, defaults clause
    present): a publish-only own clause must still fall back to the
    defaults, and own transitions must never be replaced by them."""
    from mstatic.rules import dt
    prog, sd = ctx.prog, ctx.sd
    cls = 'mistral.lang.v2.workflows.DirectWorkflowSpec'
    for kind in ('success', 'error', 'complete', 'skip'):
        f = prog.func('%s.get_on_%s_clause' % (cls, kind))
        g = 'get_on_%s' % kind
        own = [x for x in own_nodes(f.node) if isinstance(x, ast.Assign) and
               isinstance(x.targets[0], ast.Name) and
               isinstance(x.value, ast.Call) and U.call_name(x.value) == g
               and 'get_task' in norm(x.value, 200)]
        dfl = [x for x in own_nodes(f.node) if isinstance(x, ast.Assign) and
               isinstance(x.targets[0], ast.Name) and
               norm(x.value) == 'self.get_task_defaults()']
        rm = [c for c in own_nodes(f.node) if isinstance(c, ast.Call) and
              U.call_name(c) == '_remove_task_from_clause']
        if len(own) != 1 or len(dfl) != 1 or len(rm) != 1:
            raise AnalysisError('clause getter %s: anchors lost' % f.qname)
        oc, td = own[0].targets[0].id, dfl[0].targets[0].id
        K1 = dt.text(own[0].value)
        K2 = '%s.get_next()' % oc
        K3 = 'self.get_task_defaults()'
        K4 = '%s.%s()' % (td, g)
        K5 = dt.text(rm[0])
        okrm = [norm(a, 200) for a in rm[0].args] == [
            '%s.%s().get_next()' % (td, g), f.params[1]]
        rule.check(okrm, ctx.construct(f, rm[0], extra='defaults without '
                                       'the task itself'),
                   'the fall-back is not the task-defaults clause of the same '
                   'kind with the task itself removed', ctx.loc(f, rm[0]))
        res = [x.targets[0].id for x in own_nodes(f.node)
               if isinstance(x, ast.Assign) and
               isinstance(x.targets[0], ast.Name) and x.value is rm[0]]
        if len(res) != 1:
            raise AnalysisError('clause getter %s: result variable' % f.qname)
        t = dt.Table(ctx, f, [(K1, (None, 'OBJ')), (K2, ((), ('own',))),
                              (K3, (None, 'OBJ')), (K4, (None, 'OBJ')),
                              (K5, (('def',),))],
                     extra_vars=[(res[0], ((), ('own',), ('def',))),
                                 (oc, (None, 'OBJ')), (td, (None, 'OBJ'))],
                     inline_exclude=(oc, td, res[0]))
        bad = []
        n_ret = 0
        for n in t.cfg.nodes:
            if not (n.kind == 'stmt' and isinstance(n.ast, ast.Return)):
                continue
            for v in t.full_at(n):
                n_ret += 1
                d = dict(zip(t.ks, v))
                got = t.ev(n.ast.value, v)
                if d[K1] is not None and d[K2]:
                    exp = ('own',)
                elif d[K3] is not None and d[K4] is not None:
                    exp = ('def',)
                else:
                    exp = ()
                if got != exp and not (exp == () and not got):
                    bad.append((d, got, exp))
        rule.check(not bad and n_ret > 0,
                   ctx.construct(f, extra='own transitions, else the '
                                 'task-defaults'),
                   'the %s transitions of a task are not "its own when it '
                   'names next tasks, otherwise the task-defaults ones" '
                   '(e.g. own clause %s, own next %s, defaults %s/%s -> %s, '
                   'expected %s)' % ((kind,) + ((
                       bad[0][0][K1], bad[0][0][K2], bad[0][0][K3],
                       bad[0][0][K4], bad[0][1], bad[0][2]) if bad
                       else ('',) * 6)), ctx.loc(f))


def repeated_result_refused(ctx, rule):
    """RegularAction.complete: a result for an action that is already
    completed - in *any* completed state - ends in an exception (the
    transaction of the delivery rolls back), never in a quiet return.
    action_handler.on_action_complete cannot tell a refused duplicate from
    an accepted result and runs the task-level completion again after a
    normal return."""
    prog, sd = ctx.prog, ctx.sd
    ra = prog.func('mistral.engine.actions.RegularAction.complete')
    racfg = ctx.cfg(ra)
    done = sd.pred_set('is_completed')
    # ghost: the state the action had when the result arrived
    INr, kr = sd.analyze(racfg, ra, [('self.action_ex.state',
                                      sd.state_domain)],
                         kill=lambda c: (),
                         ghost={'self.action_ex.state'})
    refused = set()
    for x in racfg.nodes:
        if x.kind == 'stmt' and isinstance(x.ast, ast.Raise) and \
                x.ast.exc is not None:
            refused |= sd.values_at(INr, kr, x, 'self.action_ex.state')
    quiet = set()
    for x in racfg.nodes:
        if (x.kind == 'stmt' and isinstance(x.ast, ast.Return)) or \
                x is racfg.exit:
            quiet |= sd.values_at(INr, kr, x, 'self.action_ex.state') & \
                set(done)
    rule.check(set(done) <= refused and not quiet,
               ctx.construct(ra, extra='every repeated result is refused'),
               'a result for an action that is already %s is not refused '
               'with an error (quiet return for %s): the task-level '
               'completion runs a second time for it'
               % (sorted(set(done) - refused) or sorted(quiet),
                  sorted(quiet)), ctx.loc(ra))


def timestamp_columns_are_callables(ctx, rule):
    """`created_at` / `updated_at` of every model: the column default /
    onupdate is something SQLAlchemy calls per INSERT / UPDATE (a function
    reference or a lambda), not the value of a call made once when the
    class body runs - `onupdate=utils.utc_now_sec()` stamps every later
    UPDATE with the process start time, and the expiration policy, the
    spec cache key and the integrity check all read these columns."""
    prog = ctx.prog
    tree = prog.module('mistral.db.sqlalchemy.model_base')
    n = 0
    for st in ast.walk(tree):
        if not (isinstance(st, ast.Assign) and len(st.targets) == 1 and
                isinstance(st.targets[0], ast.Name) and
                st.targets[0].id in ('created_at', 'updated_at') and
                isinstance(st.value, ast.Call) and
                U.call_name(st.value) == 'Column'):
            continue
        for k in st.value.keywords:
            if k.arg in ('default', 'onupdate'):
                n += 1
                okc = isinstance(k.value, (ast.Lambda, ast.Name,
                                           ast.Attribute))
                utc = 'utc_now' in norm(k.value, 200) or \
                    'utcnow' in norm(k.value, 200)
                rule.check(okc and utc,
                           'mistral.db.sqlalchemy.model_base :: %s %s'
                           % (st.targets[0].id, k.arg),
                           '%s of %s is %s: not a callable evaluated per '
                           'row change that returns the current UTC time '
                           '(a call made at import time freezes the value)'
                           % (k.arg, st.targets[0].id, norm(k.value)),
                           prog.loc('mistral.db.sqlalchemy.model_base.'
                                    '_MistralModelBase.to_dict'))
    if n < 2:
        raise AnalysisError('timestamp columns of the model base not found')


def facade_forwards_parameters(ctx, rule, names=None):
    """mistral/db/v2/api.py is a facade: every function hands each of its
    parameters to the implementation.  A parameter that is dropped there
    (a query_filter that makes an update conditional, `insecure`, `fields`)
    silently changes what the call means for every caller."""
    prog = ctx.prog
    n = 0
    for q, f in sorted(prog.funcs.items()):
        if f.module != 'mistral.db.v2.api' or f.parent is not None:
            continue
        if names is not None and f.name not in names:
            continue
        calls = [c for c in own_nodes(f.node) if isinstance(c, ast.Call) and
                 isinstance(c.func, ast.Attribute) and
                 dotted(c.func.value) == 'IMPL']
        if len(calls) != 1:
            continue
        c = calls[0]
        a = f.node.args
        params = [x.arg for x in a.posonlyargs + a.args + a.kwonlyargs]
        star = ([a.vararg.arg] if a.vararg else []) + \
            ([a.kwarg.arg] if a.kwarg else [])
        used = set()
        for x in list(c.args) + [k.value for k in c.keywords]:
            used |= set(U.names_in(x))
        # `session` is injected by the implementation's own decorator
        missing = [p_ for p_ in params + star
                   if p_ not in used and p_ != 'session']
        n += 1
        rule.check(not missing and c.func.attr == f.name,
                   ctx.construct(f, extra='forwards every parameter'),
                   'the DB API facade drops %s on the way to the '
                   'implementation (or calls another function): the call '
                   'means something else for every caller'
                   % missing, ctx.loc(f))
    if n < (1 if names else 100):
        raise AnalysisError('DB API facade functions not found (%d)' % n)


def rpc_request_sent_once(ctx, rule):
    """One request of the caller is one message on the wire: in the RPC
    client layer (drivers in mistral.rpc.*, the engine / executor / notifier
    clients and the exception-unwrapping decorator) no path sends twice -
    a second `call` after a timeout of the first one starts a second
    workflow / delivers a second result when the first request was merely
    slow.  Decided per function: any two send sites are on alternative
    branches (neither is reachable from the other, exception edges
    included)."""
    prog = ctx.prog
    SENDS = ('call', 'cast', 'sync_call', 'async_call')
    n_f = 0
    for q, f in sorted(prog.funcs.items()):
        if not q.startswith('mistral.rpc.') or '.kombu.' in q:
            continue
        names = set(SENDS)
        if q.endswith('wrap_messaging_exception.decorator'):
            names = {'method'}
        cfg = None
        sites = []
        for c in own_nodes(f.node):
            if isinstance(c, ast.Call) and (
                    (isinstance(c.func, ast.Attribute) and
                     c.func.attr in names) or
                    (isinstance(c.func, ast.Name) and c.func.id in names)):
                sites.append(c)
        if not sites:
            continue
        n_f += 1
        cfg = ctx.cfg(f)
        nodes = [cfg.node_of(c) for c in sites]
        bad = None
        for i, a in enumerate(nodes):
            for j, b in enumerate(nodes):
                if i != j and (a is b or
                               cfg.paths_between(a, b, follow_exc=True)):
                    bad = (sites[i], sites[j])
            if bad is None and cfg.paths_between(a, a, follow_exc=True):
                bad = (sites[i], sites[i])
        rule.check(bad is None, ctx.construct(f, extra='one send per request'),
                   'a request can be sent twice on one path (%s then %s): '
                   'the receiver runs it twice when the first one was only '
                   'slow' % ((norm(bad[0], 50), norm(bad[1], 50))
                             if bad else ('', '')), ctx.loc(f))
    if n_f < 15:
        raise AnalysisError('RPC client layer: only %d sending functions '
                            'found' % n_f)


def context_round_trip(ctx, rule, names=None):
    """The security context crosses every RPC hop and every scheduler job as
    a dict: each Mistral-specific attribute (a named parameter of
    MistralContext.__init__) is written by to_dict under its own name from
    the attribute of that name, and restored by from_dict - by a
    kwargs.setdefault(<name>, values.get(<name>...)) or through
    FROM_DICT_EXTRA_KEYS of the base class.  An attribute that is written
    but not restored silently becomes its default on the other side
    (redelivered -> False, trust_id -> None ...)."""
    prog = ctx.prog
    C = 'mistral.context.MistralContext'
    init = prog.func(C + '.__init__')
    td = prog.func(C + '.to_dict')
    fd = prog.func(C + '.from_dict')
    attrs = [p for p in init.params if p not in ('self', 'kwargs')]
    if len(attrs) < 8:
        raise AnalysisError('MistralContext.__init__: attributes not found')
    written = {}
    for d in own_nodes(td.node):
        if isinstance(d, ast.Dict):
            for k, v in zip(d.keys, d.values):
                if isinstance(k, ast.Constant):
                    written[k.value] = norm(v)
    restored = set()
    for c in own_nodes(fd.node):
        if isinstance(c, ast.Call) and U.call_name(c) == 'setdefault' and \
                len(c.args) == 2 and isinstance(c.args[0], ast.Constant):
            g = c.args[1]
            if isinstance(g, ast.Call) and U.call_name(g) == 'get' and \
                    g.args and isinstance(g.args[0], ast.Constant) and \
                    g.args[0].value == c.args[0].value and \
                    norm(g.func.value) == fd.params[1] and \
                    norm(c.func.value) == 'kwargs':
                restored.add(c.args[0].value)
    extra = set()
    mod = prog.module('mistral.context')
    for x in ast.walk(mod):
        if isinstance(x, ast.ClassDef) and x.name == 'MistralContext':
            for st in x.body:
                if isinstance(st, ast.Assign) and \
                        dotted(st.targets[0]) == 'FROM_DICT_EXTRA_KEYS':
                    v = prog.try_const('mistral.context', st.value)
                    if v is None:
                        raise AnalysisError('FROM_DICT_EXTRA_KEYS does not '
                                            'fold')
                    extra = set(v)
    ret = [x for x in own_nodes(fd.node) if isinstance(x, ast.Return)]
    oks = len(ret) == 1 and isinstance(ret[0].value, ast.Call) and \
        U.call_name(ret[0].value) == 'from_dict' and \
        any(k.arg is None and norm(k.value) == 'kwargs'
            for k in ret[0].value.keywords) and \
        [norm(a) for a in ret[0].value.args] == [fd.params[1]]
    rule.check(oks, ctx.construct(fd, extra='hands values and kwargs to the '
                                  'base class'),
               'from_dict does not end in super().from_dict(values, '
               '**kwargs)', ctx.loc(fd))
    setattrs = {}
    for x in own_nodes(init.node):
        if isinstance(x, ast.Assign) and \
                isinstance(x.targets[0], ast.Attribute) and \
                norm(x.targets[0].value) == 'self':
            setattrs[x.targets[0].attr] = norm(x.value)
    for a in attrs:
        if names is not None and a not in names:
            continue
        rule.check(written.get(a) == 'self.' + a and setattrs.get(a) == a,
                   ctx.construct(td, extra='writes ' + a),
                   'to_dict does not write %s from self.%s (or __init__ '
                   'does not keep it)' % (a, a), ctx.loc(td))
        rule.check(a in restored or a in extra,
                   ctx.construct(fd, extra='restores ' + a),
                   'from_dict does not restore %s: after an RPC hop / in a '
                   'scheduler job it has its default, whatever the sender '
                   'had' % a, ctx.loc(fd))


MUTATORS = ('update', 'add', 'append', 'extend', 'pop', 'remove', 'discard',
            'clear', 'sort', 'insert', 'setdefault', 'popitem', 'reverse',
            'difference_update', 'intersection_update',
            'symmetric_difference_update')
FRESH_CALLS = ('set', 'list', 'dict', 'tuple', 'sorted', 'copy', 'deepcopy',
               'frozenset', 'merge_dicts')


def _fresh_expr(e):
    if isinstance(e, (ast.List, ast.Set, ast.Dict, ast.ListComp,
                      ast.SetComp, ast.DictComp, ast.Tuple, ast.Constant)):
        return True
    if isinstance(e, ast.Call) and U.call_name(e) in FRESH_CALLS:
        return True
    if isinstance(e, ast.BinOp):
        return True
    return False


def handed_out_values_fresh(ctx, rule):
    """A collection a spec method hands out and its caller then modifies in
    place (`clauses = wf_spec.find_outbound_task_names(t); clauses.update(
    ...)`) has to be the caller's own: built in the call and referenced from
    nowhere else.  If the method also keeps it (a memo cache keyed by task
    name) the caller's update rewrites what every later call - of every
    execution served from the cached spec - gets back, so routing / join
    decisions depend on what ran before."""
    prog = ctx.prog
    by_name = {}
    for q, f in prog.funcs.items():
        if f.module.startswith('mistral.lang.') and f.cls:
            by_name.setdefault(f.name, []).append(f)
    n = 0
    for q, f in sorted(prog.funcs.items()):
        if not (f.module.startswith('mistral.workflow.') or
                f.module.startswith('mistral.engine.')):
            continue
        got = {}
        for x in own_nodes(f.node):
            if isinstance(x, ast.Assign) and len(x.targets) == 1 and \
                    isinstance(x.targets[0], ast.Name) and \
                    isinstance(x.value, ast.Call) and \
                    isinstance(x.value.func, ast.Attribute) and \
                    x.value.func.attr in by_name and \
                    (dotted(x.value.func.value) or '').split('.')[-1]\
                    .endswith('spec'):
                got.setdefault(x.targets[0].id, []).append(x.value)
        if not got:
            continue
        mutated = set()
        for x in own_nodes(f.node):
            if isinstance(x, ast.Call) and \
                    isinstance(x.func, ast.Attribute) and \
                    x.func.attr in MUTATORS and \
                    isinstance(x.func.value, ast.Name) and \
                    x.func.value.id in got:
                mutated.add(x.func.value.id)
            if isinstance(x, (ast.Assign, ast.AugAssign, ast.Delete)):
                tg = [x.target] if isinstance(x, ast.AugAssign) else x.targets
                for t in tg:
                    if isinstance(t, ast.Subscript) and \
                            isinstance(t.value, ast.Name) and \
                            t.value.id in got:
                        mutated.add(t.value.id)
                    if isinstance(x, ast.AugAssign) and \
                            isinstance(t, ast.Name) and t.id in got:
                        mutated.add(t.id)
        for v in sorted(mutated):
            for call in got[v]:
                for g in by_name[call.func.attr]:
                    n += 1
                    bad = _not_fresh_returns(ctx, g)
                    rule.check(not bad, '%s :: %s handed to %s, modified '
                               'there' % (g.qname, call.func.attr, f.qname),
                               '%s; %s modifies the value in place (%s), so '
                               'the kept copy changes with it'
                               % (bad, f.qname, v), ctx.loc(g))
    if n < 1:
        raise AnalysisError('no spec result modified by its caller found '
                            '(the anchor find_outbound_task_names / '
                            '_find_indirectly... moved)')


def _not_fresh_returns(ctx, g):
    cfg = ctx.cfg(g)
    kept = set()
    for x in own_nodes(g.node):
        if isinstance(x, ast.Assign) and isinstance(x.value, ast.Name):
            for t in x.targets:
                if isinstance(t, (ast.Subscript, ast.Attribute)) and \
                        (dotted(t) or dotted(getattr(t, 'value', None)) or
                         '').split('.')[0] in ('self', 'cls'):
                    kept.add(x.value.id)
        if isinstance(x, ast.Call) and isinstance(x.func, ast.Attribute) and \
                (dotted(x.func.value) or '').split('.')[0] in ('self', 'cls') \
                and x.func.attr in MUTATORS + ('__setitem__',):
            for a in x.args:
                if isinstance(a, ast.Name):
                    kept.add(a.id)
    for nd in cfg.nodes:
        if not (nd.kind == 'stmt' and isinstance(nd.ast, ast.Return)):
            continue
        e = nd.ast.value
        if e is None or _fresh_expr(e):
            continue
        if isinstance(e, ast.Name):
            if e.id in kept:
                return 'the returned %s is also kept in the spec object' \
                    % e.id
            rd = U.reaching_defs(cfg, e.id).get(nd.id, set())
            if all(not isinstance(d, str) and _fresh_expr(d) for d in rd):
                continue
            return 'the returned %s is not built in the call on every ' \
                'path (line %d)' % (e.id, nd.ast.lineno)
        return 'returns %s, which is not built in the call (line %d)' % (
            norm(e, 50), nd.ast.lineno)
    return None


def filters_never_dropped(ctx, rule):
    """Every filter a caller passes narrows the query: inside the loop of
    db.v2.sqlalchemy.filters.apply_filters each recognised operator adds its
    predicate under no condition other than the operator tests themselves
    (`'in' in value`, the isinstance of the value, the `tags` key) - in
    particular not depending on the operand (an empty `in` list must select
    nothing: the upstream tasks of a reverse task without `requires` are
    "no tasks", not "all tasks")."""
    prog = ctx.prog
    f = prog.func('mistral.db.v2.sqlalchemy.filters.apply_filters')
    cfg = ctx.cfg(f)
    loops = [x for x in own_nodes(f.node) if isinstance(x, ast.For)]
    if not loops:
        raise AnalysisError('apply_filters: loop over the filters not found')
    lp = loops[0]
    kv = [norm(e) for e in lp.target.elts] \
        if isinstance(lp.target, ast.Tuple) else []
    if len(kv) != 2:
        raise AnalysisError('apply_filters: loop target')
    K, V = kv
    n = 0
    ops_seen = set()
    for node, c in cfg.calls(lambda c: U.call_name(c) == 'filter'):
        if not any(y is c for b in lp.body for y in ast.walk(b)):
            continue
        n += 1
        atoms = U.guard_atoms(cfg, node)
        extra = []
        for a, t in atoms:
            txt = norm(a)
            if isinstance(a, ast.Compare) and \
                    isinstance(a.ops[0], ast.In) and \
                    isinstance(a.left, ast.Constant) and \
                    norm(a.comparators[0]) == V:
                if t:
                    ops_seen.add(a.left.value)
                continue
            if txt in ('isinstance(%s, dict)' % V, "%s == 'tags'" % K):
                continue
            extra.append((txt, t))
        rule.check(not extra, ctx.construct(f, c, extra='always applied'),
                   'the predicate is only added when %s: a filter the '
                   'caller passed can be dropped, the query then selects '
                   'rows the caller excluded' % extra, ctx.loc(f, c))
    # the operand reaches the predicate as passed
    for op in sorted(ops_seen):
        pass
    if n < 8 or not {'in', 'nin', 'neq', 'eq'} <= ops_seen:
        raise AnalysisError('apply_filters: %d predicates, operators %s'
                            % (n, sorted(ops_seen)))
    fb = [c for _n, c in cfg.calls(lambda c: U.call_name(c) == 'filter_by')]
    ok = False
    for nd, c in cfg.calls(lambda c: U.call_name(c) == 'filter_by'):
        at = [(norm(a), t) for a, t in U.guard_atoms(cfg, nd)]
        ok = at == [('filter_dict', True)] and any(
            k.arg is None and norm(k.value) == 'filter_dict'
            for k in c.keywords)
    stores = [x for x in own_nodes(lp) if isinstance(x, ast.Assign) and
              isinstance(x.targets[0], ast.Subscript) and
              norm(x.targets[0].value) == 'filter_dict']
    oks = len(stores) == 1 and norm(stores[0].targets[0].slice) == K and \
        norm(stores[0].value) == V and \
        [(norm(a), t) for a, t in U.guard_atoms(
            cfg, cfg.stmt_node(stores[0]))
         if norm(a) != "%s == 'tags'" % K] == [
            ('isinstance(%s, dict)' % V, False)]
    rule.check(ok and oks, ctx.construct(f, extra='plain values become '
                                         'equality filters'),
               'a plain filter value is not always turned into an equality '
               'filter (filter_dict[key] = value for every non-dict value, '
               'filter_by(**filter_dict) whenever it is not empty)',
               ctx.loc(f))


def rpc_client_payload_as_given(ctx, rule):
    """The RPC clients (mistral.rpc.clients) put the arguments of the caller
    on the wire as they were given: every keyword of the send is a parameter
    of the method (not re-bound on the way), a constant, or `<parameter> or
    <empty literal>` (the None -> {} default of the two input dicts).  A
    payload that is filtered or rebuilt in the client (dropping None-valued
    execution parameters, say) makes the RPC path of an operation differ
    from the in-process path."""
    prog = ctx.prog
    n = 0
    for q, f in sorted(prog.funcs.items()):
        if f.module != 'mistral.rpc.clients' or not f.cls:
            continue
        cfg = None
        aliases = set()
        for x in own_nodes(f.node):
            if isinstance(x, ast.Assign) and isinstance(x.targets[0],
                                                        ast.Name) and any(
                    isinstance(y, ast.Attribute) and
                    y.attr in ('sync_call', 'async_call')
                    for y in ast.walk(x.value)):
                aliases.add(x.targets[0].id)
        for c in own_nodes(f.node):
            if not isinstance(c, ast.Call):
                continue
            is_send = (isinstance(c.func, ast.Attribute) and
                       c.func.attr in ('sync_call', 'async_call')) or \
                      (isinstance(c.func, ast.Name) and c.func.id in aliases)
            if not is_send:
                continue
            cfg = cfg or ctx.cfg(f)
            node = cfg.node_of(c)
            bad = []
            a_ = f.node.args
            pnames = set(f.params) | {x.arg for x in (a_.vararg, a_.kwarg)
                                      if x is not None}
            kws = list(c.keywords)
            # **local where local = {...literal...}: its entries count
            for k in list(kws):
                if k.arg is None and isinstance(k.value, ast.Name) and \
                        k.value.id not in pnames:
                    ds = [x.value for x in own_nodes(f.node)
                          if isinstance(x, ast.Assign) and
                          dotted(x.targets[0]) == k.value.id]
                    if len(ds) == 1 and isinstance(ds[0], ast.Dict):
                        kws.remove(k)
                        kws += [ast.keyword(arg=getattr(kk, 'value', '?'),
                                            value=vv)
                                for kk, vv in zip(ds[0].keys, ds[0].values)]
            for k in kws:
                v = k.value
                if isinstance(v, ast.BoolOp) and isinstance(v.op, ast.Or) \
                        and len(v.values) == 2 and \
                        isinstance(v.values[1], (ast.Dict, ast.List)) and \
                        not (getattr(v.values[1], 'keys', None) or
                             getattr(v.values[1], 'elts', None)):
                    v = v.values[0]
                if isinstance(v, ast.Constant):
                    continue
                if isinstance(v, ast.Attribute) and \
                        (dotted(v) or '').startswith('self.'):
                    continue
                if isinstance(v, ast.Name) and v.id in pnames and \
                        U.reaching_defs(cfg, v.id).get(node.id, set()) <= \
                        {'param'}:
                    continue
                bad.append('%s=%s' % (k.arg or '**', norm(k.value, 60)))
            n += 1
            rule.check(not bad, ctx.construct(f, extra='payload as given'),
                       'the request is sent with %s: not the argument the '
                       'caller passed' % bad, ctx.loc(f, c))
    if n < 12:
        raise AnalysisError('RPC clients: %d sends found' % n)


def batches_cover_all_rows(ctx, rule):
    """The final context of a direct workflow is folded over the completed
    tasks read in batches: the batches have to partition ALL rows of the
    query - consecutive windows `slice(i, i + S)` with the index advanced by
    the same S, until the index reaches the row count (`query.count()`,
    directly or through a local).  A window one row short, or a bound
    rounded down to whole batches, silently drops the published variables
    of some end tasks from the workflow output."""
    prog = ctx.prog
    f = prog.func('mistral.db.v2.sqlalchemy.api.'
                  'get_completed_task_executions_as_batches')
    cfg = ctx.cfg(f)
    sl = [c for c in own_nodes(f.node) if isinstance(c, ast.Call) and
          U.call_name(c) == 'slice' and len(c.args) == 2]
    if len(sl) != 1:
        raise AnalysisError('batches: slice(...) not found')
    lo, hi = sl[0].args
    idx = lo.id if isinstance(lo, ast.Name) else None
    step = None
    if isinstance(hi, ast.BinOp) and isinstance(hi.op, ast.Add) and \
            norm(hi.left) == norm(lo):
        step = norm(hi.right)
    elif isinstance(hi, ast.BinOp) and isinstance(hi.op, ast.Add) and \
            norm(hi.right) == norm(lo):
        step = norm(hi.left)
    rule.check(idx is not None and step is not None,
               ctx.construct(f, extra='window [i, i + S)'),
               'a batch is %s, not the window [i, i + S) of the index'
               % norm(sl[0], 60), ctx.loc(f, sl[0]))
    if idx is None or step is None:
        return

    def is_count(e):
        e = U.canon_expr(f.node, e)
        return isinstance(e, ast.Call) and U.call_name(e) == 'count' and \
            not e.args

    ok_adv = ok_bound = False
    for x in own_nodes(f.node):
        if isinstance(x, ast.While) and any(y is sl[0] for y in ast.walk(x)):
            t = x.test
            ok_bound = isinstance(t, ast.Compare) and len(t.ops) == 1 and \
                isinstance(t.ops[0], ast.Lt) and norm(t.left) == idx and \
                is_count(t.comparators[0])
            ok_adv = any(isinstance(y, ast.AugAssign) and
                         isinstance(y.op, ast.Add) and
                         norm(y.target) == idx and norm(y.value) == step
                         for y in ast.walk(x)) and \
                sum(1 for y in ast.walk(x)
                    if isinstance(y, (ast.AugAssign, ast.Assign)) and any(
                        norm(t_) == idx for t_ in (
                            [y.target] if isinstance(y, ast.AugAssign)
                            else y.targets))) == 1
        if isinstance(x, ast.For) and any(y is sl[0] for y in ast.walk(x)) \
                and norm(x.target) == idx and isinstance(x.iter, ast.Call) \
                and U.call_name(x.iter) == 'range' and len(x.iter.args) == 3:
            a0, a1, a2 = x.iter.args
            ok_bound = isinstance(a0, ast.Constant) and a0.value == 0 and \
                is_count(a1)
            ok_adv = norm(a2) == step
    rule.check(ok_adv, ctx.construct(f, extra='index advances by S'),
               'the index does not advance by the window size %s: rows are '
               'skipped or read twice' % step, ctx.loc(f))
    rule.check(ok_bound, ctx.construct(f, extra='until the row count'),
               'the batches stop at something other than the row count of '
               'the query: the last (partial) batch of completed tasks is '
               'not read', ctx.loc(f))


def admin_context_lists_all_projects(ctx, rule):
    """pause / stop / cancel / resume cascade over the sub-workflows found
    with db_api.get_workflow_executions(task_execution_id=...): when an
    administrator operates on an execution of another project, those rows
    belong to that project and are only found because `_get_collection`
    turns the query insecure for an admin context.  Decided: the flag that
    selects the unscoped query may come from `context.ctx().is_admin`
    (reaching definitions), under the has_ctx() test only."""
    prog = ctx.prog
    f = prog.func('mistral.db.v2.sqlalchemy.api._get_collection')
    cfg = ctx.cfg(f)
    uses = [n for n in cfg.nodes if n.kind in ('stmt', 'test') and any(
        isinstance(x, ast.IfExp) and norm(x.test) == 'insecure' or
        (n.kind == 'test' and norm(n.ast) == 'insecure')
        for x in ast.walk(n.ast))]
    if not uses:
        raise AnalysisError('_get_collection: choice of the query by '
                            '`insecure` not found')
    rd = U.reaching_defs(cfg, 'insecure').get(uses[0].id, set())
    adm = [d for d in rd if not isinstance(d, str) and
           'is_admin' in norm(d) and 'insecure' in norm(d)]
    rule.check(bool(adm) and 'param' in rd,
               ctx.construct(f, extra='admin context widens the listing'),
               'the collection getter no longer lists the rows of all '
               'projects for an admin context: a cascade run by an '
               'administrator on another project\'s execution finds no '
               'sub-workflows', ctx.loc(f))
    for d in adm:
        n = cfg.node_of(d)
        facts = [(norm(a), t) for a, t in U.guard_atoms(cfg, n)]
        rule.check(facts == [('context.has_ctx()', True)],
                   ctx.construct(f, extra='whenever there is a context'),
                   'the admin override is additionally conditioned: %s'
                   % facts, ctx.loc(f))


def rerun_keeps_triggered_by(ctx, rule):
    """A re-run task is still the task its parent started: the inbound
    context of a non-join task is found through
    runtime_context['triggered_by'] (direct_workflow._get_upstream_task_
    executions filters by those ids and otherwise falls back to the FIRST
    inbound task name).  Workflow.rerun cleans the runtime context of the
    task (policy counters, with-items bookkeeping): the clean-up has to keep
    'triggered_by' - read before the clear, stored back after it, under no
    condition but the value being there."""
    prog = ctx.prog
    f = prog.func('mistral.engine.tasks.Task.cleanup_runtime_context')
    cfg = ctx.cfg(f)
    clears = [(n, c) for n, c in cfg.calls(
        lambda c: isinstance(c.func, ast.Attribute) and
        c.func.attr == 'clear' and not c.args)]
    resets = [x for x in own_nodes(f.node) if isinstance(x, ast.Assign) and
              any((dotted(t) or '').endswith('runtime_context')
                  for t in x.targets) and
              isinstance(x.value, (ast.Dict, ast.Call, ast.Constant))
              and not isinstance(x.targets[0], ast.Name)]
    # ... and it does clean: the counters of the policies (retry number,
    # wait-before 'skip' mark, with-items bookkeeping) of the failed attempt
    # would otherwise limit the new one ("as if the task had produced its
    # new result the first time")
    # (cleared under no condition but the context itself being non-empty)
    okc = bool(clears) and all(
        [(norm(a), t) for a, t in U.guard_atoms(cfg, n)] in (
            [], [(norm(c.func.value), True)])
        for n, c in clears)
    rule.check(okc or bool(resets),
               ctx.construct(f, extra='policy context of the failed attempt '
                             'dropped'),
               'the runtime context of a re-run task is not cleared whenever '
               'there is one: the retry counter / policy marks of the '
               'failed attempt carry over into the new one', ctx.loc(f))
    if not clears and not resets:
        drops = [x for x in own_nodes(f.node) if (
            isinstance(x, ast.Call) and U.call_name(x) in ('pop', 'popitem')
            and (not x.args or (isinstance(x.args[0], ast.Constant) and
                                x.args[0].value == 'triggered_by'))) or (
            isinstance(x, ast.Delete) and 'triggered_by' in norm(x))]
        rule.check(not drops, ctx.construct(f, extra='triggered_by kept'),
                   'the clean-up of a re-run task drops triggered_by',
                   ctx.loc(f))
        return
    if resets:
        rule.fail(ctx.construct(f, extra='triggered_by kept'),
                  'the runtime context of a re-run task is replaced as a '
                  'whole: triggered_by is lost and the task takes the '
                  'context of the first inbound task name', ctx.loc(f))
        return
    saved = {}
    for x in own_nodes(f.node):
        if isinstance(x, ast.Assign) and isinstance(x.targets[0], ast.Name):
            v = x.value
            if (isinstance(v, ast.Call) and
                    U.call_name(v) in ('get', 'pop') and
                    v.args and isinstance(v.args[0], ast.Constant) and
                    v.args[0].value == 'triggered_by') or (
                    isinstance(v, ast.Subscript) and
                    isinstance(v.slice, ast.Constant) and
                    v.slice.value == 'triggered_by'):
                saved[x.targets[0].id] = cfg.stmt_node(x)
    ok = False
    why = 'triggered_by is not read before the context is cleared'
    for name, rn in saved.items():
        if not all(cfg.dominates(rn, cn) for cn, _c in clears):
            continue
        why = 'triggered_by is not stored back after the clear'
        for x in own_nodes(f.node):
            if isinstance(x, ast.Assign) and \
                    isinstance(x.targets[0], ast.Subscript) and \
                    isinstance(x.targets[0].slice, ast.Constant) and \
                    x.targets[0].slice.value == 'triggered_by' and \
                    isinstance(x.value, ast.Name) and x.value.id == name:
                sn = cfg.stmt_node(x)
                after = all(cfg.paths_between(cn, sn) for cn, _c in clears)
                facts = [(norm(a), t) for a, t in U.guard_atoms(cfg, sn)]
                extra = [ft for ft in facts
                         if ft not in [(name, True)] and
                         not any(ft in [(norm(a), t) for a, t in
                                        U.guard_atoms(cfg, cn)]
                                 for cn, _c in clears)]
                if after and not extra:
                    ok = True
                elif after:
                    why = 'storing triggered_by back is conditioned on %s' \
                        % extra
    rule.check(ok, ctx.construct(f, extra='triggered_by kept'),
               '%s: after a rerun a task with several possible parents '
               'takes its inbound context from the first inbound task name '
               'instead of the task that started it' % why, ctx.loc(f))
