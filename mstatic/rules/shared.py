"""Rules shared by several properties."""
import ast

from mstatic.core import AnalysisError, dotted, norm, own_nodes
from mstatic.rules import util as U

CMDS = 'mistral.workflow.commands'

# keys written by to_dict that need not be read back, with the reason
DERIVED_KEYS = {
    'new_state': 'implied by the command class chosen through cmd_name',
}


def dict_keys_written(prog, cls_q):
    """Keys stored into the dict returned by <cls>.to_dict (MRO chain)."""
    keys = set()
    found = False
    for k in prog.mro(cls_q):
        f = prog.funcs.get(k + '.to_dict')
        if f is None:
            continue
        found = True
        for n in own_nodes(f.node):
            if isinstance(n, ast.Dict):
                for kk in n.keys:
                    if isinstance(kk, ast.Constant):
                        keys.add(kk.value)
            if isinstance(n, ast.Assign):
                for t in n.targets:
                    if isinstance(t, ast.Subscript) and \
                            isinstance(t.slice, ast.Constant):
                        keys.add(t.slice.value)
    if not found:
        raise AnalysisError('no to_dict for %s' % cls_q)
    return keys


def backlog_round_trip(ctx, rule):
    """Every key that a restorable command writes into the backlog is read
    back by restore_command_from_dict, and command attributes consumed by
    task_handler._build_task_from_command are restored from them."""
    prog = ctx.prog
    rf = prog.func(CMDS + '.restore_command_from_dict')
    read = set()
    for n in own_nodes(rf.node):
        if isinstance(n, ast.Subscript) and dotted(n.value) == 'cmd_dict' \
                and isinstance(n.slice, ast.Constant):
            read.add(n.slice.value)
        if isinstance(n, ast.Call) and U.call_dotted(n) == 'cmd_dict.get' \
                and n.args and isinstance(n.args[0], ast.Constant):
            read.add(n.args[0].value)
        if isinstance(n, ast.Compare) and isinstance(n.left, ast.Constant) \
                and any(dotted(c) == 'cmd_dict' for c in n.comparators):
            read.add(n.left.value)
    # classes create_command can build: RunTask + ENGINE_CMD_CLS values
    tree = prog.module(CMDS)
    table = prog.module_assigns[CMDS].get('ENGINE_CMD_CLS')
    if not isinstance(table, ast.Dict):
        raise AnalysisError('ENGINE_CMD_CLS table not found')
    classes = [CMDS + '.RunTask'] + [CMDS + '.' + dotted(v)
                                     for v in table.values]
    n = 0
    for c in classes:
        prog.cls(c)
        for key in sorted(dict_keys_written(prog, c)):
            n += 1
            ok = key in read or key in DERIVED_KEYS
            rule.check(ok, '%s.to_dict :: %r' % (c, key),
                       'key %r is saved to the backlog but never restored by '
                       'restore_command_from_dict (the command comes back '
                       'with the constructor default)' % key,
                       ctx.loc(rf), DERIVED_KEYS.get(key, 'restored'))
    if n < 10:
        raise AnalysisError('backlog round trip: only %d keys' % n)
    # attributes consumed when the task is built from a RunTask command
    bf = prog.func('mistral.engine.task_handler._build_task_from_command')
    consumed = set()
    for t in ast.walk(bf.node):
        if isinstance(t, ast.If) and 'RunTask' in norm(t.test) and \
                'RunExistingTask' not in norm(t.test):
            for x in ast.walk(t):
                if isinstance(x, ast.Attribute) and dotted(x.value) == 'cmd':
                    consumed.add(x.attr)
    if not consumed:
        raise AnalysisError('RunTask branch of _build_task_from_command '
                            'lost')
    # attribute -> backlog key (is_waiting() reads self.wait)
    attr_key = {'is_waiting': 'wait', 'unique_key': 'unique_key',
                'triggered_by': 'triggered_by', 'ctx': 'ctx',
                'task_spec': 'task_name'}
    stored_attrs = set()
    for x in own_nodes(rf.node):
        if isinstance(x, ast.Assign):
            for t in x.targets:
                if isinstance(t, ast.Attribute) and dotted(t.value) == 'cmd':
                    stored_attrs.add(t.attr)
    ctor_restored = {'triggered_by', 'ctx', 'task_spec', 'wf_ex', 'wf_spec'}
    for a in sorted(consumed):
        key = attr_key.get(a)
        if a in ('wf_ex', 'wf_spec'):
            continue
        attr = 'wait' if a == 'is_waiting' else a
        ok = attr in ctor_restored or attr in stored_attrs
        rule.check(ok and (key is None or key in read),
                   '%s :: cmd.%s' % (bf.qname, a),
                   'attribute %s consumed when building the task is not '
                   'restored from the backlog entry' % a, ctx.loc(rf))


def subworkflow_recursion_unrestricted(ctx, rule, fq, rec_name):
    """The handler's recursion into sub-workflows is not restricted by the
    state of the parent *task*: sub-workflows hang off tasks in any state
    (a with-items task is already PAUSED when one child paused it), the
    only filter is on the sub-workflow's own state."""
    prog, sd = ctx.prog, ctx.sd
    f = prog.func(fq)
    cfg = ctx.cfg(f)
    IN, keys = sd.analyze(cfg, f, [('task_ex.state', sd.state_domain)],
                          kill=lambda c: ())
    rec = U.calls_in(cfg, rec_name)
    rec = [(n, c) for n, c in rec if not isinstance(c.func, ast.Attribute)
           or dotted(c.func.value) in (None, 'self')]
    if not rec:
        raise AnalysisError('%s: recursion into sub-workflows lost' % fq)
    for n, c in rec:
        vals = sd.values_at(IN, keys, n, 'task_ex.state')
        missing = set(sd.ALL) - vals
        rule.check(not missing, ctx.construct(f, extra='recursion for '
                                              'tasks in any state'),
                   'sub-workflows of tasks in state %s are skipped by the '
                   'recursion (the only legitimate filter is the '
                   'sub-workflow\'s own state)' % sorted(missing),
                   ctx.loc(f, c))
