"""C06 - duplicate or redelivered messages have the effect of one delivery."""
import ast

from mstatic.core import AnalysisError, dotted, norm, own_nodes
from mstatic.rules import util as U
from mstatic.rules import c03
from mstatic.statedom import OBJ

ENG = 'mistral.engine.default_engine.DefaultEngine'
EXE = 'mistral.executors.default_executor.DefaultExecutor'
RT = 'mistral.engine.tasks.RegularTask'
WIT = 'mistral.engine.tasks.WithItemsTask'

SERVER_TARGET_ATTR = {
    'mistral.engine.engine_server.EngineServer': ('engine', ENG),
    'mistral.executors.executor_server.ExecutorServer': ('executor', EXE),
    'mistral.event_engine.event_engine_server.EventEngineServer':
        ('event_engine',
         'mistral.event_engine.default_event_engine.DefaultEventEngine'),
    'mistral.notifiers.notification_server.NotificationServer':
        ('notifier', 'mistral.notifiers.default_notifier.DefaultNotifier'),
}


def sig(f):
    a = f.node.args
    pos = [x.arg for x in a.posonlyargs + a.args]
    if f.cls and f.parent is None and pos and pos[0] in ('self', 'cls'):
        pos = pos[1:]
    ndef = len(a.defaults)
    required = pos[:len(pos) - ndef] if ndef else list(pos)
    kwonly = [x.arg for x in a.kwonlyargs]
    return {'pos': pos, 'required': required, 'kwonly': kwonly,
            'varkw': a.kwarg is not None, 'vararg': a.vararg is not None}


def call_compatible(call, s, skip_first=0):
    """Is the call (positional + keyword args) accepted by signature s?
    Returns list of problems."""
    probs = []
    npos = len([a for a in call.args if not isinstance(a, ast.Starred)])
    has_star = any(isinstance(a, ast.Starred) for a in call.args)
    has_kwstar = any(k.arg is None for k in call.keywords)
    if npos > len(s['pos']) and not s['vararg']:
        probs.append('%d positional arguments for %d parameters'
                     % (npos, len(s['pos'])))
    bound = set(s['pos'][:npos])
    for k in call.keywords:
        if k.arg is None:
            continue
        if k.arg in bound:
            probs.append('argument %s passed twice' % k.arg)
        if k.arg not in s['pos'] and k.arg not in s['kwonly'] and \
                not s['varkw']:
            probs.append('unexpected keyword %s' % k.arg)
        bound.add(k.arg)
    if not has_star and not has_kwstar:
        for r in s['required']:
            if r not in bound:
                probs.append('required parameter %s not passed' % r)
    return probs


def rpc_params_forwarded_unchanged(ctx, rule):
    """An RPC server method hands the values it received to the engine /
    executor as they are: it does not re-bind a parameter (e.g. turning a
    missing `reset` into True changes what the caller asked for)."""
    prog = ctx.prog
    n = 0
    for cls in ('mistral.engine.engine_server.EngineServer',
                'mistral.executors.executor_server.ExecutorServer'):
        for m in prog.methods_of(cls):
            if m.name.startswith('_') or m.name in ('start', 'stop'):
                continue
            ps = set(m.params) - {'self'}
            n += 1
            bad = []
            for x in own_nodes(m.node):
                if isinstance(x, (ast.Assign, ast.AugAssign, ast.AnnAssign)):
                    tg = x.targets if isinstance(x, ast.Assign) \
                        else [x.target]
                    for t in tg:
                        if isinstance(t, ast.Name) and t.id in ps:
                            bad.append(norm(x))
            rule.check(not bad, ctx.construct(m, extra='parameters forwarded '
                                              'as received'),
                       'the RPC server method re-binds a parameter (%s): '
                       'the engine is asked something else than the client '
                       'sent' % bad[:1], ctx.loc(m))
    if n < 10:
        raise AnalysisError('rpc servers: only %d endpoint methods' % n)
    return n


def rpc_surface(ctx, rule):
    prog, cg = ctx.prog, ctx.cg
    if len(cg.rpc_sites) < 12:
        raise AnalysisError('RPC surface: only %d client call sites'
                            % len(cg.rpc_sites))
    for (q, name, kws, call, kind) in cg.rpc_sites:
        f = prog.funcs[q]
        srv = None
        for k in prog.mro(f.cls or ''):
            from mstatic.cg import RPC_PAIRS
            if k in RPC_PAIRS:
                srv = RPC_PAIRS[k]
        cons = '%s :: rpc %r' % (q, name)
        if srv is None:
            rule.fail(cons, 'RPC call from a class without a known server',
                      ctx.loc(f, call))
            continue
        sq = srv + '.' + name
        sf = prog.funcs.get(sq)
        if sf is None:
            rule.fail(cons, 'server %s has no method %r: the message would '
                      'be dropped with an error on the server side'
                      % (srv.rsplit('.', 1)[1], name), ctx.loc(f, call))
            continue
        s = sig(sf)
        params = [p for p in s['pos'] if p != 'rpc_ctx']
        probs = []
        # keywords consumed by the transport driver itself
        transport = set()
        for dq in ('mistral.rpc.oslo.oslo_client.OsloRPCClient',):
            for m in ('sync_call', 'async_call'):
                df = prog.funcs.get(dq + '.' + m)
                if df is not None:
                    transport |= set(sig(df)['pos']) - {'ctx', 'method'}
        kws = [k for k in kws if k not in transport]
        if None in kws:
            # **kwargs forwarded by the client: cannot be enumerated
            pass
        else:
            for kw in kws:
                if kw not in params and not s['varkw']:
                    probs.append('server does not accept %r' % kw)
            for r in s['required']:
                if r != 'rpc_ctx' and r not in kws:
                    probs.append('server requires %r which is not sent' % r)
        # server forwards to the implementation
        attr, impl = SERVER_TARGET_ATTR[srv]
        impl_methods = {m.name for k in prog.mro(impl)
                        for m in prog.methods_of(k)}
        fwd = [n for n in own_nodes(sf.node) if isinstance(n, ast.Call) and
               isinstance(n.func, ast.Attribute) and
               (dotted(n.func.value) or '').startswith('self.') and
               (dotted(n.func.value) or '').count('.') == 1 and
               n.func.attr in impl_methods]
        if not fwd:
            probs.append('server method does not forward to self.%s' % attr)
        for c in fwd:
            tq = None
            for k in [impl] + sorted(prog.all_subclasses(impl)):
                if k + '.' + c.func.attr in prog.funcs:
                    tq = k + '.' + c.func.attr
                    break
            if tq is None:
                for k in prog.mro(impl):
                    if k + '.' + c.func.attr in prog.funcs:
                        tq = k + '.' + c.func.attr
                        break
            if tq is None:
                probs.append('implementation has no method %s'
                             % c.func.attr)
                continue
            probs += ['%s(): %s' % (tq.rsplit('.', 1)[1], p)
                      for p in call_compatible(c, sig(prog.funcs[tq]))]
        rule.check(not probs, cons, '; '.join(probs), ctx.loc(f, call),
                   'server %s accepts %s' % (sq.rsplit('.', 2)[1], kws))


def run(ctx):
    prog, sd = ctx.prog, ctx.sd
    S = sd.consts
    completed = sd.pred_set('is_completed')

    # ---- R1 second result rejected (shared with C03.R5) -------------------
    r1 = ctx.rule('R1', 'a second result for a completed action is rejected '
                  'before any write and rolls the transaction back', 'GD')
    from mstatic.rules import shared as _shc
    _shc.cas_primitive_reports_loss(ctx, r1)
    _shc.repeated_result_refused(ctx, r1)
    f = prog.func('mistral.engine.actions.RegularAction.complete')
    cfg = ctx.cfg(f)
    n_w = 0
    for t, st in U.attr_stores(f.node):
        if dotted(t.value) != 'self.action_ex':
            continue
        n_w += 1
        sn = cfg.stmt_node(st)
        vals = c03._pre_state_values(ctx, f, sn, 'self.action_ex.state')
        r1.check(not (vals & completed), ctx.construct(f, st),
                 'write reachable for an already completed action',
                 ctx.loc(f, st))
    if n_w < 3:
        raise AnalysisError('C06.R1: writes of RegularAction.complete lost')
    # the refusal must not be caught on its way out: action_handler turns
    # what it catches into action.fail() + force_fail_task(), i.e. a
    # duplicate would fail a finished action, its task and the workflow
    INc, kc = sd.analyze(cfg, f, [('self.action_ex.state', sd.state_domain)],
                         kill=lambda c: ())
    ah = prog.func('mistral.engine.action_handler.on_action_complete')
    ah_caught = set()
    for t in ast.walk(ah.node):
        if isinstance(t, ast.Try):
            for hd in t.handlers:
                ah_caught |= set(U.handler_types(hd))
    n_ref = 0
    for x in cfg.nodes:
        if x.kind == 'stmt' and isinstance(x.ast, ast.Raise) and x.ast.exc:
            vals = sd.values_at(INc, kc, x, 'self.action_ex.state')
            if vals and vals <= completed:
                n_ref += 1
                cls = dotted(x.ast.exc.func) if isinstance(
                    x.ast.exc, ast.Call) else dotted(x.ast.exc)
                short = (cls or '').split('.')[-1]
                swallowed = any(h.split('.')[-1] in (short, 'Exception',
                                                     'BaseException')
                                for h in ah_caught) or \
                    c03._mistral_exc(prog, f.module, cls)
                r1.check(not swallowed, ctx.construct(f, x.ast),
                         'the refusal of a repeated result (%s) is caught by '
                         'action_handler.on_action_complete (%s): the '
                         'duplicate fails the finished action, its task and '
                         'the workflow instead of being rolled back'
                         % (cls, sorted(ah_caught)), ctx.loc(f, x.ast))
    r1.check(n_ref >= 1, ctx.construct(f, extra='completed => raise'),
             'a result for a completed action is not refused', ctx.loc(f))
    # repeated completion of a task (the only guard for sub-workflow
    # results: WorkflowAction.complete is a no-op)
    tc = prog.func('mistral.engine.tasks.Task.complete')
    tcfg = ctx.cfg(tc)
    from mstatic.statedom import OBJ as _OBJ
    INt, kt = sd.analyze(tcfg, tc, [('self.task_ex.state', sd.state_domain),
                                    ('state', sd.state_domain),
                                    ('self.task_ex', (_OBJ,))],
                         kill=lambda c: (),
                         types={'self': 'mistral.engine.tasks.Task'})
    for n, c in U.calls_in(tcfg, 'set_state'):
        bad = [v for v in INt[n.id]
               if v[0] in completed and v[1] != 'SKIPPED']
        r1.check(not bad, ctx.construct(tc, c, extra='completed task left '
                                        'alone'),
                 'Task.complete goes on for a task that is already %s when '
                 '%s is requested: a repeated sub-workflow result publishes '
                 'and dispatches the follow-up tasks a second time'
                 % (bad[0][:1] if bad else '', bad[0][1:] if bad else ''),
                 ctx.loc(tc, c))
    eng = prog.func(ENG + '.on_action_complete')
    caught = set()
    for t in ast.walk(eng.node):
        if isinstance(t, ast.Try):
            for h in t.handlers:
                caught |= set(U.handler_types(h))
    r1.check(not caught, ctx.construct(eng, extra='no handler'),
             'DefaultEngine.on_action_complete catches %s: a rejected '
             'duplicate would not roll back' % sorted(caught), ctx.loc(eng))
    ecfg = ctx.cfg(eng)
    sites = U.calls_in(ecfg, 'on_action_complete')
    r1.check(bool(sites) and all(U.inside_with(ecfg, n, 'transaction')
                                 for n, c in sites),
             ctx.construct(eng, extra='inside transaction'),
             'completion is not handled inside db_api.transaction()',
             ctx.loc(eng))

    # ---- R2 duplicate start returns the existing execution ------------------
    r2 = ctx.rule('R2', 'start_workflow with an existing id returns the '
                  'existing execution', 'GD')
    sw = prog.func(ENG + '.start_workflow')
    ok = False
    for t in ast.walk(sw.node):
        if isinstance(t, ast.Try):
            creates = any(isinstance(x, ast.Call) and
                          U.call_name(x) == 'start_workflow'
                          for b in t.body for x in ast.walk(b))
            for h in t.handlers:
                if creates and any(x.endswith('DBDuplicateEntryError')
                                   for x in U.handler_types(h)):
                    ok = U.phas(h, '___.get_workflow_execution(wf_ex_id)') \
                        and any(isinstance(x, ast.Return)
                                for x in ast.walk(h))
    r2.check(ok, ctx.construct(sw, extra='duplicate id handler'),
             'no DBDuplicateEntryError handler returning the existing '
             'execution around the creating transaction', ctx.loc(sw))
    cw = prog.func('mistral.db.v2.sqlalchemy.api.create_workflow_execution')
    ok = False
    for t in ast.walk(cw.node):
        if isinstance(t, ast.Try):
            for h in t.handlers:
                if any('DBDuplicateEntry' in x for x in U.handler_types(h)) \
                        and any(isinstance(x, ast.Raise) and x.exc is not None
                                and 'DBDuplicateEntryError' in norm(x.exc)
                                for x in ast.walk(h)):
                    # ... on every path through the handler: no branch, no
                    # re-raise of the driver's error (which columns the
                    # driver names for a primary key clash differs between
                    # backends)
                    ok = len(h.body) == 1 and \
                        isinstance(h.body[0], ast.Raise)
    r2.check(ok, ctx.construct(cw), 'driver duplicate error is not '
             'converted to DBDuplicateEntryError', ctx.loc(cw))

    # ---- R3 actions scheduled only for an IDLE task -----------------------
    r3 = ctx.rule('R3', 'a duplicate start_task does not schedule actions '
                  'twice', 'GD')
    rn = prog.func(RT + '._run_new')
    cfg = ctx.cfg(rn)
    IN, keys = sd.analyze(cfg, rn, [('self.task_ex.state', sd.state_domain)],
                          ghost={'self.task_ex.state'})
    sched = U.calls_in(cfg, '_schedule_actions')
    cas = U.calls_in(cfg, 'set_state')
    if not sched or not cas:
        raise AnalysisError('C06.R3: _run_new lost its calls')
    for n, c in sched:
        vals = sd.values_at(IN, keys, n, 'self.task_ex.state')
        r3.check(vals <= {S['IDLE']}, ctx.construct(rn, c),
                 'actions scheduled for a task that was not IDLE on entry '
                 '(%s): a duplicate start would dispatch the action twice'
                 % sorted(map(str, vals)), ctx.loc(rn, c))
        r3.check(any(cfg.dominates(cn, n) for cn, _c in cas),
                 ctx.construct(rn, extra='CAS before scheduling'),
                 'scheduling is not preceded by the CAS to RUNNING',
                 ctx.loc(rn, c))
    # _run_new ignores the boolean of set_state: the loser of a concurrent
    # duplicate stops only because its in-memory copy still shows the state
    # it read - the losing side of the CAS must leave that copy untouched
    from mstatic.rules import c03 as _c03
    _c03.loser_path_effect_free(ctx, r3)

    # ---- R4 executor: redelivered and result count --------------------------
    r4 = ctx.rule('R4', 'a redelivered non-safe action is not run; at most '
                  'one result per normal path', 'GD+path count')
    dr = prog.func(EXE + '._do_run_action')
    cfg = ctx.cfg(dr)
    IN, keys = sd.analyze(cfg, dr, [('redelivered', (False, True)),
                                    ('safe_rerun', (False, True))])
    runs = [(n, c) for n, c in cfg.calls(
        lambda c: U.call_name(c) in ('ThreadWithException', 'start') or
        'action.run' in ast.unparse(c))]
    runs = [(n, c) for n, c in runs
            if 'action.run' in ast.unparse(c) or
            (U.call_name(c) == 'start' and 'thread' in ast.unparse(c.func))]
    if not runs:
        raise AnalysisError('C06.R4: action run site lost in _do_run_action')
    for n, c in runs:
        bad = [v for v in IN[n.id] if v[0] and not v[1]]
        r4.check(not bad, ctx.construct(dr, c),
                 'the action can run although the request was redelivered '
                 'and it is not safe to re-run', ctx.loc(dr, c))
    # the refusing branch sends exactly one error and returns
    errs = U.calls_in(cfg, 'send_error_back')
    ok = False
    for n, c in errs:
        vs = IN[n.id]
        if vs and all(v[0] and not v[1] for v in vs):
            ok = isinstance(n.ast, ast.Return)
    r4.check(ok, ctx.construct(dr, extra='redelivered => one error'),
             'the redelivered/not-safe branch does not return '
             'send_error_back(...)', ctx.loc(dr))
    # at most one result sent on any non-exceptional path
    senders = [n for n, c in cfg.calls(
        lambda c: U.call_name(c) in ('on_action_complete',
                                     'send_error_back'))]
    worst = _max_on_path(cfg, senders)
    r4.check(worst <= 1, ctx.construct(dr, extra='one result per path'),
             'a non-exceptional path sends %d results' % worst, ctx.loc(dr))
    # a second (error) result after a FAILED send is allowed only when the
    # failure is one of the service's own errors (the message was never put
    # on the bus, e.g. it could not be serialised); after a transport-level
    # exception the first result may have been delivered
    for t in ast.walk(dr.node):
        if not isinstance(t, ast.Try):
            continue
        sends = [y for b in t.body for y in ast.walk(b)
                 if isinstance(y, ast.Call) and
                 U.call_name(y) in ('on_action_complete',
                                    'send_error_back')]
        if not sends:
            continue
        for h in t.handlers:
            again = [y for y in ast.walk(h) if isinstance(y, ast.Call) and
                     U.call_name(y) in ('send_error_back',
                                        'on_action_complete')]
            if not again:
                continue
            # the handler may only be reached because the send ITSELF
            # failed: nothing that can raise follows a send inside the
            # protected body (otherwise a delivered result is followed by a
            # second one when a later statement fails)
            for snd in sends:
                sn_ = cfg.node_of(snd)
                body_ids = {id(y) for b in t.body for y in ast.walk(b)}
                later = []
                for x in cfg.reach([s_ for s_, k in sn_.succ
                                    if k not in ('exc',)],
                                   follow_exc=False):
                    if x.ast is None or id(x.ast) not in body_ids:
                        continue
                    for y in cfg.own_nodes(x):
                        if isinstance(y, ast.Call) and y is not snd and \
                                U.call_name(y) not in ('warning', 'info',
                                                       'debug', 'exception'):
                            later.append(y)
                r4.check(not later,
                         ctx.construct(dr, snd, extra='nothing fallible '
                                       'after a send inside the protected '
                                       'block'),
                         'a result is sent and %s follows inside the same '
                         'try block whose handler sends an error result: '
                         'when that later call fails the engine gets two '
                         'results for one run'
                         % [norm(y, 40) for y in later][:2],
                         ctx.loc(dr, snd))
            hts = U.handler_types(h) or ['BaseException']
            own_only = all(
                esc_declared(ctx, dr, ht) for ht in hts)
            r4.check(own_only, ctx.construct(dr, extra='second result only '
                                             'after a Mistral error'),
                     'an error result is sent after the first send failed '
                     'with %s: a transport-level failure does not mean the '
                     'first result was not delivered (two results for one '
                     'run)' % hts, ctx.loc(dr, h))
    # the result of a run goes back exactly when the action has an execution
    # and is synchronous or failed (an asynchronous action reports its
    # result itself later: sending it here would complete it twice)
    direct = [(n, c) for n, c in cfg.calls(
        lambda c: U.call_name(c) == 'on_action_complete')]
    if not direct:
        raise AnalysisError('C06.R4: result send lost in _do_run_action')
    for n, c in direct:
        r4.check(U.guarded(cfg, n, 'action_ex_id and (action.is_sync() or '
                           'result.is_error())', True) or
                 (U.guarded(cfg, n, 'action_ex_id', True) and
                  U.guarded(cfg, n, 'action.is_sync() or result.is_error()',
                            True)),
                 ctx.construct(dr, extra='send iff sync or error'),
                 'the result is not sent back exactly when the action has an '
                 'execution and is synchronous or failed', ctx.loc(dr, c))
        r4.check(len(c.args) >= 2 and norm(c.args[0]) == 'action_ex_id' and
                 norm(c.args[1]) == 'result',
                 ctx.construct(dr, extra='sends this result'),
                 'what is sent is not (action_ex_id, result)',
                 ctx.loc(dr, c))
    seb = prog.funcs.get(dr.qname + '.<locals>.send_error_back')
    if seb is None:
        raise AnalysisError('C06.R4: send_error_back helper lost')
    n_send = len([x for x in own_nodes(seb.node) if isinstance(x, ast.Call)
                  and U.call_name(x) == 'on_action_complete'])
    r4.check(n_send == 1, ctx.construct(seb), 'send_error_back sends %d '
             'results' % n_send, ctx.loc(seb))
    scfg = ctx.cfg(seb)
    r4.check(all(U.guarded(scfg, n, 'action_ex_id', True)
                 for n, c in U.calls_in(scfg, 'on_action_complete')),
             ctx.construct(seb, extra='to the engine iff there is an '
                           'execution'),
             'the error result is not sent to the engine exactly when the '
             'run belongs to an action execution', ctx.loc(seb))
    es = prog.func('mistral.executors.executor_server.ExecutorServer.'
                   'run_action')
    fw = [n for n in own_nodes(es.node) if isinstance(n, ast.Call) and
          U.call_dotted(n) == 'self.executor.run_action']
    src_ok = any(isinstance(n, ast.Assign) and
                 dotted(n.targets[0]) == 'redelivered' and
                 U.phas(n.value, 'rpc_ctx.redelivered')
                 for n in own_nodes(es.node))
    r4.check(src_ok and fw and any(
        isinstance(a, ast.Name) and a.id == 'redelivered'
        for c in fw for a in list(c.args) + [k.value for k in c.keywords]),
        ctx.construct(es, extra='forwards redelivered'),
        'the redelivered flag of the RPC context is not forwarded to the '
        'executor', ctx.loc(es))
    # ... and the flag survives the (de)serialisation of the RPC context
    _shc.context_round_trip(ctx, r4, names=('redelivered',))
    ra = prog.func(EXE + '.run_action')
    fw = [n for n in own_nodes(ra.node) if isinstance(n, ast.Call) and
          U.call_name(n) == '_do_run_action']
    s = sig(dr)
    okf = False
    for c in fw:
        names = [a.id if isinstance(a, ast.Name) else None for a in c.args]
        if 'redelivered' in names and 'safe_rerun' in names:
            okf = (s['pos'][names.index('redelivered')] == 'redelivered' and
                   s['pos'][names.index('safe_rerun')] == 'safe_rerun')
        for k in c.keywords:
            if k.arg == 'redelivered':
                okf = True
    r4.check(okf, ctx.construct(ra, extra='argument positions'),
             'redelivered / safe_rerun are not passed to the matching '
             'parameters of _do_run_action', ctx.loc(ra))

    # ---- R5 RPC surface -----------------------------------------------------
    r5 = ctx.rule('R5', 'RPC client, server and implementation signatures '
                  'agree', 'AGREE')
    r5.floor(14)
    rpc_surface(ctx, r5)
    rpc_params_forwarded_unchanged(ctx, r5)

    # ---- R6 every delivery consults the delivered execution ------------------
    r6 = ctx.rule('R6', 'task accounting is guarded by the delivered '
                  'execution', 'dataflow')
    for cls in (RT, WIT):
        f = prog.func(cls + '.on_action_complete')
        arg = f.params[1] if len(f.params) > 1 else None
        reads = [n for n in own_nodes(f.node) if isinstance(n, ast.Name) and
                 n.id == arg and isinstance(n.ctx, ast.Load)]
        mut = [n for n in own_nodes(f.node) if isinstance(n, ast.Call) and
               U.call_name(n) in ('_increase_capacity', '_decrease_capacity',
                                  '_schedule_actions')]
        if cls == RT:
            r6.check(bool(reads), ctx.construct(f),
                     'RegularTask.on_action_complete ignores the delivered '
                     'execution', ctx.loc(f))
            continue
        if not mut:
            raise AnalysisError('C06.R6: WithItemsTask accounting calls '
                                'lost')
        cfg = ctx.cfg(f)
        for c in mut:
            cn = cfg.node_of(c)
            guarded = False
            for (t, pol, gn) in cfg.guards(cn):
                if isinstance(t, ast.expr) and arg in {
                        x.id for x in ast.walk(t) if isinstance(x, ast.Name)}:
                    guarded = True
            r6.check(guarded, ctx.construct(f, c),
                     'capacity / scheduling is changed without consulting '
                     'the delivered execution %r: a duplicate completion of '
                     'the same item (e.g. a sub-workflow result delivered '
                     'twice, which WorkflowAction.complete does not reject) '
                     'frees capacity twice' % arg, ctx.loc(f, c))


def _max_on_path(cfg, marked):
    """Maximum number of marked nodes on any non-exceptional path from
    entry to exit (loops: a marked node inside a loop counts as 2)."""
    mark = {n.id for n in marked}
    memo = {}
    onstack = set()

    def go(n):
        if n.id in memo:
            return memo[n.id]
        if n.id in onstack:
            return 0
        onstack.add(n.id)
        best = 0
        for s, k in n.succ:
            if k == 'exc':
                continue
            if k == 'back' and (s.id in mark or n.id in mark):
                best = max(best, 2)
                continue
            best = max(best, go(s))
        onstack.discard(n.id)
        r = best + (1 if n.id in mark else 0)
        memo[n.id] = r
        return r
    return go(cfg.entry)


def esc_declared(ctx, f, handler_type):
    """handler_type (dotted text in f's module) is one of the service's own
    exception classes (subclass of MistralException / MistralError)."""
    prog = ctx.prog
    r = prog.resolve_dotted(f.module, handler_type)
    if r not in prog.classes:
        return False
    return any(k.endswith('exceptions.MistralException') or
               k.endswith('exceptions.MistralError') or
               k.endswith('exceptions.MistralExceptionBase')
               for k in prog.mro(r))
