"""C14 - definition validation is total, accepted definitions are stable."""
import ast

from mstatic.core import AnalysisError, NotConst, dotted, norm, own_nodes
from mstatic.rules import util as U

LANG = 'mistral.lang'
PARSER = 'mistral.lang.parser'
BASE = 'mistral.lang.base'
EXC = 'mistral.exceptions'

# constructor loops over raw sub-mappings whose elements are typed by the
# class's own schema (validated by super().__init__ before the loop)
SCHEMA_TYPED_LOOPS = {
    'mistral.lang.base.BaseListSpec.__init__':
        ('additionalProperties', 'schema: additionalProperties is '
         'NONEMPTY_DICT, so every non-version value is a mapping'),
}


def exception_info(prog, cls_q):
    """(derives from DSLParsingException, folded http_code)"""
    if cls_q not in prog.classes:
        return None, None
    mro = prog.mro(cls_q)
    dsl = (EXC + '.DSLParsingException') in mro
    _k, node = prog.class_attr(cls_q, 'http_code')
    code = prog.try_const(EXC, node) if node is not None else None
    return dsl, code


def task_links_validated(ctx, rule):
    """The reverse controller resolves every `requires` name with
    wf_spec.get_tasks()[name] and uses the result as a task spec; the direct
    controller does so for every transition target that is not an engine
    command.  A name that is neither is an internal error at run time, so
    the definition must be refused."""
    from mstatic.rules import dt
    prog = ctx.prog
    WF = 'mistral.lang.v2.workflows.'
    vl = prog.func(WF + 'WorkflowSpec._validate_task_link')
    t = dt.Table(ctx, vl, [('self._task_exists(task_name)', (True, False)),
                           ('allow_engine_cmds', (True, False)),
                           ('task_name in ENGINE_COMMANDS', (True, False))],
                 extra_vars=[('valid_task', (False, True))])
    raises = [n for n in t.cfg.nodes if n.kind == 'stmt' and
              isinstance(n.ast, ast.Raise)]
    if len(raises) != 1:
        raise AnalysisError('C14.R10: _validate_task_link has %d raise '
                            'statements' % len(raises))
    t.check_exact(
        rule, raises[0],
        lambda d: not d['self._task_exists(task_name)'] and not (
            d['allow_engine_cmds'] and d['task_name in ENGINE_COMMANDS']),
        'the unknown-task error is raised',
        'refused exactly when neither a task nor an allowed engine command')
    rule.check(U.phas(raises[0].ast, 'exc.InvalidModelException(___)') or
               U.phas(raises[0].ast, 'exc.DSLParsingException(___)'),
               ctx.construct(vl, raises[0].ast, extra='definition error'),
               'an unknown task is not reported as a definition error',
               ctx.loc(vl, raises[0].ast))
    te = prog.func(WF + 'WorkflowSpec._task_exists')
    rule.check(U.phas(te.node, 'return self.get_tasks()[task_name] '
                      'is not None'), ctx.construct(te),
               '_task_exists does not look the name up among the tasks',
               ctx.loc(te))
    # reverse: every (task, require) pair, engine commands not allowed
    rv = prog.func(WF + 'ReverseWorkflowSpec._check_workflow_integrity')
    rcfg = ctx.cfg(rv)
    cs = U.calls_in(rcfg, '_validate_task_link')
    rule.check(len(cs) == 1, ctx.construct(rv, extra='validates requires'),
               'requires are not validated', ctx.loc(rv))
    for n, c in cs:
        kw = U.kwarg(c, 'allow_engine_cmds', 1)
        rule.check(isinstance(kw, ast.Constant) and kw.value is False,
                   ctx.construct(rv, c, extra='engine commands refused'),
                   'a `requires` entry that names an engine command (fail, '
                   'pause, ...) is accepted: the reverse controller treats '
                   'it as a task and crashes when the workflow runs',
                   ctx.loc(rv, c))
        fors = [x for x in own_nodes(rv.node) if isinstance(x, ast.For)
                and any(y is c for y in ast.walk(x))]
        its = sorted(norm(x.iter) for x in fors)
        rule.check(its == ['self.get_task_requires(t_s)', 'self.get_tasks()']
                   and norm(c.args[0]) in [norm(x.target) for x in fors]
                   and not U.guard_atoms(rcfg, n),
                   ctx.construct(rv, c, extra='all requires of all tasks'),
                   'not every requirement (own and task-defaults) of every '
                   'task is validated (loops over %s)' % its, ctx.loc(rv, c))
    sv = prog.func(WF + 'ReverseWorkflowSpec.validate_semantics')
    rule.check(ctx.cfg(sv).must_pass(
        ctx.cfg(sv).entry, [n for n, _c in U.calls_in(
            ctx.cfg(sv), '_check_workflow_integrity')]),
        ctx.construct(sv, extra='integrity check always runs'),
        'reverse workflow validation can finish without the integrity check',
        ctx.loc(sv))
    # direct: every outbound name of every task
    dv = prog.func(WF + 'DirectWorkflowSpec._check_workflow_integrity')
    dcfg = ctx.cfg(dv)
    cs = U.calls_in(dcfg, '_validate_task_link')
    rule.check(len(cs) == 1, ctx.construct(dv, extra='validates targets'),
               'transition targets are not validated', ctx.loc(dv))
    for n, c in cs:
        fors = [x for x in own_nodes(dv.node) if isinstance(x, ast.For)
                and any(y is c for y in ast.walk(x))]
        its = sorted(norm(U.canon_expr(dv.node, x.iter), 200) for x in fors)
        rule.check(its == ['self.find_outbound_task_names(t_s.get_name())',
                           'self.get_tasks()'] and
                   not U.guard_atoms(dcfg, n),
                   ctx.construct(dv, c, extra='all targets of all tasks'),
                   'not every transition target of every task is validated '
                   '(loops over %s)' % its, ctx.loc(dv, c))
    sv = prog.func(WF + 'DirectWorkflowSpec.validate_semantics')
    rule.check(ctx.cfg(sv).must_pass(
        ctx.cfg(sv).entry, [n for n, _c in U.calls_in(
            ctx.cfg(sv), '_check_workflow_integrity')]),
        ctx.construct(sv, extra='integrity check always runs'),
        'direct workflow validation can finish without the integrity check',
        ctx.loc(sv))


DICT_ONLY_METHODS = ('items', 'keys', 'values', 'get', 'update', 'setdefault',
                     'pop')


def union_typed_fields(ctx, rule):
    """A spec property whose schema allows a mapping *or* a string (an
    expression evaluated at run time) is stored in one attribute.  Every
    operation that only a mapping supports (merging parameters into it,
    iterating its items, storing a key) must be reached with a mapping
    only; with the string form it raises TypeError / AttributeError while
    the definition is being validated (F26)."""
    from mstatic.rules import dt
    from mstatic.statedom import FDICT
    prog = ctx.prog
    n_fields = n_ops = 0
    for cq, cnode in sorted(prog.classes.items()):
        if not prog.class_module[cq].startswith(LANG + '.v2'):
            continue
        _k, sch = prog.class_attr(cq, '_schema')
        if not isinstance(sch, ast.Dict) or _k != cq:
            continue
        props = None
        for a, b in zip(sch.keys, sch.values):
            if isinstance(a, ast.Constant) and a.value == 'properties' and \
                    isinstance(b, ast.Dict):
                props = b
        if props is None:
            continue
        union = set()
        for a, b in zip(props.keys, props.values):
            if not (isinstance(a, ast.Constant) and isinstance(b, ast.Dict)):
                continue
            for k2, v2 in zip(b.keys, b.values):
                if isinstance(k2, ast.Constant) and k2.value in (
                        'oneOf', 'anyOf') and isinstance(v2, ast.List):
                    alts = [norm(x) for x in v2.elts]
                    if any('DICT' in x for x in alts) and any(
                            'STRING' in x or 'YAQL' in x or 'EXPRESSION' in x
                            for x in alts):
                        union.add(a.value)
        if not union:
            continue
        init = prog.funcs.get(cq + '.__init__')
        if init is None:
            continue
        attr = {}
        for x in own_nodes(init.node):
            if isinstance(x, ast.Assign) and len(x.targets) == 1 and \
                    isinstance(x.targets[0], ast.Attribute) and \
                    dotted(x.targets[0].value) == 'self' and \
                    isinstance(x.value, ast.Call) and \
                    U.call_name(x.value) == 'get' and x.value.args and \
                    isinstance(x.value.args[0], ast.Constant) and \
                    x.value.args[0].value in union:
                attr['self.' + x.targets[0].attr] = x.value.args[0].value
        n_fields += len(attr)
        for m in prog.methods_of(cq):
            for key, prop in attr.items():
                ops = []
                for x in own_nodes(m.node):
                    if isinstance(x, ast.Call) and \
                            U.call_name(x) == 'merge_dicts' and x.args and \
                            norm(x.args[0]) == key:
                        ops.append(x)
                    if isinstance(x, ast.Call) and \
                            isinstance(x.func, ast.Attribute) and \
                            norm(x.func.value) == key and \
                            x.func.attr in DICT_ONLY_METHODS:
                        ops.append(x)
                    if isinstance(x, (ast.Assign, ast.AugAssign, ast.Delete)):
                        tg = x.targets if not isinstance(x, ast.AugAssign) \
                            else [x.target]
                        for t_ in tg:
                            if isinstance(t_, ast.Subscript) and \
                                    norm(t_.value) == key:
                                ops.append(x)
                if not ops:
                    continue
                loc_defs = [k_ for k_ in U._single_defs(m.node)]
                t = dt.Table(ctx, m, [(key, (FDICT, '<% $.x %>'))],
                             mutable=(key,) if m.name == '__init__' else ())
                for op in ops:
                    n_ops += 1
                    node = t.cfg.node_of(op) if not isinstance(
                        op, ast.stmt) else t.cfg.stmt_node(op)
                    vals = {v[0] for v in t.full_at(node)}
                    rule.check('<% $.x %>' not in vals,
                               ctx.construct(m, op, extra='mapping form only'),
                               "'%s' may be given as an expression (a "
                               'string), and this mapping-only operation is '
                               'reached with that form: TypeError / '
                               'AttributeError instead of a definition error'
                               % prop, ctx.loc(m, op))
    if n_fields < 1 or n_ops < 1:
        raise AnalysisError('C14.R6: no union-typed spec field with a '
                            'mapping-only operation found (%d fields, %d '
                            'operations)' % (n_fields, n_ops))


def schema_memo_not_inherited(ctx):
    """BaseSpec.get_schema() memoises the merged schema in the class
    attribute `_full_schema` and reads it back through ordinary attribute
    lookup, i.e. through inheritance: once a class WITH subclasses has its
    schema memoised, a subclass that has not memoised its own yet validates
    against the parent's schema from then on (for the polymorphic roots that
    schema constrains next to nothing: malformed definitions are accepted or
    crash in __init__).  The pinned tree is safe because get_schema is only
    ever invoked on the class being instantiated (`self.get_schema()`) and,
    by name, on classes without subclasses.  Decided: either the memo is
    read per class (`cls.__dict__`), or every receiver of get_schema is
    `self` or a class without subclasses - a receiver the function itself
    treats as a polymorphic root (hasattr(x, '_polymorphic_key')) is one
    with subclasses."""
    prog = ctx.prog
    r = ctx.rule('R11', 'the memoised schema of a spec class is never that '
                 'of its parent class', 'WMW (receivers)')
    gs = prog.func('mistral.lang.base.BaseSpec.get_schema')
    reads = [x for x in own_nodes(gs.node) if isinstance(x, ast.Attribute)
             and x.attr == '_full_schema' and isinstance(x.ctx, ast.Load)]
    own_lookup = any(isinstance(x, ast.Attribute) and x.attr == '__dict__'
                     for x in own_nodes(gs.node)) and not reads
    if own_lookup:
        r.ok(ctx.construct(gs, extra='memo read per class'),
             'the memo is looked up in the class itself')
        return
    n = 0
    for m in sorted(prog.modules):
        if not m.startswith('mistral.') or '.tests.' in m:
            continue
        tree = prog.module(m)
        funcs = [x for x in ast.walk(tree)
                 if isinstance(x, (ast.FunctionDef, ast.AsyncFunctionDef))]
        owner = {}
        for fn in funcs:
            for y in ast.walk(fn):
                owner.setdefault(id(y), fn)
        for c in ast.walk(tree):
            if not (isinstance(c, ast.Call) and
                    isinstance(c.func, ast.Attribute) and
                    c.func.attr == 'get_schema'):
                continue
            recv = c.func.value
            d = dotted(recv)
            n += 1
            where = '%s :: %s' % (m, norm(c, 60))
            loc = prog.loc(m, c)
            if d in ('self',):
                r.ok(where, 'the class being instantiated')
                continue
            q = prog.resolve_dotted(m, d) if d else None
            if q in prog.classes:
                subs = sorted(prog.subclasses.get(q, ()))
                r.check(not subs, where,
                        'get_schema() is called on %s, which has subclasses '
                        '%s: they inherit its memoised schema' % (q, subs[:3]),
                        loc)
                continue
            fn = owner.get(id(c))
            poly = fn is not None and isinstance(recv, ast.Name) and any(
                isinstance(y, ast.Call) and U.call_name(y) == 'hasattr' and
                len(y.args) == 2 and norm(y.args[0]) == recv.id and
                isinstance(y.args[1], ast.Constant) and
                y.args[1].value == '_polymorphic_key'
                for y in ast.walk(fn))
            r.check(not poly, where,
                    'get_schema() is called on %s, which the function '
                    'itself treats as a polymorphic root class: its '
                    'subclasses inherit the memoised root schema and stop '
                    'validating their own' % norm(recv), loc)
    if n < 10:
        raise AnalysisError('get_schema call sites: %d found' % n)


def conversions_contained(ctx):
    """Values of a definition are converted / searched where a failure of
    the conversion becomes a definition error: the version number
    (`float()` raises ValueError, TypeError and - for a huge integer -
    OverflowError) and its canonical form (callers compare the result with
    the string V2_0; the schema also admits the YAML number 2.0), the text
    search for a workbook section (`str.index` raises ValueError when the
    key is quoted / in flow style), the names of the members of a workflow /
    action list (YAML keys need not be strings; the name goes into a model
    whose validator does `" " in name`)."""
    prog = ctx.prog
    r = ctx.rule('R12', 'conversions of definition values fail as '
                 'definition errors (version number, section search, '
                 'member names)', 'GD (handlers)')
    gv = prog.func('mistral.lang.parser._get_spec_version')
    fl = [c for c in own_nodes(gv.node) if isinstance(c, ast.Call) and
          isinstance(c.func, ast.Name) and c.func.id == 'float']
    if len(fl) != 1:
        raise AnalysisError('_get_spec_version: float() conversion not found')
    covered = set()
    for t in own_nodes(gv.node):
        if isinstance(t, ast.Try) and any(y is fl[0] for b in t.body
                                          for y in ast.walk(b)):
            for h in t.handlers:
                leaves = any(isinstance(y, ast.Raise) or (
                    isinstance(y, ast.Call) and U.call_name(y) == '_raise')
                    for s_ in h.body for y in ast.walk(s_))
                if leaves:
                    covered |= {z.split('.')[-1]
                                for z in U.handler_types(h)}
    need = {'ValueError', 'TypeError', 'OverflowError'}
    okh = need <= covered or bool({'Exception', 'ArithmeticError'} & covered
                                  and {'ValueError', 'TypeError'} <= covered
                                  ) or 'Exception' in covered
    r.check(okh, ctx.construct(gv, extra='float() failures become a '
                               'definition error'),
            'float(version) can raise %s outside a handler that turns it '
            'into a definition error' % sorted(need - covered), ctx.loc(gv))
    cfg = ctx.cfg(gv)
    canon = [x.targets[0].id for x in own_nodes(gv.node)
             if isinstance(x, ast.Assign) and
             isinstance(x.targets[0], ast.Name) and
             any(y is fl[0] for y in ast.walk(x.value)) and
             isinstance(x.value, ast.Call) and U.call_name(x.value) == 'str']
    rets = [x for x in own_nodes(gv.node) if isinstance(x, ast.Return)
            and cfg.stmt_node(x) is not None]
    r.check(bool(canon) and bool(rets) and all(
        isinstance(x.value, ast.Name) and x.value.id == canon[0]
        for x in rets),
        ctx.construct(gv, extra='canonical version returned'),
        'the version handed to the callers (who compare it with the string '
        'V2_0) is not the canonical string that was checked against '
        'ALL_VERSIONS: `version: 2.0` (a YAML number the schema admits) '
        'selects no spec class and the caller gets None', ctx.loc(gv))
    pw = prog.func('mistral.lang.parser._parse_def_from_wb')
    pcfg = ctx.cfg(pw)
    n_idx = 0
    for n, c in pcfg.calls(lambda c: isinstance(c.func, ast.Attribute) and
                           c.func.attr == 'index' and len(c.args) == 1):
        recv, needle = c.func.value, c.args[0]
        if not (isinstance(recv, ast.Name) and recv.id in pw.params and
                isinstance(needle, ast.Name) and needle.id in pw.params):
            continue
        n_idx += 1
        guarded = bool(U.guard_match(
            pcfg, n, '%s in %s' % (needle.id, recv.id), True))
        handled = any(
            any(z.split('.')[-1] in ('ValueError', 'Exception')
                for z in U.handler_types(h)) and
            any(isinstance(y, ast.Raise) for s_ in h.body
                for y in ast.walk(s_))
            for t in pcfg.enclosing_trys(n) for h in t.handlers)
        r.check(guarded or handled,
                ctx.construct(pw, c, extra='section present'),
                'the workbook text is searched for %s with str.index '
                'without a preceding containment test / ValueError '
                'handler: a quoted or flow-style section key is an '
                'internal error' % needle.id, ctx.loc(pw, c))
    if not n_idx and not any(
            isinstance(c.func, ast.Attribute) and c.func.attr == 'find'
            for _n, c in pcfg.calls(lambda c: True)):
        raise AnalysisError('_parse_def_from_wb: section search not found')
    vs = prog.func('mistral.lang.base.BaseListSpec.validate_schema')
    vcfg = ctx.cfg(vs)
    okn = False
    for x in vcfg.nodes:
        if x.kind == 'stmt' and isinstance(x.ast, ast.Raise) and \
                U.guard_match(vcfg, x, 'isinstance(__k, str)', False):
            lp = [l for l in own_nodes(vs.node) if isinstance(l, ast.For)
                  and any(y is x.ast for y in ast.walk(l))]
            okn = bool(lp) and norm(lp[0].iter) in (
                'self._data', 'self._data.keys()')
    r.check(okn, ctx.construct(vs, extra='member names are strings'),
            'the names of the members of a workflow / action list are not '
            'checked to be strings: `1: {tasks: ...}` passes validation and '
            'fails with TypeError in the model validator', ctx.loc(vs))


    # values of a definition are serialised by an encoder that takes what
    # the YAML loader produces: a date / timestamp nested in a mapping
    # passes the schemas (nested content is unconstrained) and makes the
    # stdlib encoder raise TypeError
    n_j = 0
    for q, f in sorted(prog.funcs.items()):
        if not (f.module.startswith('mistral.lang') or f.module in (
                'mistral.services.adhoc_actions', 'mistral.services.workbooks',
                'mistral.services.workflows', 'mistral.services.actions')):
            continue
        imp = prog.imports.get(f.module, {})
        for c in own_nodes(f.node):
            if isinstance(c, ast.Call) and isinstance(c.func, ast.Attribute) \
                    and c.func.attr == 'dumps':
                n_j += 1
                root = (dotted(c.func.value) or '').split('.')[0]
                r.check(imp.get(root) != 'json' or any(
                    k.arg in ('default', 'cls') for k in c.keywords),
                    ctx.construct(f, c, extra='encoder takes YAML values'),
                    'a value of a definition is serialised with the stdlib '
                    'json encoder without a `default`: a nested YAML date / '
                    'timestamp is a TypeError', ctx.loc(f, c))
    if n_j < 1:
        raise AnalysisError('no serialisation of definition values found')


def run(ctx):
    schema_memo_not_inherited(ctx)
    conversions_contained(ctx)
    prog = ctx.prog

    # ---- R1 hardened loader ------------------------------------------------
    r1 = ctx.rule('R1', 'only safe_yaml touches the YAML loader; the loader '
                  'disables anchors/aliases', 'WMW')
    n_yaml = 0
    for q, f in sorted(prog.funcs.items()):
        imp = prog.imports.get(f.module, {})
        for n in own_nodes(f.node):
            if isinstance(n, ast.Call) and isinstance(n.func, ast.Attribute) \
                    and n.func.attr in ('load', 'safe_load', 'full_load',
                                        'unsafe_load', 'load_all',
                                        'safe_load_all'):
                root = (dotted(n.func.value) or '').split('.')[0]
                if imp.get(root) == 'yaml':
                    n_yaml += 1
                    r1.check(f.module == 'mistral.utils.safe_yaml',
                             ctx.construct(f, n),
                             'PyYAML loader called outside '
                             'mistral/utils/safe_yaml.py (anchors/aliases '
                             'and unsafe tags become reachable)',
                             ctx.loc(f, n))
    if n_yaml < 1:
        raise AnalysisError('C14.R1: no yaml.load call found')
    sl = 'mistral.utils.safe_yaml.SafeLoader'
    prog.cls(sl)
    for m in ('fetch_alias', 'fetch_anchor'):
        f = prog.funcs.get(sl + '.' + m)
        r1.check(f is not None and 'fetch_plain' in ast.unparse(f.node),
                 sl + ' :: ' + m, 'SafeLoader.%s no longer neutralises '
                 'YAML %s' % (m, m.split('_')[1] + 's'), prog.loc(sl))
    ld = prog.func('mistral.utils.safe_yaml.load')
    r1.check(any(isinstance(n, ast.Call) and U.call_dotted(n) == 'yaml.load'
                 and len(n.args) == 2 and dotted(n.args[1]) == 'SafeLoader'
                 for n in own_nodes(ld.node)), ctx.construct(ld),
             'safe_yaml.load does not use the hardened SafeLoader',
             ctx.loc(ld))
    users = 0
    for q, f in prog.funcs.items():
        for n in own_nodes(f.node):
            if isinstance(n, ast.Call) and \
                    U.call_dotted(n) == 'safe_yaml.load':
                users += 1
    if users < 4:
        raise AnalysisError('C14.R1: only %d safe_yaml.load users' % users)

    # ---- R2 raise discipline -------------------------------------------------
    r2 = ctx.rule('R2', 'everything raised by the language layer is a '
                  'definition error (DSLParsingException, HTTP 400)', 'WMW')
    r2.floor(15)
    scope = [f for f in prog.funcs.values()
             if f.module.startswith(LANG)]
    ev_validate = [f for f in prog.funcs.values()
                   if f.module.startswith('mistral.expressions') and
                   f.name == 'validate']
    for f in sorted(scope + ev_validate, key=lambda x: x.qname):
        for n in own_nodes(f.node):
            if not isinstance(n, ast.Raise):
                continue
            if n.exc is None:
                r2.ok(ctx.construct(f, n), 're-raise')
                continue
            e = n.exc.func if isinstance(n.exc, ast.Call) else n.exc
            d = dotted(e)
            cq = prog.resolve_dotted(f.module, d) if d else None
            dsl, code = exception_info(prog, cq)
            if not dsl and f in ev_validate and code == 400 and \
                    _nonstring_only(ctx, f, n) and _entry_filters_str(prog):
                r2.ok(ctx.construct(f, n), 'unreachable from validation: '
                      'raised only for non-string input, which '
                      'expressions.validate filters out first')
                continue
            r2.check(bool(dsl) and code == 400, ctx.construct(f, n),
                     'raises %s which is not a DSLParsingException with '
                     'http_code 400 (the validation endpoint would answer '
                     'with an internal error)' % d, ctx.loc(f, n))
            # the message is text: MistralFailuresBase.__str__ returns the
            # message as it is, so an exception *object* passed as message
            # makes str(error) itself fail with TypeError (F24)
            if isinstance(n.exc, ast.Call) and n.exc.args:
                hn = [h.name for h in ast.walk(f.node)
                      if isinstance(h, ast.ExceptHandler) and h.name and
                      any(x is n for x in ast.walk(h))]
                a0 = n.exc.args[0]
                raw = (isinstance(a0, ast.Name) and a0.id in hn) or (
                    isinstance(a0, ast.Call) and
                    isinstance(a0.func, ast.Name) and
                    a0.func.id == 'getattr' and len(a0.args) == 3 and
                    isinstance(a0.args[2], ast.Name) and
                    a0.args[2].id in hn)
                r2.check(not raw, ctx.construct(f, n, extra='text message'),
                         'the caught exception object itself is used as the '
                         'message of the definition error: str() of the '
                         'error raises TypeError and the request ends in an '
                         'internal error', ctx.loc(f, n))

    # ---- R3 conversion boundaries ------------------------------------------------
    r3 = ctx.rule('R3', 'library errors are converted at the boundaries; '
                  'schema validation precedes use of the data', 'GD')
    py = prog.func(PARSER + '.parse_yaml')
    ok = False
    for t in ast.walk(py.node):
        if isinstance(t, ast.Try):
            loads = any(isinstance(x, ast.Call) and
                        U.call_dotted(x) == 'safe_yaml.load'
                        for b in t.body for x in ast.walk(b))
            # the base class of everything the YAML reader / scanner /
            # parser raises (ReaderError is not a MarkedYAMLError)
            conv = any(any(z.split('.')[-1] in ('YAMLError', 'Exception',
                                                'BaseException')
                           for z in U.handler_types(h)) and
                       any(isinstance(x, ast.Raise) and x.exc is not None and
                           'DSLParsingException' in norm(x.exc)
                           for x in ast.walk(h)) for h in t.handlers)
            ok = ok or (loads and conv)
    r3.check(ok, ctx.construct(py, extra='YAMLError converted'),
             'YAML syntax errors are not converted to DSLParsingException',
             ctx.loc(py))
    # the YAML scanner / parser / composer recurse on the nesting of the
    # document: a few hundred nested flow sequences exhaust the stack (F25)
    okr = False
    for t in ast.walk(py.node):
        if isinstance(t, ast.Try) and any(
                isinstance(x, ast.Call) and
                U.call_dotted(x) == 'safe_yaml.load'
                for b in t.body for x in ast.walk(b)):
            okr = okr or any(
                any(z.split('.')[-1] in ('RecursionError', 'RuntimeError',
                                         'Exception', 'BaseException')
                    for z in U.handler_types(h)) and
                any(isinstance(x, ast.Raise) and x.exc is not None and
                    'DSLParsingException' in norm(x.exc)
                    for x in ast.walk(h)) for h in t.handlers)
    r3.check(okr, ctx.construct(py, extra='RecursionError converted'),
             'a document nested deeply enough to exhaust the interpreter '
             'stack inside the YAML parser ends in RecursionError (an '
             'internal error), not in a definition error', ctx.loc(py))
    # the same holds for the other recursive-descent parser validation
    # feeds with user text: Jinja (F29).  (The YAQL parser is table driven.)
    n_rp = 0
    for f in ev_validate:
        for c in own_nodes(f.node):
            if not (isinstance(c, ast.Call) and
                    isinstance(c.func, ast.Attribute) and
                    c.func.attr in ('parse', 'parse_expression') and
                    f.module.endswith('jinja_expression')):
                continue
            n_rp += 1
            fcfg = ctx.cfg(f)
            conv = False
            for tr in fcfg.enclosing_trys(fcfg.node_of(c)):
                for h in tr.handlers:
                    if any(z.split('.')[-1] in ('RecursionError',
                                                'RuntimeError', 'Exception',
                                                'BaseException')
                           for z in U.handler_types(h)) and any(
                            isinstance(x, ast.Raise) and x.exc is not None and
                            'GrammarException' in norm(x.exc)
                            for x in ast.walk(h)):
                        conv = True
            r3.check(conv, ctx.construct(f, c, extra='RecursionError '
                                         'converted'),
                     'the Jinja parser recurses on the nesting of the '
                     'expression: without a handler for RecursionError a '
                     'deeply nested expression ends validation in an '
                     'internal error', ctx.loc(f, c))
    if n_rp < 2:
        raise AnalysisError('C14.R3: Jinja parser calls in validate() lost')
    gv = prog.func(PARSER + '._get_spec_version')
    ok = False
    for t in ast.walk(gv.node):
        if isinstance(t, ast.Try):
            tys = {z for h in t.handlers for z in U.handler_types(h)}
            ok = ok or ({'ValueError', 'TypeError'} <= tys)
    r3.check(ok, ctx.construct(gv, extra='version conversion'),
             'a malformed version value is not handled (ValueError / '
             'TypeError)', ctx.loc(gv))
    n_json = 0
    for f in scope:
        for n in own_nodes(f.node):
            if isinstance(n, ast.Call) and U.call_dotted(n) == 'json.loads':
                n_json += 1
                cfg = ctx.cfg(f)
                cn = cfg.node_of(n)
                tr = cfg.enclosing_trys(cn)
                okj = any(any(z in ('Exception', 'ValueError',
                                    'json.JSONDecodeError')
                              for h in t.handlers
                              for z in U.handler_types(h)) for t in tr)
                r3.check(okj, ctx.construct(f, n), 'json.loads on '
                         'definition text is not guarded', ctx.loc(f, n))
    if n_json < 2:
        raise AnalysisError('C14.R3: json.loads sites lost')
    # every spec constructor validates (super().__init__) before reading
    n_init = 0
    for cq in sorted(prog.all_subclasses(BASE + '.BaseSpec')):
        f = prog.funcs.get(cq + '.__init__')
        if f is None:
            continue
        n_init += 1
        body = [s for s in f.node.body
                if not (isinstance(s, ast.Expr) and
                        isinstance(s.value, ast.Constant))]
        idx = None
        for i, s in enumerate(body):
            if isinstance(s, ast.Expr) and isinstance(s.value, ast.Call) and \
                    U.call_name(s.value) == '__init__' and \
                    'super(' in norm(s.value):
                idx = i
                break
        if idx is None:
            r3.fail(ctx.construct(f, extra='super().__init__'),
                    'spec constructor never calls super().__init__ (schema '
                    'validation is skipped)', ctx.loc(f))
            continue
        pre = [s_ for s_ in body[:idx] if not U.is_log_stmt(s_)]
        # statements before validation may only be pure one-line transforms
        # of the input (RetrySpec) - they must not subscript / iterate data
        bad = [s for s in pre if any(
            isinstance(x, ast.Subscript) and dotted(x.value) in (
                'data', 'self._data') for x in ast.walk(s))]
        r3.check(not bad and len(pre) <= 1,
                 ctx.construct(f, extra='validate before use'),
                 'the constructor reads the raw data before '
                 'super().__init__ validated it against the schema',
                 ctx.loc(f))
    if n_init < 12:
        raise AnalysisError('C14.R3: only %d spec constructors' % n_init)
    bi = prog.func(BASE + '.BaseSpec.__init__')
    bcfg = ctx.cfg(bi)
    vs = U.calls_in(bcfg, 'validate_schema')
    okb = False
    for n, c in vs:
        g = U.polarity_guard(bcfg, n, lambda t: norm(t) == 'validate')
        okb = g is not None and g[1] is True
    r3.check(okb, ctx.construct(bi), 'BaseSpec.__init__ does not run '
             'schema validation when validate is true', ctx.loc(bi))
    isp = prog.func(BASE + '.instantiate_spec')
    icfg = ctx.cfg(isp)
    sem = U.calls_in(icfg, 'validate_semantics')
    r3.check(len(sem) >= 2 and all(
        (lambda g: g is not None and g[1] is True)(
            U.polarity_guard(icfg, n, lambda t: norm(t) == 'validate'))
        for n, c in sem), ctx.construct(isp, extra='semantic validation'),
        'instantiate_spec does not run semantic validation on every '
        'construction path when validate is true', ctx.loc(isp))

    # ---- R4 stored form ---------------------------------------------------------------
    r4 = ctx.rule('R4', 'specs return their backing dict; injected keys are '
                  'schema properties; services store to_dict()', 'AGREE')
    td = prog.func(BASE + '.BaseSpec.to_dict')
    rets = [n for n in own_nodes(td.node) if isinstance(n, ast.Return)]
    r4.check(len(rets) == 1 and norm(rets[0].value) == 'self._data',
             ctx.construct(td), 'to_dict does not return the backing '
             'dictionary', ctx.loc(td))
    overrides = [q for q in prog.funcs
                 if q.endswith('.to_dict') and q.startswith(LANG) and
                 q != td.qname]
    r4.check(not overrides, BASE + '.BaseSpec.to_dict :: overrides',
             'to_dict overridden in %s' % overrides)
    # keys injected by the list containers are declared by the item schema
    from mstatic.rules.c08 import schema_keys
    for item_cls, keys in (
            ('mistral.lang.v2.workflows.WorkflowSpec', {'name', 'version',
                                                        'type'}),
            ('mistral.lang.v2.tasks.TaskSpec', {'name', 'version', 'type'}),
            ('mistral.lang.v2.actions.ActionSpec', {'name', 'version'})):
        try:
            have = set()
            for k in prog.mro(item_cls):
                for attr in ('_schema', '_meta_schema'):
                    kk, node = prog.class_attr(k, attr)
                    if isinstance(node, ast.Dict):
                        for a, b in zip(node.keys, node.values):
                            if isinstance(a, ast.Constant) and \
                                    a.value == 'properties' and \
                                    isinstance(b, ast.Dict):
                                have |= {x.value for x in b.keys
                                         if isinstance(x, ast.Constant)}
        except Exception as e:
            raise AnalysisError('C14.R4: schema of %s: %s' % (item_cls, e))
        r4.check(keys <= have, item_cls + ' :: injected keys in schema',
                 'keys %s are injected into the stored dict but are not '
                 'schema properties: the stored form would not re-validate'
                 % sorted(keys - have), prog.loc(item_cls))
    for q, frag in (('mistral.services.workflows._get_workflow_values',
                     'wf_spec.to_dict()'),
                    ('mistral.engine.workflows.Workflow._create_execution',
                     'self.wf_spec.to_dict()')):
        f = prog.func(q)
        ok = any(isinstance(n, ast.Dict) and any(
            isinstance(k, ast.Constant) and k.value == 'spec' and
            norm(v) == frag for k, v in zip(n.keys, n.values))
            for n in own_nodes(f.node))
        r4.check(ok, ctx.construct(f, extra="'spec' stored"),
                 "the stored 'spec' is not %s" % frag, ctx.loc(f))
    ge = prog.func(PARSER + '.get_workflow_spec_by_execution_id')
    r4.check(U.phas(ge.node, 'get_workflow_spec(__ex.spec)'),
             ctx.construct(ge), 'execution specs are not rebuilt from the '
             'stored spec dict', ctx.loc(ge))
    # to_dict() hands out the backing dict: an in-place merge into a cached
    # publish spec also changes what the next execution stores as its spec
    from mstatic.rules import c05 as _c05
    _c05.shared_publish_specs(ctx, r4)

    # ---- R6 shape before use --------------------------------------------------------------
    r6 = ctx.rule('R6', 'raw YAML nodes are type-checked before mapping '
                  'operations', 'typestate')
    cfg = ctx.cfg(py)
    rets = [x for x in cfg.nodes if x.kind == 'stmt' and
            isinstance(x.ast, ast.Return) and x.ast.value is not None]
    for x in rets:
        v = x.ast.value
        okd = False
        if isinstance(v, ast.Name):
            okd = U.guarded(cfg, x, 'isinstance(%s, dict)' % v.id, True)
        elif isinstance(v, ast.Dict):
            okd = True
        r6.check(okd, ctx.construct(py, x.ast),
                 'parse_yaml can return a YAML scalar or list: every '
                 'consumer treats the result as a mapping (TypeError / '
                 'AttributeError instead of a definition error)',
                 ctx.loc(py, x.ast))
    n_loops = 0
    for f in sorted(scope, key=lambda x: x.qname):
        if f.name != '__init__':
            continue
        fcfg = ctx.cfg(f)
        for lp in [n for n in own_nodes(f.node) if isinstance(n, ast.For)]:
            it = lp.iter
            if not (isinstance(it, ast.Call) and
                    isinstance(it.func, ast.Attribute) and
                    it.func.attr in ('values', 'items')):
                continue
            names = [x.id for x in ast.walk(lp.target)
                     if isinstance(x, ast.Name)]
            elem = names[-1] if names else None
            uses = []
            for x in ast.walk(lp):
                if isinstance(x, ast.Subscript) and \
                        isinstance(x.value, ast.Name) and x.value.id == elem:
                    uses.append(x)
                if isinstance(x, ast.Call) and \
                        isinstance(x.func, ast.Attribute) and \
                        isinstance(x.func.value, ast.Name) and \
                        x.func.value.id == elem and x.func.attr in (
                            'get', 'setdefault', 'update', 'items', 'keys',
                            'values', 'pop'):
                    uses.append(x)
            if not uses:
                continue
            n_loops += 1
            for u in uses:
                un = fcfg.node_of(u)
                guarded = U.guarded(fcfg, un,
                                    'isinstance(%s, dict)' % elem, True)
                why = ''
                if not guarded and f.qname in SCHEMA_TYPED_LOOPS:
                    key, why = SCHEMA_TYPED_LOOPS[f.qname]
                    cls = f.cls
                    _k, sch = prog.class_attr(cls, '_schema')
                    typed = False
                    if isinstance(sch, ast.Dict):
                        for a, b in zip(sch.keys, sch.values):
                            if isinstance(a, ast.Constant) and \
                                    a.value == key and \
                                    norm(b) == 'types.NONEMPTY_DICT':
                                typed = True
                    sup = [s for s in f.node.body if isinstance(s, ast.Expr)
                           and isinstance(s.value, ast.Call) and
                           'super(' in norm(s.value)]
                    guarded = typed and bool(sup) and \
                        sup[0].lineno < lp.lineno
                r6.check(guarded, ctx.construct(f, u),
                         'element %s of a raw sub-mapping is subscripted '
                         'without isinstance(%s, dict) (the schema does not '
                         'type every value of that mapping): TypeError on a '
                         'scalar value' % (elem, elem), ctx.loc(f, u), why)
    if n_loops < 3:
        raise AnalysisError('C14.R6: only %d raw loops found' % n_loops)
    union_typed_fields(ctx, r6)
    # the workflow's type is forced onto every task (it selects the task
    # spec class): a task-level `type` must not survive
    wsi = prog.func('mistral.lang.v2.workflows.WorkflowSpec.__init__')
    forced = False
    for lp in [n for n in own_nodes(wsi.node) if isinstance(n, ast.For)]:
        names = [x.id for x in ast.walk(lp.target)
                 if isinstance(x, ast.Name)]
        for st in ast.walk(lp):
            if isinstance(st, ast.Assign) and len(st.targets) == 1 and \
                    isinstance(st.targets[0], ast.Subscript) and \
                    isinstance(st.targets[0].value, ast.Name) and \
                    st.targets[0].value.id in names and \
                    isinstance(st.targets[0].slice, ast.Constant) and \
                    st.targets[0].slice.value == 'type' and \
                    norm(st.value) == 'self._type':
                forced = True
    r6.check(forced, ctx.construct(wsi, extra="task['type'] forced"),
             "the workflow type is not assigned to every task's 'type' "
             "(a task-level type that disagrees with the workflow builds "
             "the other task spec class: AttributeError in semantic "
             "validation instead of a definition error)", ctx.loc(wsi))
    # text slicing of workbook members: the header is found by equality
    pd = prog.func(PARSER + '._parse_def_from_wb')
    pcfg = ctx.cfg(pd)
    hdr = [x for x in pcfg.nodes if x.kind == 'stmt' and
           isinstance(x.ast, ast.Assign) and
           dotted(x.ast.targets[0]) == 'ident' and
           not isinstance(x.ast.value, ast.Constant)]
    r6.check(bool(hdr) and all(
        U.guarded(pcfg, x, 'item_name == __l.strip()', True) for x in hdr),
        ctx.construct(pd, extra='header matched exactly'),
        'the workflow/action header inside a workbook is not matched by '
        'equality with "<name>:" (a prefix / substring match picks an '
        'earlier key that merely starts with the name: the stored '
        'definition text is a fragment of another workflow)', ctx.loc(pd))
    # the polymorphic discriminator is used as a dict key before validation
    icfg = ctx.cfg(isp)
    keyuse = [x for x in icfg.nodes if x.kind == 'stmt' and
              isinstance(x.ast, ast.Assign) and
              dotted(x.ast.targets[0]) == 'cache_key']
    if not keyuse:
        raise AnalysisError('C14.R6: cache_key assignment lost')
    okk = False
    okk = False
    for bnd in U.guard_match(icfg, keyuse[0],
                             'isinstance(polymorphic_val, __types)', False):
        # rejected: the unhashable YAML node kinds
        tn = {dotted(e) for e in getattr(bnd['__types'], 'elts',
                                         [bnd['__types']])}
        okk = okk or {'dict', 'list'} <= tn
    for bnd in U.guard_match(icfg, keyuse[0],
                             'isinstance(polymorphic_val, __types)', True):
        tn = {dotted(e) for e in getattr(bnd['__types'], 'elts',
                                         [bnd['__types']])}
        okk = okk or (bool(tn) and tn <= {'str', 'int', 'bool', 'float'})
    r6.check(okk, ctx.construct(isp, extra='hashable discriminator'),
             'the raw polymorphic key value becomes part of a dict key '
             'without a type check: an unhashable value (list / mapping) '
             'raises TypeError before any validation', ctx.loc(isp))
    okd = False
    dg = [x for x in icfg.nodes if x.kind == 'stmt' and
          isinstance(x.ast, ast.Assign) and
          dotted(x.ast.targets[0]) == 'polymorphic_val']
    for x in dg:
        okd = okd or U.guarded(icfg, x, 'isinstance(data, dict)', True)
    r6.check(okd, ctx.construct(isp, extra='data is a mapping'),
             'data.get() on the raw node is not preceded by '
             'isinstance(data, dict)', ctx.loc(isp))

    # ---- R7 the schema boundary converts what the validator raises ------------------------
    r7 = ctx.rule('R7', 'validate_schema converts every error jsonschema '
                  'can raise on YAML data', 'GD')
    vf = prog.func(BASE + '.BaseSpec.validate_schema')
    tys = set()
    conv = True
    for t in ast.walk(vf.node):
        if isinstance(t, ast.Try) and any(
                isinstance(x, ast.Call) and
                U.call_dotted(x) == 'jsonschema.validate'
                for b in t.body for x in ast.walk(b)):
            for h in t.handlers:
                tys |= set(U.handler_types(h))
                conv = conv and any(
                    isinstance(x, ast.Raise) and x.exc is not None and
                    'InvalidModelException' in norm(x.exc)
                    for x in ast.walk(h))
    r7.check('jsonschema.ValidationError' in tys and conv,
             ctx.construct(vf, extra='ValidationError'),
             'schema violations are not converted to InvalidModelException',
             ctx.loc(vf))
    r7.check(bool({'TypeError', 'Exception'} & tys) and conv,
             ctx.construct(vf, extra='TypeError'),
             'jsonschema raises TypeError (not ValidationError) when a '
             'patternProperties regex meets a non-string mapping key, and '
             'YAML yields such keys (1:, true:): it is not converted',
             ctx.loc(vf))

    # ---- R8 explicit raises escaping the validation entry points ------------------------
    r8 = ctx.rule('R8', 'every explicit raise that can escape a definition '
                  'parsing entry point is a DSLParsingException',
                  'WMW-reach (exception escape)')
    from mstatic.escape import Escapes
    es = Escapes(prog, ctx.cg)
    roots = [PARSER + '.' + n for n in (
        'get_workbook_spec_from_yaml', 'get_workflow_list_spec_from_yaml',
        'get_action_list_spec_from_yaml', 'get_workflow_spec_from_yaml',
        'get_action_spec_from_yaml')]
    total = 0
    for rq in roots:
        prog.func(rq)
        esc = es.raised.get(rq, {})
        total += len(esc)
        bad = sorted((cls, site) for (cls, site) in esc
                     if not any(x.endswith('.DSLParsingException')
                                for x in es.supers(cls)))
        r8.check(not bad, rq + ' :: escaping raises',
                 'explicit raises that are not definition errors can escape '
                 'validation: %s' % ['%s @ %s' % (c.rsplit('.', 1)[-1], s_)
                                     for c, s_ in bad][:4], prog.loc(rq),
                 '%d escaping raise sites, all DSLParsingException'
                 % len(esc))
    if total < 20:
        raise AnalysisError('C14.R8: escape analysis lost the raise sites '
                            '(%d)' % total)

    # ---- R9 the workbook text slicer only ever adds lines ----------------------------------
    r9 = ctx.rule('R9', 'the text of a workbook member is built by '
                  'appending source lines: nothing collected is removed or '
                  'filtered afterwards', 'WMW (accumulator)')
    pf = prog.func(PARSER + '._parse_def_from_wb')
    rets = [x for x in own_nodes(pf.node) if isinstance(x, ast.Return)]
    acc = None
    for r_ in rets:
        for c in ast.walk(r_.value):
            if isinstance(c, ast.Call) and U.call_name(c) == 'join' and \
                    c.args and isinstance(c.args[0], ast.Name):
                acc = c.args[0].id
    if acc is None:
        raise AnalysisError('C14.R9: accumulator of _parse_def_from_wb')
    muts = []
    for x in own_nodes(pf.node):
        if isinstance(x, ast.Call) and isinstance(x.func, ast.Attribute) \
                and dotted(x.func.value) == acc and \
                x.func.attr not in ('append',):
            muts.append(norm(x))
        if isinstance(x, ast.Delete) and any(
                acc in U.names_in(t) for t in x.targets):
            muts.append(norm(x))
        if isinstance(x, (ast.Assign, ast.AugAssign)):
            tg = x.targets if isinstance(x, ast.Assign) else [x.target]
            for t in tg:
                if isinstance(t, ast.Subscript) and dotted(t.value) == acc:
                    muts.append(norm(x))
                if isinstance(t, ast.Name) and t.id == acc and not (
                        isinstance(x, ast.Assign) and
                        isinstance(x.value, ast.List) and not x.value.elts):
                    muts.append(norm(x))
    r9.check(not muts, ctx.construct(pf, extra='append-only'),
             'lines already collected for a workbook member are removed / '
             'rewritten (%s): the stored definition text differs from what '
             'was written in the workbook (a trailing "# ..." line inside a '
             'block scalar is content)' % muts[:2], ctx.loc(pf))
    r9.check(all(U.phas(r_.value, "''.join(%s)" % acc) for r_ in rets),
             ctx.construct(pf, extra='returns the joined lines'),
             'the member text is not the concatenation of the collected '
             'lines', ctx.loc(pf))

    # ---- R10 task references are checked at definition time -------------------------------
    r10 = ctx.rule('R10', 'every task a transition or a `requires` names is '
                   'checked to exist when the definition is validated '
                   '(engine commands only where the controller can run '
                   'them)', 'DT + COVER')
    task_links_validated(ctx, r10)

    # ---- R5 regular expressions (thorough) ---------------------------------------------------
    if True:   # cheap (0.1 s): part of the quick tier since round three
        r5 = ctx.rule('R5', 'regular expressions applied to definition '
                      'text have no exponential-backtracking shape', 'regex')
        regexes = collect_regexes(prog)
        if len(regexes) < 6:
            raise AnalysisError('C14.R5: only %d regexes folded'
                                % len(regexes))
        fixture = nested_unbounded('(a+)+$')
        if not fixture:
            raise AnalysisError('C14.R5: the positive fixture (a+)+$ is no '
                                'longer flagged')
        for name, pat in sorted(regexes.items()):
            try:
                bad = nested_unbounded(pat)
            except Exception as e:
                r5.fail(name, 'regex does not parse: %s' % e)
                continue
            r5.check(not bad, name + ' :: ' + pat[:60],
                     'nested unbounded quantifiers %s (exponential '
                     'backtracking on crafted definition text: validation '
                     'hangs)' % bad)


def collect_regexes(prog):
    out = {}
    mods = ('mistral.lang.base', 'mistral.lang.v2.tasks',
            'mistral.lang.v2.on_clause',
            'mistral.expressions.yaql_expression',
            'mistral.expressions.jinja_expression', 'mistral.lang.types')
    for m in mods:
        if m not in prog.modules:
            continue
        for name in prog.module_assigns.get(m, {}):
            try:
                v = prog.const(m, name)
            except NotConst:
                continue
            if isinstance(v, str) and (name.endswith('REGEXP') or
                                       name.startswith('_ALL_') or
                                       name in ('_DIGITS',)):
                out[m + '.' + name] = v
            if isinstance(v, dict) and name == 'ACTION_PATTERNS':
                for k, p in v.items():
                    if isinstance(p, str):
                        out[m + '.ACTION_PATTERNS[%s]' % k] = p
    # assembled patterns: every module-level `NAME = re.compile(<expr>)` of
    # these modules is evaluated from its own source (string formatting,
    # joins over constant lists / dict values, and the table of inline
    # expression patterns of the registered evaluators)
    for m in mods:
        if m not in prog.modules:
            continue
        for name, node in prog.module_assigns.get(m, {}).items():
            if isinstance(node, ast.Call) and \
                    (dotted(node.func) or '') == 're.compile' and node.args:
                v = _regex_value(prog, m, node.args[0])
                if isinstance(v, str):
                    out[m + '.' + name] = v
                else:
                    raise AnalysisError('C14.R5: %s.%s = re.compile(...) '
                                        'could not be evaluated from its '
                                        'source' % (m, name))
    return out


def _evaluator_patterns(prog):
    """{name: pattern} as mistral.expressions.patterns is built: the
    find_expression_pattern of every evaluator registered under the entry
    point group mistral.expression.evaluators, sorted by name."""
    from mstatic.core import entry_points
    eps = entry_points(prog.root if hasattr(prog, 'root') else '/repo')
    grp = eps.get('mistral.expression.evaluators', {})
    out = {}
    for name in sorted(grp):
        target = grp[name].replace(':', '.')
        k, node = prog.class_attr(target, 'find_expression_pattern')
        if not (isinstance(node, ast.Call) and
                (dotted(node.func) or '') == 're.compile' and node.args):
            raise AnalysisError('C14.R5: find_expression_pattern of %s'
                                % target)
        mod = target.rsplit('.', 1)[0]
        v = _regex_value(prog, k.rsplit('.', 1)[0] if k else mod,
                         node.args[0])
        if not isinstance(v, str):
            raise AnalysisError('C14.R5: pattern of %s does not fold'
                                % target)
        out[name] = v
    if len(out) < 2:
        raise AnalysisError('C14.R5: inline expression evaluators not found')
    return out


def _regex_value(prog, module, e, depth=0):
    """Value of a string-building expression, or None."""
    if depth > 8:
        return None
    try:
        return prog.eval_const(module, e)
    except NotConst:
        pass
    rv = lambda x: _regex_value(prog, module, x, depth + 1)  # noqa: E731
    if isinstance(e, ast.Name):
        node = prog.module_assigns.get(module, {}).get(e.id)
        return rv(node) if node is not None else None
    if isinstance(e, ast.BinOp) and isinstance(e.op, ast.Mod):
        left, right = rv(e.left), rv(e.right)
        if isinstance(left, str) and right is not None:
            try:
                return left % (tuple(right) if isinstance(right, list)
                               else right)
            except (TypeError, ValueError):
                return None
        return None
    if isinstance(e, ast.BinOp) and isinstance(e.op, ast.Add):
        left, right = rv(e.left), rv(e.right)
        if type(left) is type(right) and left is not None:
            return left + right
        return None
    if isinstance(e, (ast.List, ast.Tuple)):
        vals = [rv(x) for x in e.elts]
        return None if any(v is None for v in vals) else vals
    if isinstance(e, ast.Call) and isinstance(e.func, ast.Attribute):
        if e.func.attr == 'join' and len(e.args) == 1:
            sep, items = rv(e.func.value), rv(e.args[0])
            if isinstance(sep, str) and isinstance(items, list) and \
                    all(isinstance(x, str) for x in items):
                return sep.join(items)
            return None
        if e.func.attr == 'format':
            tpl = rv(e.func.value)
            args = [rv(a) for a in e.args]
            if isinstance(tpl, str) and all(isinstance(a, str)
                                            for a in args):
                try:
                    return tpl.format(*args)
                except (IndexError, KeyError, ValueError):
                    return None
            return None
        if e.func.attr == 'values' and not e.args:
            d = rv(e.func.value)
            return list(d.values()) if isinstance(d, dict) else None
    if isinstance(e, ast.ListComp) and len(e.generators) == 1:
        # [<mod>.patterns[name] for name in <mod>.patterns]
        g = e.generators[0]
        it = dotted(g.iter) or ''
        if it.endswith('.patterns') and isinstance(e.elt, ast.Subscript) \
                and dotted(e.elt.value) == it and \
                norm(e.elt.slice) == norm(g.target) and not g.ifs:
            tgt = prog.resolve_dotted(module, it)
            if tgt == 'mistral.expressions.patterns':
                pats = _evaluator_patterns(prog)
                return [pats[k] for k in pats]
    return None


def nested_unbounded(pattern):
    """Shapes `(X+)+`, `(X*)*`, `(X+)*` ... : an unbounded repeat whose body
    is (up to grouping) another unbounded repeat, or a branch with an
    unbounded repeat alternative.  Returns list of descriptions."""
    import re._parser as sp
    from re._constants import MAX_REPEAT, MIN_REPEAT, SUBPATTERN, BRANCH, \
        MAXREPEAT
    tree = sp.parse(pattern)
    found = []

    def unbounded(op, av):
        return op in (MAX_REPEAT, MIN_REPEAT) and av[1] == MAXREPEAT

    def nullable(item):
        op, av = item
        if op in (MAX_REPEAT, MIN_REPEAT):
            return av[0] == 0 or all(nullable(x) for x in av[2])
        if op == SUBPATTERN:
            return all(nullable(x) for x in av[3])
        if op == BRANCH:
            return any(all(nullable(x) for x in alt) for alt in av[1])
        return False

    def strip(seq):
        """sole non-optional element of a sequence, through groups:
        `(?:\\w+-?)` is `\\w+` as far as ambiguity is concerned (the optional
        tail lets one iteration end anywhere inside a run of word
        characters)"""
        items = list(seq)
        while True:
            solid = [x for x in items if not nullable(x)]
            if len(solid) == 1 and len(items) > 1:
                items = solid
            if len(items) == 1 and items[0][0] == SUBPATTERN:
                items = list(items[0][1][3])
                continue
            break
        return items

    def walk(seq):
        for op, av in seq:
            if op in (MAX_REPEAT, MIN_REPEAT):
                body = av[2]
                if unbounded(op, av):
                    inner = strip(body)
                    if len(inner) == 1 and inner[0][0] in (MAX_REPEAT,
                                                           MIN_REPEAT) and \
                            unbounded(*inner[0]):
                        found.append('outer repeat over inner repeat')
                    if len(inner) == 1 and inner[0][0] == BRANCH:
                        for alt in inner[0][1][1]:
                            a = strip(alt)
                            if len(a) == 1 and a[0][0] in (
                                    MAX_REPEAT, MIN_REPEAT) and \
                                    unbounded(*a[0]):
                                found.append('outer repeat over a branch '
                                             'with an unbounded '
                                             'alternative')
                walk(body)
            elif op == SUBPATTERN:
                walk(av[3])
            elif op == BRANCH:
                for alt in av[1]:
                    walk(alt)
    walk(tree)
    return found


def _nonstring_only(ctx, f, raise_node):
    cfg = ctx.cfg(f)
    sn = cfg.stmt_node(raise_node)
    if sn is None:
        return False
    return U.guarded(cfg, sn, 'isinstance(expression, str)', False)


def _entry_filters_str(prog):
    """expressions.validate returns before touching an evaluator when the
    value is not a string, and it is the only caller of Evaluator.validate
    outside the evaluators themselves."""
    v = prog.func('mistral.expressions.validate')
    first = [s for s in v.node.body if isinstance(s, ast.If)]
    ok = bool(first) and norm(first[0].test) == \
        'not isinstance(expression, str)' and \
        isinstance(first[0].body[0], ast.Return)
    callers = set()
    for q, f in prog.funcs.items():
        if f.module.startswith('mistral.expressions.') and \
                f.module != 'mistral.expressions':
            continue
        for n in own_nodes(f.node):
            if isinstance(n, ast.Call) and U.call_name(n) == 'validate' and \
                    isinstance(n.func, ast.Attribute) and \
                    dotted(n.func.value) == 'evaluator':
                callers.add(q)
    return ok and callers <= {'mistral.expressions.validate'}
